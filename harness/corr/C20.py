"""C20 — HTTP server responses are framed exactly and headers cannot be injected.

Tie: a real `http.Request` driven through a real `HTTPChannel` on a `StringTransport` (request line +
headers are delivered as bytes, the script runs inside `process()`), against the Lean model
`TwistedModel/Http/Response.lean`; the bytes written, the exceptions raised per operation and whether the
connection was closed must be identical.  The emitted bytes are parsed by `h11` (real code side) and by
the Lean reference parser `TwistedModel/Http/Rfc9112.lean` (model side): the two parses must be identical
as well.

Oracle (independent of the model): from the script alone compute what a client must see — status,
field list (line breaks / NUL / VT / FF in values read as a space, names case-insensitive, invalid names
refused when set), body = concatenation of the writes (none for HEAD / 204 / 304) — and compare with
what h11 read from the bytes the real server wrote.
"""
import re
import warnings

import h11
from twisted.internet.testing import StringTransport
from twisted.web import http
from twisted.web.http_headers import _nameEncoder, _sanitizeLinearWhitespace

HEADLINE = "TwistedProps.C20.emits_one_wellformed_response"
RULE = ("scripts = request context (HTTP/1.0|1.1, GET|HEAD, Connection: close or not) + setResponseCode (table "
        "reason or hostile reason bytes) + 0..4 setHeader/addRawHeader (valid, case-variant, special-cased and invalid "
        "names as bytes or text; values over an alphabet rich in CR, LF, NUL, VT, FF, HTAB, ';', ':', 0x7f-0xff, "
        "non-ASCII and astral code points, lone surrogates) + 0..2 addCookie with random attributes + 0..4 writes "
        "(sizes around 0/1/15/16/17/255/256, bytes 0..255, chunk-framing look-alikes) + finish; truthful, false or "
        "absent Content-Length; some scripts interleave or continue after finish; plus direct _sanitizeLinearWhitespace "
        "and header-name cases; distinct = (version, method, status class, framing, which hostile bytes occurred "
        "where, which operations were refused, #headers, #cookies, #writes)")
ASSUMES = [
    "the status code in force at the first write is a final status code 200..999 (three digits; 1xx are interim responses)",
    "the application does not set Transfer-Encoding itself; a Content-Length it sets is a single decimal value equal to "
    "the number of body bytes it writes (any decimal value for HEAD / 204 / 304)",
    "Request.setETag / setLastModified are not used (etag and lastModified stay None); no producer is registered",
    "cookies added with addCookie replace a Set-Cookie header set directly (documented behaviour of Request.write)",
    "cookie values are compared as cookie-pairs: SP/HTAB next to '=' and ';' and at the ends are not significant",
    "field values are compared without leading/trailing SP/HTAB (RFC 9110 §5.5: not part of the value)",
]
TRUSTED = ["h11 0.16 as the independent HTTP/1.1 parser", "twisted.internet.testing.StringTransport",
           "hand-written Lean model of Request/Headers/HTTPChannel.writeHeaders (differentially tied)",
           "hand-written Lean reference parser Rfc9112.parseResponse (tied to h11 on every emitted response)"]
MANIFEST = {
    "text": "Lean theorems (TwistedProps/C20.lean): for every request context, every history of setResponseCode/"
            "setHeader/addRawHeader/addCookie calls with arbitrary bytes/text arguments, every list of writes and finish, "
            "the emitted bytes are read by the reference RFC 9112 response parser as exactly one response with that "
            "status, exactly the stored fields and the concatenated body (none for HEAD/204/304), with nothing left over; "
            "sanitised values and reason never contain CR/LF/NUL/VT/FF; refused names leave the response unchanged. "
            "Model tied to http.py/http_headers.py by differential runs of whole scripts through a real HTTPChannel; "
            "reference parser tied to h11 on every emitted response.",
    "note": "trusts Lean kernel, the hand-written model and reference parser (both differentially tied on every run), h11",
    "technique": "Lean 4 proof (parser/emitter inversion by induction over field lines and chunks) + differential tie + h11 oracle",
    "design_ref": "DESIGN.md §7 C20",
}

# ----------------------------------------------------------------------------------------------------
# encoding of cases


def hx(b):
    return b.hex() if b else "-"


def S(x):
    """python value -> JSON Str"""
    if isinstance(x, bytes):
        return ["b", x.hex()]
    return ["t", [ord(c) for c in x]]


def unS(s):
    if s is None:
        return None
    if s[0] == "b":
        return bytes.fromhex(s[1])
    return "".join(chr(c) for c in s[1])


def encS(s):
    if s is None:
        return "N"
    if s[0] == "b":
        return "b" + (s[1] or "-")
    return "t" + (".".join(str(c) for c in s[1]) or "-")


def enc_op(op):
    k = op[0]
    if k == "sc":
        return f"sc:{op[1]}:{'N' if op[2] is None else (op[2] or '-')}"
    if k in ("sh", "ah"):
        return f"{k}:{encS(op[1])}:{encS(op[2])}"
    if k == "w":
        return "w:" + (op[1] or "-")
    if k == "f":
        return "f"
    if k == "ck":
        return "ck:" + ":".join([encS(op[1]), encS(op[2])] + [encS(x) for x in op[3:8]]
                                + [str(int(op[8])), str(int(op[9])), encS(op[10])])
    raise ValueError(k)


def model_line(c):
    if c["op"] == "san":
        return "san " + (c["x"] or "-")
    if c["op"] == "name":
        return "name " + encS(c["n"])
    return " ".join(["run", str(c["v11"]), str(c["head"]), str(c["close"])] + [enc_op(o) for o in c["ops"]])


# ----------------------------------------------------------------------------------------------------
# the real code

def _h11_parse(data, closed, head):
    conn = h11.Connection(h11.CLIENT, max_incomplete_event_size=1 << 22)
    conn.send(h11.Request(method="HEAD" if head else "GET", target="/", headers=[("Host", "x")]))
    conn.send(h11.EndOfMessage())
    try:
        conn.receive_data(data)
        if closed:
            conn.receive_data(b"")
        resp, body, done = None, b"", False
        while True:
            e = conn.next_event()
            if e is h11.NEED_DATA or e is h11.PAUSED or isinstance(e, h11.ConnectionClosed):
                break
            if isinstance(e, h11.Response):
                if resp is not None:
                    return "reject"
                resp = e
            elif isinstance(e, h11.InformationalResponse):
                return "reject"
            elif isinstance(e, h11.Data):
                body += bytes(e.data)
            elif isinstance(e, h11.EndOfMessage):
                if e.headers:
                    return "reject"
                done = True
        if resp is None or not done or conn.trailing_data[0]:
            return "reject"
    except h11.RemoteProtocolError:
        return "reject"
    hs = ",".join(hx(bytes(n).lower()) + ":" + hx(bytes(v)) for n, v in resp.headers)
    return f"{resp.status_code}/{hx(bytes(resp.reason))}/{hs}/{hx(body)}"


def _call(req, op):
    k = op[0]
    if k == "sc":
        req.setResponseCode(op[1], None if op[2] is None else bytes.fromhex(op[2]))
    elif k == "sh":
        req.setHeader(unS(op[1]), unS(op[2]))
    elif k == "ah":
        req.responseHeaders.addRawHeader(unS(op[1]), unS(op[2]))
    elif k == "ck":
        req.addCookie(unS(op[1]), unS(op[2]), expires=unS(op[3]), domain=unS(op[4]), path=unS(op[5]),
                      max_age=unS(op[6]), comment=unS(op[7]), secure=bool(op[8]), httpOnly=bool(op[9]),
                      sameSite=unS(op[10]))
    elif k == "w":
        req.write(bytes.fromhex(op[1]))
    elif k == "f":
        req.finish()
    else:
        raise AssertionError(k)


def run_impl(c):
    if c["op"] == "san":
        return hx(_sanitizeLinearWhitespace(bytes.fromhex(c["x"])))
    if c["op"] == "name":
        try:
            return hx(_nameEncoder.encode(unS(c["n"])))
        except UnicodeEncodeError:
            return "!raised UnicodeEncodeError"
        except ValueError as e:
            return "!raised " + type(e).__name__
    errs = []
    ops = c["ops"]

    class ScriptedRequest(http.Request):
        def process(self):
            for i, op in enumerate(ops):
                try:
                    _call(self, op)
                except (ValueError, RuntimeError) as e:      # InvalidHeaderName, UnicodeEncodeError are ValueErrors
                    errs.append(f"{i}:{type(e).__name__}")

    ch = http.HTTPChannel()
    ch.requestFactory = ScriptedRequest
    t = StringTransport()
    ch.makeConnection(t)
    with warnings.catch_warnings():
        warnings.simplefilter("ignore")
        ch.dataReceived((b"HEAD" if c["head"] else b"GET") + b" / " + (b"HTTP/1.1" if c["v11"] else b"HTTP/1.0")
                        + b"\r\nHost: x\r\n" + (b"Connection: close\r\n" if c["close"] else b"") + b"\r\n")
    out = t.value()
    closed = bool(t.disconnecting)
    ch.setTimeout(None)
    return (f"errs={','.join(errs) or '-'} out={hx(out)} closed={int(closed)} "
            f"parse={_h11_parse(out, closed, bool(c['head']))}")


# ----------------------------------------------------------------------------------------------------
# the property, from the script alone

_TOKEN = re.compile(rb"\A[!#$%&'*+\-.^_`|~0-9A-Za-z]+\Z")
_BREAK = re.compile(rb"\r\n|\r|\n|\x00|\x0b|\x0c")
_DEC = re.compile(rb"\A[0-9]+\Z")


def _norm(b):
    return _BREAK.sub(b" ", b).strip(b" \t")


def _squash(b):
    """cookie-pair reading: SP/HTAB next to '=' / ';' and at the ends are not significant"""
    return re.sub(rb"[ \t]*([=;])[ \t]*", rb"\1", b.strip(b" \t"))


def _bytes_value(x):
    """what the application meant as bytes, or None if it cannot be sent (→ must be refused)"""
    if isinstance(x, bytes):
        return x
    try:
        return x.encode("utf-8")
    except UnicodeEncodeError:
        return None


def _name(x):
    if isinstance(x, str):
        try:
            x = x.encode("latin-1")
        except UnicodeEncodeError:
            return None
    return x.lower() if _TOKEN.match(x) else None


def expected(c):
    """→ dict(wf, status, reason, headers {lname: [values]}, cookies, body, refused {op index})"""
    code, reason = 200, b"OK"
    hdrs = {}
    if c["v11"] and c["close"]:
        hdrs[b"connection"] = [b"close"]
    cookies, body, refused = [], b"", set()
    started = finished = False
    snap = None
    for i, op in enumerate(c["ops"]):
        k = op[0]
        if k in ("w", "f"):
            if finished:
                continue
            if not started:
                started = True
                snap = {"status": code, "reason": reason, "headers": {n: list(v) for n, v in hdrs.items()},
                        "cookies": list(cookies), "head": bool(c["head"])}
            if k == "w":
                body += bytes.fromhex(op[1])
            else:
                finished = True
        elif k == "sc":
            code = op[1]
            reason = None if op[2] is None else bytes.fromhex(op[2])
        elif k in ("sh", "ah"):
            n, v = _name(unS(op[1])), _bytes_value(unS(op[2]))
            if n is None or v is None:
                refused.add(i)
            elif k == "sh":
                hdrs[n] = [v]
            else:
                hdrs.setdefault(n, []).append(v)
        elif k == "ck":
            comps = [_bytes_value(unS(x)) if x is not None else None for x in op[1:8]]
            if any(x is not None and comps[j] is None for j, x in enumerate(op[1:8])):
                refused.add(i)
                continue
            ss = unS(op[10])
            if ss:
                ssb = _bytes_value(ss)
                if ssb is None or ssb.lower() not in (b"lax", b"strict"):
                    refused.add(i)
                    continue
            else:
                ssb = None
            semi = lambda b: _BREAK.sub(b" ", b).replace(b";", b" ")
            ck = semi(comps[0]) + b"=" + semi(comps[1])
            for label, val in zip((b"Expires", b"Domain", b"Path", b"Max-Age", b"Comment"), comps[2:]):
                if val is not None:
                    ck += b"; " + label + b"=" + semi(val)
            if op[8]:
                ck += b"; Secure"
            if op[9]:
                ck += b"; HttpOnly"
            if ssb is not None:
                ck += b"; SameSite=" + ssb.lower()
            cookies.append(ck)
    if snap is None:
        return None
    nobody = snap["head"] or snap["status"] in (204, 304)
    h = snap["headers"]
    wf = 200 <= snap["status"] <= 999 and b"transfer-encoding" not in h and finished
    if b"content-length" in h:
        cl = h[b"content-length"]
        wf = wf and len(cl) == 1 and bool(_DEC.match(_norm(cl[0]))) and (nobody or int(_norm(cl[0])) == len(body))
    if snap["cookies"]:
        h[b"set-cookie"] = snap["cookies"]
    snap.update(wf=wf, body=b"" if nobody else body, refused=refused, nobody=nobody)
    return snap


def _fields(out):
    d = dict(f.split("=", 1) for f in out.split(" "))
    return d


def _unhx(s):
    return b"" if s in ("-", "") else bytes.fromhex(s)


def oracle(c, out):
    if c["op"] == "san":
        if out.startswith("!"):
            return {"key": "sanitize-raised", "detail": out}
        r = _unhx(out)
        x = bytes.fromhex(c["x"])
        bad = [b for b in (10, 13) if b in r]
        if bad:
            return {"key": "unsanitised-byte", "detail": f"_sanitizeLinearWhitespace({x!r}) = {r!r} still contains {bad}"}
        if _norm(r) != _norm(x):
            return {"key": "sanitize-changes-value", "detail": f"_sanitizeLinearWhitespace({x!r}) = {r!r}"}
        return None
    if c["op"] == "name":
        want = _name(unS(c["n"]))
        if want is None:
            return None if out.startswith("!raised") else {"key": "invalid-name-accepted", "detail": f"{c['n']} -> {out}"}
        if out.startswith("!") or _unhx(out).lower() != want:
            return {"key": "valid-name-changed", "detail": f"{c['n']} -> {out}"}
        return None
    if out.startswith("!raised"):
        return {"key": "script-raised", "detail": out}
    exp = expected(c)
    if exp is None:
        return None
    f = _fields(out)
    got_ref = set(int(e.split(":")[0]) for e in f["errs"].split(",")) if f["errs"] != "-" else set()
    got_ref = {i for i in got_ref if c["ops"][i][0] in ("sh", "ah", "ck")}    # write-after-finish is not this property
    if got_ref != exp["refused"]:
        return {"key": "refusal", "detail": f"operations refused {sorted(got_ref)}, expected {sorted(exp['refused'])}"}
    if not exp["wf"]:
        return None
    raw = _unhx(f["out"])
    hostile = _hostile_where(c)
    if f["parse"] == "reject":
        return {"key": "unparsable" + hostile, "detail": f"h11 refuses the emitted bytes {raw[:200]!r}"}
    st, rs, hs, body = f["parse"].split("/")
    if int(st) != exp["status"]:
        return {"key": "status" + hostile, "detail": f"status {st}, expected {exp['status']}; bytes {raw[:120]!r}"}
    got = {}
    for item in (hs.split(",") if hs else []):
        n, v = item.split(":")
        got.setdefault(_unhx(n), []).append(_unhx(v))
    want = {}
    for n, vs in exp["headers"].items():
        want[n] = [(_squash(_norm(v)) if n == b"set-cookie" else _norm(v)) for v in vs]
    if b"set-cookie" in got:
        got[b"set-cookie"] = [_squash(v) for v in got[b"set-cookie"]]
    te = got.get(b"transfer-encoding")
    chunked = False
    if te is not None:
        if te != [b"chunked"] or not c["v11"] or b"content-length" in got or exp["nobody"]:
            return {"key": "framing" + hostile, "detail": f"Transfer-Encoding {te} on {raw[:160]!r}"}
        del got[b"transfer-encoding"]
        chunked = True
    if got != want:
        extra = sorted(set(got) - set(want))
        key = "injected-header" if extra else "headers-differ"
        return {"key": key + hostile, "detail": f"client sees fields {got}, the application set {want}; bytes {raw[:200]!r}"}
    if rs is not None and exp["reason"] is not None and _unhx(rs).strip(b" \t") != _norm(exp["reason"]):
        return {"key": "reason" + hostile, "detail": f"reason {_unhx(rs)!r}, set {exp['reason']!r}"}
    if _unhx(body) != exp["body"]:
        return {"key": "body" + hostile, "detail": f"client reads body {_unhx(body)[:80]!r}, written {exp['body'][:80]!r}"}
    if c["v11"] and not chunked and not exp["nobody"] and b"content-length" not in got:
        return {"key": "framing" + hostile, "detail": "HTTP/1.1 response with a body that is neither chunked nor counted"}
    return None


def _hostile_where(c):
    """stable class of where line breaks / control bytes were passed"""
    where = set()
    for op in c["ops"]:
        if op[0] == "sc" and op[2] is not None and _BREAK.search(bytes.fromhex(op[2])):
            where.add("reason")
        elif op[0] in ("sh", "ah"):
            v = _bytes_value(unS(op[2]))
            if v is not None and _BREAK.search(v):
                where.add("value")
        elif op[0] == "ck":
            for x in op[1:8]:
                v = _bytes_value(unS(x)) if x is not None else None
                if v is not None and _BREAK.search(v):
                    where.add("cookie")
    return ("-ctl-in-" + "+".join(sorted(where))) if where else ""


def is_wf(c):
    if c["op"] != "run":
        return True
    e = expected(c)
    return bool(e and e["wf"])


def compare(c, io, mo):
    if io == mo:
        return True
    if c["op"] != "run" or io.startswith("!") or mo.startswith("!") or mo in ("bad-op", "bad-model"):
        return False
    a, b = _fields(io), _fields(mo)
    if (a["errs"], a["out"], a["closed"]) != (b["errs"], b["out"], b["closed"]):
        return False
    # outside the property's preconditions (false Content-Length, application-set Transfer-Encoding, interim or
    # non-3-digit status) h11 and the reference parser are not required to read the bytes alike
    return not is_wf(c)


# ----------------------------------------------------------------------------------------------------
# generation

HOSTILE = [b"\r", b"\n", b"\r\n", b"\x00", b"\x0b", b"\x0c", b"\t", b" ", b";", b":", b"=", b",", b"\x7f", b"\x80",
           b"\xff", b"\xc3\xa9", b"\x01", b"\x1f", b"\\", b'"']
PLAIN = [b"a", b"b", b"Z", b"0", b"9", b"x", b"-", b"_", b".", b"/", b"text", b"html", b"X-Injected: yes", b"HTTP/1.1 200 OK",
         b"Set-Cookie: s=1", b"0", b"Content-Length: 0"]
TCHARS = [" ", "\r", "\n", "\r\n", "\x00", "\x0b", "\x0c", "\x85", " ", " ", "\x1c", "é", "€", "\U0001F600", "a", "b",
          "1", ";", ":", "=", "\t", "\xff", "\udc80", "\ud800", "Ā"]
NAMES = [b"X-A", b"x-a", b"X-a", b"X-B", b"Content-Type", b"content-type", b"etag", b"ETag", b"TE", b"te", b"dnt", b"P3P",
         b"content-md5", b"www-authenticate", b"x-xss-protection", b"Server", b"Date", b"Location", b"a", b"A-", b"-", b"a--b",
         b"!#$%&'*+-.^_`|~", b"x1", b"Connection", b"Last-Modified", b"Vary"]
BAD_NAMES = [b"", b"a b", b"a:b", b"a\r\nb", b"a\nb: c", b"X-A\r\n", b" X", b"X ", b"a\x00", b"\xe9", b"a\x7f", b"a(b", b"a,b",
             b"a/b", b"a\tb", b"a\x0bb", b"[a]", b"a=b", b"a;b", b'"a"']
BAD_TNAMES = ["Ā", "a€", "a b", "", "é", "a\r\nb", "\udc80", "a\x85b", "x:y"]
SIZES = [0, 1, 1, 2, 3, 9, 10, 15, 16, 17, 31, 255, 256, 257, 300]


def _rbytes(rng, n=None, hostile=0.35):
    n = rng.choice([0, 1, 1, 2, 3, 4, 6]) if n is None else n
    return b"".join(rng.choice(HOSTILE) if rng.random() < hostile else rng.choice(PLAIN) for _ in range(n))


def _rtext(rng, n=None):
    n = rng.choice([0, 1, 1, 2, 3, 5]) if n is None else n
    return "".join(rng.choice(TCHARS) for _ in range(n))


def _rval(rng):
    r = rng.random()
    if r < 0.55:
        return S(_rbytes(rng))
    if r < 0.6:
        return S(bytes(rng.randrange(256) for _ in range(rng.randint(1, 6))))
    return S(_rtext(rng))


def _rname(rng):
    r = rng.random()
    if r < 0.7:
        n = rng.choice(NAMES)
        return S(n if rng.random() < 0.6 else n.decode("ascii"))
    if r < 0.8:
        n = bytes(rng.choice(b"abcXYZ019-!#~_.") for _ in range(rng.randint(1, 8)))
        return S(n if rng.random() < 0.5 else n.decode("ascii"))
    if r < 0.93:
        return S(rng.choice(BAD_NAMES))
    return S(rng.choice(BAD_TNAMES))


def _rbody(rng):
    n = rng.choice(SIZES)
    r = rng.random()
    if r < 0.15:
        return (b"0\r\n\r\n" * n)[:n]
    if r < 0.3:
        return (b"\r\n" * n)[:n]
    return bytes(rng.randrange(256) for _ in range(n))


CODES = [200, 200, 200, 201, 204, 304, 301, 404, 500, 205, 299, 999, 206, 418, 600]
ODD_CODES = [100, 101, 199, 99, 1000, 0, 1234, 7]


def _script(rng):
    v11 = int(rng.random() < 0.7)
    head = int(rng.random() < 0.2)
    close = int(rng.random() < 0.15)
    setup = []
    r = rng.random()
    if r < 0.75:
        code = rng.choice(CODES) if rng.random() < 0.93 else rng.choice(ODD_CODES)
        rr = rng.random()
        if rr < 0.4:
            msg = None
        elif rr < 0.5:
            msg = b""
        else:
            msg = _rbytes(rng, hostile=0.5)
        setup.append(["sc", code, None if msg is None else msg.hex()])
    for _ in range(rng.choice([0, 1, 1, 2, 3, 4])):
        setup.append([rng.choice(["sh", "sh", "sh", "ah"]), _rname(rng), _rval(rng)])
    for _ in range(rng.choice([0, 0, 0, 1, 1, 2])):
        attrs = [(_rval(rng) if rng.random() < 0.25 else None) for _ in range(5)]
        rs = rng.random()
        ss = None if rs < 0.6 else S(rng.choice([b"lax", b"Strict", "LAX", "strict", b"", "", b"none", "laX\n", "\udc80", b"\xff"]))
        setup.append(["ck", _rval(rng), _rval(rng)] + attrs + [int(rng.random() < 0.3), int(rng.random() < 0.3), ss])
    if rng.random() < 0.03:
        setup.append(["sh", S(b"Transfer-Encoding"), S(rng.choice([b"chunked", b"gzip", b"identity"]))])
    if rng.random() < 0.05:
        setup.append(["sh", S(b"Set-Cookie"), _rval(rng)])
    rng.shuffle(setup)
    writes = [["w", _rbody(rng).hex()] for _ in range(rng.choice([0, 1, 1, 2, 2, 3, 4]))]
    total = sum(len(w[1]) // 2 for w in writes)
    r = rng.random()
    if r < 0.4:
        cl = str(total).encode()
        if rng.random() < 0.1:
            cl = b" " + cl + b"\r\n"
        setup.insert(rng.randint(0, len(setup)), ["sh", S(rng.choice([b"Content-Length", b"content-length", "Content-Length"])),
                                                  S(cl if rng.random() < 0.7 else cl.decode())])
    elif r < 0.45:
        setup.append(["sh", S(b"Content-Length"), S(rng.choice([str(total + 1).encode(), b"abc", b"", b"-1", b"1\r\n2"]))])
    ops = setup + writes + [["f"]]
    r = rng.random()
    if r < 0.08 and len(ops) > 2:
        # a set-up call after the headers have gone out
        i = rng.randrange(len(setup)) if setup else 0
        if setup:
            ops.append(ops.pop(i)) if rng.random() < 0.5 else ops.insert(len(ops) - 1, ops.pop(i))
    elif r < 0.14:
        ops.append(rng.choice([["w", "6162"], ["f"], ["w", ""], ["sh", S(b"X-Late"), S(b"1")]]))
    return {"op": "run", "v11": v11, "head": head, "close": close, "ops": ops}


def corpus():
    inj = (b"OK\r\nX-Injected: yes").hex()
    return [
        {"op": "run", "v11": 0, "head": 0, "close": 0, "ops": [["sc", 200, "0a653a"], ["f"]]},   # minimised witness: field 'e' injected
        {"op": "run", "v11": 1, "head": 0, "close": 0, "ops": [["ah", S("a--b"), S("\ud800")], ["sh", S(b"X-B"), S(b"1")], ["sh", S("a--b"), S(b"\xfe")], ["f"]]},
        {"op": "run", "v11": 1, "head": 0, "close": 0, "ops": [["sc", 200, inj], ["w", "616263"], ["f"]]},
        {"op": "run", "v11": 0, "head": 0, "close": 0, "ops": [["sc", 200, (b"OK\nSet-Cookie: s=1").hex()], ["f"]]},
        {"op": "run", "v11": 1, "head": 0, "close": 0, "ops": [["sc", 200, (b"OK\r\n\r\nbody").hex()], ["f"]]},
        {"op": "run", "v11": 1, "head": 0, "close": 0, "ops": [["sh", S(b"X-A"), S(b"a\x00b")], ["f"]]},
        {"op": "run", "v11": 1, "head": 0, "close": 0, "ops": [["sh", S(b"X-A"), S(b"a\x0bb")], ["f"]]},
        {"op": "run", "v11": 1, "head": 0, "close": 0, "ops": [["sh", S("X-A"), S("a\x0cb")], ["f"]]},
        {"op": "run", "v11": 1, "head": 0, "close": 0, "ops": [["sc", 200, (b"O\x00K").hex()], ["f"]]},
        {"op": "run", "v11": 1, "head": 0, "close": 0,
         "ops": [["ck", S("k\x00"), S(b"v;\r\nSet-Cookie: x=y"), S(b"e\n"), None, None, None, None, 1, 1, S("LAX")], ["w", "61"], ["f"]]},
        {"op": "run", "v11": 1, "head": 0, "close": 0,
         "ops": [["sh", S(b"x-a"), S(b"1\r\nX-Injected: yes")], ["sh", S("X-A"), S("2\r\n\r\n<html>")], ["ah", S(b"X-a"), S(b"3\r")],
                 ["w", "616263"], ["w", ""], ["w", "6465"], ["f"]]},
        {"op": "run", "v11": 1, "head": 1, "close": 0, "ops": [["sh", S(b"Content-Length"), S(b"10")], ["w", "616263"], ["f"]]},
        {"op": "run", "v11": 1, "head": 0, "close": 1, "ops": [["sc", 204, None], ["w", "616263"], ["f"], ["w", "61"]]},
        {"op": "run", "v11": 0, "head": 0, "close": 0, "ops": [["sc", 304, None], ["w", "616263"], ["f"]]},
        {"op": "run", "v11": 1, "head": 0, "close": 0, "ops": [["sh", S(b"content-length"), S("3")], ["w", "61"], ["w", "6263"], ["f"]]},
        {"op": "run", "v11": 1, "head": 0, "close": 0, "ops": [["w", (b"0\r\n\r\n").hex()], ["f"], ["w", "61"], ["f"]]},
        {"op": "run", "v11": 1, "head": 0, "close": 0, "ops": [["sh", S(b"a b"), S(b"x")], ["sh", S("Ā"), S(b"x")], ["sh", S(b"X"), S("\udc80")], ["f"]]},
        {"op": "run", "v11": 1, "head": 0, "close": 0, "ops": [["sc", 999, ""], ["w", "00" * 256], ["f"]]},
        {"op": "run", "v11": 1, "head": 0, "close": 0, "ops": []},
        {"op": "san", "x": (b"a\r\nb\rc\nd\n").hex()}, {"op": "san", "x": (b"\r\r\n\n").hex()}, {"op": "san", "x": (b"a\x00b\x0bc\x0c").hex()},
        {"op": "name", "n": S(b"content-md5")}, {"op": "name", "n": S("x-xss-protection")}, {"op": "name", "n": S(b"a b")},
    ]


def generate(rng, tier):
    n = 10000 if tier == "quick" else 150000
    for i in range(n):
        r = rng.random()
        if r < 0.86:
            yield _script(rng)
        elif r < 0.94:
            yield {"op": "san", "x": _rbytes(rng, rng.randint(0, 9), hostile=0.7).hex()}
        else:
            yield {"op": "name", "n": _rname(rng)}


def shrink(c):
    if c["op"] != "run":
        if c["op"] == "san":
            x = bytes.fromhex(c["x"])
            for i in range(len(x)):
                yield {"op": "san", "x": (x[:i] + x[i + 1:]).hex()}
        return
    ops = c["ops"]
    for i in range(len(ops)):
        if ops[i][0] != "f" or sum(1 for o in ops if o[0] == "f") > 1:
            yield dict(c, ops=ops[:i] + ops[i + 1:])
    for flag in ("close", "head"):
        if c[flag]:
            yield dict(c, **{flag: 0})
    for i, op in enumerate(ops):
        if op[0] == "w" and len(op[1]) > 2:
            yield dict(c, ops=ops[:i] + [["w", op[1][:len(op[1]) // 4 * 2]]] + ops[i + 1:])
        if op[0] == "sc" and op[2]:
            b = bytes.fromhex(op[2])
            for j in range(len(b)):
                yield dict(c, ops=ops[:i] + [["sc", op[1], (b[:j] + b[j + 1:]).hex()]] + ops[i + 1:])
        if op[0] in ("sh", "ah", "ck"):
            for pos in range(1, len(op)):
                s = op[pos]
                if isinstance(s, list) and len(s) == 2 and s[0] in ("b", "t"):
                    if s[0] == "b":
                        b = bytes.fromhex(s[1])
                        cands = [["b", (b[:j] + b[j + 1:]).hex()] for j in range(len(b))]
                    else:
                        cands = [["t", s[1][:j] + s[1][j + 1:]] for j in range(len(s[1]))]
                    for cand in cands:
                        yield dict(c, ops=ops[:i] + [op[:pos] + [cand] + op[pos + 1:]] + ops[i + 1:])
                    if op[0] == "ck" and pos >= 3:
                        yield dict(c, ops=ops[:i] + [op[:pos] + [None] + op[pos + 1:]] + ops[i + 1:])


def tag(c, out):
    if c["op"] == "san":
        x = bytes.fromhex(c["x"])
        return "san:" + "".join(ch for ch, b in (("r", 13), ("n", 10), ("0", 0), ("v", 11), ("f", 12)) if b in x) + \
            (":end" if x[-1:] in (b"\r", b"\n") else "")
    if c["op"] == "name":
        return "name:" + c["n"][0] + (":refused" if out.startswith("!") else ":ok")
    if out.startswith("!"):
        return "run:" + out
    e = expected(c)
    f = _fields(out)
    if e is None:
        return "run:nothing-written"
    raw = _unhx(f["out"])
    framing = "chunked" if b"Transfer-Encoding: chunked\r\n" in raw else ("counted" if b"content-length" in e["headers"] else
                                                                          ("none" if e["nobody"] else "close"))
    kinds = ",".join(sorted(set(o[0] + ("!" if i in e["refused"] else "") for i, o in enumerate(c["ops"]))))
    return (f"run:{'1.1' if c['v11'] else '1.0'}:{'HEAD' if c['head'] else 'GET'}:{e['status'] // 100}xx:{framing}:"
            f"{'wf' if e['wf'] else 'illformed'}{_hostile_where(c)}:{kinds}:w{min(3, sum(1 for o in c['ops'] if o[0] == 'w'))}"
            f":closed{f['closed']}")


def search(rng, tier, disagreeing):
    """property-directed: every hostile byte in every position class (reason, value, cookie part, name)"""
    for v11 in (1, 0):
        for h in HOSTILE[:6] + [b"\r\n\r\n"]:
            pay = b"a" + h + b"X-Injected: yes"
            yield {"op": "run", "v11": v11, "head": 0, "close": 0, "ops": [["sc", 200, pay.hex()], ["w", "61"], ["f"]]}
            yield {"op": "run", "v11": v11, "head": 0, "close": 0, "ops": [["sh", S(b"X-A"), S(pay)], ["w", "61"], ["f"]]}
            yield {"op": "run", "v11": v11, "head": 0, "close": 0, "ops": [["ah", S(b"X-A"), S(pay.decode("latin-1"))], ["w", "61"], ["f"]]}
            yield {"op": "run", "v11": v11, "head": 0, "close": 0, "ops": [["sh", S(pay), S(b"v")], ["w", "61"], ["f"]]}
            for pos in range(1, 8):
                op = ["ck", S(b"k"), S(b"v"), None, None, None, None, None, 0, 0, None]
                op[pos] = S(pay)
                yield {"op": "run", "v11": v11, "head": 0, "close": 0, "ops": [op, ["w", "61"], ["f"]]}
    for c in disagreeing[:20]:
        yield from shrink(c)
