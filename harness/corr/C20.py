"""C20 — HTTP server responses are framed exactly and headers cannot be injected.

Tie: a real `http.Request` driven through a real `HTTPChannel` on a `StringTransport` (request line +
headers are delivered as bytes, the script runs inside `process()`), against the Lean model
`TwistedModel/Http/Response.lean`; the bytes written, the exceptions raised per operation and whether the
connection was closed must be identical.  The emitted bytes are parsed by `h11` (real code side) and by
the Lean reference parser `TwistedModel/Http/Rfc9112.lean` (model side): the two parses must be identical
as well.

Oracle (independent of the model): from the script alone compute what a client must see — status,
field list (line breaks / NUL / VT / FF in values read as a space, names case-insensitive, invalid names
refused when set), body = concatenation of the writes (none for HEAD / 204 / 304) — and compare with
what h11 read from the bytes the real server wrote.  "Invalid name" is evaluated byte by byte (every byte a
tchar, at least one byte) — no regular expression, so the oracle shares no `$` / `.` / re.match reading with
any implementation of `_istoken`.

Header names are generated as: valid (several spellings), "almost tokens" (a valid token with ONE foreign
piece — LF, CR, CRLF, LF LF, SP, HTAB, ':', NUL, VT, FF, FS..US, NEL, NBSP, DEL, 8-bit, delimiters, any other
non-tchar byte; for text also non-Latin-1 code points — at its END, at its start or inside), and plainly bad
ones; through setHeader, addRawHeader, setRawHeaders (0..3 values) and removeHeader, as bytes and as text.
Every non-tchar byte is swept through the three positions deterministically on every run.

After the white-box mutation audit (harness/mutants/C20) the case language also has:
* `names`: several names through `_nameEncoder.encode` IN ONE CASE — a valid name in two spellings, then a name that a
  normalisation (lower / upper / casefold / strip / NFKC / dropping ignorables) maps onto it: the encoder's cache is global
  state and must stay transparent (same pairs inside whole responses);
* `sr` with a share key: the application hands ONE list object to several setRawHeaders calls and changes it afterwards;
* argument kinds `ts` / `bs`: instances of a str / bytes SUBCLASS as names, values and cookie parts;
* `conn`: the request's own Connection header (keep-alive, Close, "keep-alive, close", "keep-alive,close", …; HTTP/1.0 half
  of the time) — the model computes persistence from it (`connClose`, `initConn`);
* `prev` / `pipe`: earlier requests answered on the SAME connection (pipelined in one segment or not), among them twins of
  the observed exchange differing in one respect; every response of the connection is cut out, parsed by h11, judged by
  the oracle and compared with a fresh run of the model (driver `seq`).
"""
import re
import warnings

import h11
from twisted.internet.testing import StringTransport
from twisted.web import http
from twisted.web.http_headers import _nameEncoder, _sanitizeLinearWhitespace

HEADLINE = "TwistedProps.C20.emits_one_wellformed_response_any_history"
RULE = ("scripts = request context (HTTP/1.0|1.1, GET|HEAD, Connection: close or not) + setResponseCode (table "
        "reason or hostile reason bytes) + 0..4 setHeader/addRawHeader/setRawHeaders(0..3 values) + removeHeader (names as "
        "bytes or text: valid, case-variant, special-cased; ALMOST-TOKENS = a valid token with one foreign piece (LF 30 %, "
        "CR, CRLF, LF LF, SP, HTAB, ':', NUL, VT, FF, FS..US, NEL, NBSP, DEL, 8-bit, delimiters, any non-tchar byte, "
        "non-Latin-1 code points) at its end (55 %), start or inside, ~20 % of all names; plainly invalid names; the same "
        "name again in another spelling / with a foreign piece; values over an alphabet rich in CR, LF, NUL, VT, FF, "
        "HTAB, ';', ':', 0x7f-0xff, non-ASCII and astral code points, lone surrogates, and plain values with exactly one "
        "hostile piece at their end/start) + 0..2 addCookie with random attributes + 0..4 writes (sizes around "
        "0/1/15/16/17/255/256, bytes 0..255, chunk-framing look-alikes) + finish; truthful (with line breaks / blanks "
        "around the digits), false or absent Content-Length; 12 % of scripts move set-up calls between the writes / after "
        "finish; every run starts with a deterministic sweep: each of the 179 non-tchar bytes at the end, start and inside "
        "of a valid name (bytes and text) through _nameEncoder.encode, and 270 whole responses with LF/CR/CRLF/… in those "
        "places through setHeader/addRawHeader/setRawHeaders/removeHeader; plus direct _sanitizeLinearWhitespace cases; "
        "distinct = (version, method, status class, framing, which hostile bytes occurred where, which operations were "
        "refused, class of each non-token name (where the foreign piece sits, what it is), #writes); "
        "AUDIT CLASSES: 5 % of scripts set a valid name (1-2 spellings) and then a name that lower/upper/casefold/strip/NFKC/"
        "ignorable-dropping maps onto it (KELVIN SIGN, LONG S, ß, dotless i, ligatures, ², ª, fullwidth, soft hyphen, 19 kinds "
        "of surrounding whitespace), and every such pair of 18 base names is swept as a `names` case on every run; 5 % hand one "
        "shared list object to 2-3 setRawHeaders calls (the application clears / extends it afterwards in 55 %); 5 % of values "
        "and 4 % of names are instances of str / bytes subclasses; 12 % of scripts carry another Connection request header (31 "
        "values: keep-alive, case variants, comma / space separated lists, blanks; HTTP/1.0 half of the time) and all 31 x "
        "{1.0, 1.1} x {counted, uncounted} are swept; 14 % of scripts are preceded by 1-3 other requests on the same connection "
        "(random scripts or twins of the observed one with another reason / field / method / body; pipelined 50 %); "
        "distinct additionally = Connection class, #earlier requests + pipelined + HEAD among them, kinds of argument objects")
ASSUMES = [
    "the status code in force at the first write is a final status code 200..999 (three digits; 1xx are interim responses)",
    "the application does not set Transfer-Encoding itself; a Content-Length it sets is a single decimal value equal to "
    "the number of body bytes it writes (any decimal value for HEAD / 204 / 304)",
    "Request.setETag / setLastModified are not used (etag and lastModified stay None); no producer is registered",
    "headers are set through Request.setHeader and responseHeaders.addRawHeader / setRawHeaders / removeHeader with str or "
    "bytes arguments, instances of their subclasses included (not by writing into Headers._rawHeaders, not with other "
    "argument types); the values of setRawHeaders come in a list, which stays the application's own object",
    "earlier requests on the same connection are HTTP/1.1 without a Connection header and finish their response; requests "
    "carry no body and no Expect header; a request's Connection header is printable ASCII / HTAB on one line",
    "whether the server itself announces `Connection: close` for a Connection request header other than exactly `close` is "
    "not judged (if it does, the connection has to be closed)",
    "cookies added with addCookie replace a Set-Cookie header set directly (documented behaviour of Request.write)",
    "cookie values are compared as cookie-pairs: SP/HTAB next to '=' and ';' and at the ends are not significant",
    "field values are compared without leading/trailing SP/HTAB (RFC 9110 §5.5: not part of the value)",
]
TRUSTED = ["h11 0.16 as the independent HTTP/1.1 parser", "twisted.internet.testing.StringTransport",
           "hand-written Lean model of Request/Headers/HTTPChannel.writeHeaders (differentially tied)",
           "hand-written Lean reference parser Rfc9112.parseResponse (tied to h11 on every emitted response)"]
MANIFEST = {
    "text": "Lean theorems (TwistedProps/C20.lean): for every request context, every history of setResponseCode/"
            "setHeader/addRawHeader/setRawHeaders/removeHeader/addCookie calls with arbitrary bytes/text arguments, every list of writes and finish, "
            "the emitted bytes are read by the reference RFC 9112 response parser as exactly one response with that "
            "status, exactly the stored fields and the concatenated body (none for HEAD/204/304), with nothing left over; "
            "sanitised values and reason never contain CR/LF/NUL/VT/FF. Names: a name is accepted iff it is a token (bytes, or "
            "Latin-1 text reading as one); a token with one foreign byte/code point at its end (b'Name\\n'), start or inside "
            "is refused by setHeader, addRawHeader, setRawHeaders and removeHeader alike, bytes or text; refused calls are "
            "reported and leave no trace in ANY history (run = run with them deleted); every field name on the wire is a "
            "token and no line of the head contains a CR or LF of its own. Set-up calls made between the writes (after the "
            "head has gone out) change nothing on the wire, nor does anything called after finish: the headline "
            "(emits_one_wellformed_response_any_history) quantifies over EVERY history pre ++ [finish] ++ tail with no finish "
            "in pre — set-up calls and writes in any order — and reads status/reason/fields off the request as it stood at "
            "the first write and the body off all writes. The request's own Connection header: connClose mirrors "
            "checkPersistence's token test; emits_one_wellformed_response_any_connection_header is the headline for every such "
            "header; closed_iff_not_persistent and http10_response_closes_connection: after every finishing history the "
            "connection is closed iff the channel is not persistent, and an HTTP/1.0 response is ALWAYS followed by the close "
            "(keep-alive or not) — the only thing that ends an uncounted 1.0 body. Several requests on one connection are each "
            "a fresh run of the model (new Request per request); the name cache is transparent (encodeName is a function). "
            "Model tied to http.py/http_headers.py by differential runs of whole scripts through a real HTTPChannel; "
            "reference parser tied to h11 on every emitted response.",
    "note": "trusts Lean kernel, the hand-written model and reference parser (both differentially tied on every run), h11",
    "technique": "Lean 4 proof (parser/emitter inversion by induction over field lines and chunks) + differential tie + h11 oracle"
                 " + white-box mutation audit (harness/mutants/C20: 14 mutants)",
    "design_ref": "DESIGN.md §7 C20",
}

# ----------------------------------------------------------------------------------------------------
# encoding of cases


def hx(b):
    return b.hex() if b else "-"


class StrSub(str):
    """a `str` subclass instance (what `class Color(str, Enum)`, markupsafe.Markup, … hand to setHeader): it IS a str"""


class BytesSub(bytes):
    """a `bytes` subclass instance"""


KINDS = ("b", "t", "bs", "ts")      # bytes, str, instance of a bytes subclass, instance of a str subclass


def S(x):
    """python value -> JSON Str"""
    if isinstance(x, bytes):
        return ["bs" if type(x) is BytesSub else "b", x.hex()]
    return ["ts" if type(x) is StrSub else "t", [ord(c) for c in x]]


def unS(s):
    if s is None:
        return None
    if s[0][0] == "b":
        v = bytes.fromhex(s[1])
        return BytesSub(v) if s[0] == "bs" else v
    v = "".join(chr(c) for c in s[1])
    return StrSub(v) if s[0] == "ts" else v


def encS(s):
    """for the model a subclass instance is its base type (isinstance is what the code asks)"""
    if s is None:
        return "N"
    if s[0][0] == "b":
        return "b" + (s[1] or "-")
    return "t" + (".".join(str(c) for c in s[1]) or "-")


def enc_op(op):
    k = op[0]
    if k == "sc":
        return f"sc:{op[1]}:{'N' if op[2] is None else (op[2] or '-')}"
    if k in ("sh", "ah"):
        return f"{k}:{encS(op[1])}:{encS(op[2])}"
    if k == "sr":
        return f"sr:{encS(op[1])}:{','.join(encS(v) for v in op[2]) or '-'}"
    if k == "rm":
        return f"rm:{encS(op[1])}"
    if k == "w":
        return "w:" + (op[1] or "-")
    if k == "f":
        return "f"
    if k == "ck":
        return "ck:" + ":".join([encS(op[1]), encS(op[2])] + [encS(x) for x in op[3:8]]
                                + [str(int(op[8])), str(int(op[9])), encS(op[10])])
    raise ValueError(k)


def _enc_ctx(r):
    """request context: HTTP/1.1?, HEAD?, and the request's Connection header: `0` = none, `1` = `close`, `c<hex>` = that value"""
    conn = r.get("conn")
    return [str(r["v11"]), str(r["head"]), str(r.get("close", 0)) if conn is None else "c" + (conn or "-")]


def _requests(c):
    """the requests served on the ONE connection of a run case, in order: the earlier ones (`prev`: HTTP/1.1 without a
    Connection header, so the connection persists), then the observed one"""
    return [dict(v11=1, head=p["head"], close=0, ops=p["ops"], op="run") for p in c.get("prev", [])] + \
        [dict(v11=c["v11"], head=c["head"], close=c.get("close", 0), conn=c.get("conn"), ops=c["ops"], op="run")]


def model_line(c):
    if c["op"] == "san":
        return "san " + (c["x"] or "-")
    if c["op"] == "name":
        return "name " + encS(c["n"])
    if c["op"] == "names":
        return "names " + " ".join(encS(n) for n in c["ns"])
    if c.get("prev"):
        return "seq " + " | ".join(" ".join(_enc_ctx(r) + [enc_op(o) for o in r["ops"]]) for r in _requests(c))
    return " ".join(["run"] + _enc_ctx(c) + [enc_op(o) for o in c["ops"]])


# ----------------------------------------------------------------------------------------------------
# the real code

def _h11_parse(data, closed, head):
    conn = h11.Connection(h11.CLIENT, max_incomplete_event_size=1 << 22)
    conn.send(h11.Request(method="HEAD" if head else "GET", target="/", headers=[("Host", "x")]))
    conn.send(h11.EndOfMessage())
    try:
        conn.receive_data(data)
        if closed:
            conn.receive_data(b"")
        resp, body, done = None, b"", False
        while True:
            e = conn.next_event()
            if e is h11.NEED_DATA or e is h11.PAUSED or isinstance(e, h11.ConnectionClosed):
                break
            if isinstance(e, h11.Response):
                if resp is not None:
                    return "reject"
                resp = e
            elif isinstance(e, h11.InformationalResponse):
                return "reject"
            elif isinstance(e, h11.Data):
                body += bytes(e.data)
            elif isinstance(e, h11.EndOfMessage):
                if e.headers:
                    return "reject"
                done = True
        if resp is None or not done or conn.trailing_data[0]:
            return "reject"
    except h11.RemoteProtocolError:
        return "reject"
    hs = ",".join(hx(bytes(n).lower()) + ":" + hx(bytes(v)) for n, v in resp.headers)
    return f"{resp.status_code}/{hx(bytes(resp.reason))}/{hs}/{hx(body)}"


def _call(req, op, env):
    k = op[0]
    if k == "sc":
        req.setResponseCode(op[1], None if op[2] is None else bytes.fromhex(op[2]))
    elif k == "sh":
        req.setHeader(unS(op[1]), unS(op[2]))
    elif k == "ah":
        req.responseHeaders.addRawHeader(unS(op[1]), unS(op[2]))
    elif k == "sr":
        vals = [unS(v) for v in op[2]]
        share = op[3] if len(op) > 3 else None
        if share is not None:
            # the application keeps ONE list object per `share` key, fills it with the values of this call and hands
            # THAT object to setRawHeaders (a reused buffer); what it does to its own list afterwards is its own business
            lst = env.setdefault(("list", share), [])
            lst[:] = vals
            vals = lst
        req.responseHeaders.setRawHeaders(unS(op[1]), vals)
        if share is not None and len(op) > 4 and op[4] is not None:
            if op[4] == "clear":
                vals.clear()
            else:
                vals.extend(unS(v) for v in op[4])
    elif k == "rm":
        req.responseHeaders.removeHeader(unS(op[1]))
    elif k == "ck":
        req.addCookie(unS(op[1]), unS(op[2]), expires=unS(op[3]), domain=unS(op[4]), path=unS(op[5]),
                      max_age=unS(op[6]), comment=unS(op[7]), secure=bool(op[8]), httpOnly=bool(op[9]),
                      sameSite=unS(op[10]))
    elif k == "w":
        req.write(bytes.fromhex(op[1]))
    elif k == "f":
        req.finish()
    else:
        raise AssertionError(k)


def _encode_name(n):
    try:
        return hx(_nameEncoder.encode(unS(n)))
    except UnicodeEncodeError:
        return "!raised UnicodeEncodeError"
    except ValueError as e:
        return "!raised " + type(e).__name__


def _request_bytes(r):
    conn = r.get("conn")
    if conn is not None:
        line = b"Connection: " + bytes.fromhex(conn) + b"\r\n"
    else:
        line = b"Connection: close\r\n" if r.get("close") else b""
    return ((b"HEAD" if r["head"] else b"GET") + b" / " + (b"HTTP/1.1" if r["v11"] else b"HTTP/1.0")
            + b"\r\nHost: x\r\n" + line + b"\r\n")


SEP = " | "


def run_impl(c):
    if c["op"] == "san":
        return hx(_sanitizeLinearWhitespace(bytes.fromhex(c["x"])))
    if c["op"] == "name":
        return _encode_name(c["n"])
    if c["op"] == "names":
        return ",".join(_encode_name(n) for n in c["ns"])
    reqs = _requests(c)
    marks, errs_all = [], []
    t = StringTransport()

    class ScriptedRequest(http.Request):
        def process(self):
            j = len(marks)
            marks.append((len(t.value()) if marks else 0, bool(t.disconnecting)))      # where this request's response starts
            errs = []
            errs_all.append(errs)
            env = {}
            for i, op in enumerate(reqs[j]["ops"] if j < len(reqs) else []):
                try:
                    _call(self, op, env)
                except (ValueError, RuntimeError) as e:      # InvalidHeaderName, UnicodeEncodeError are ValueErrors
                    errs.append(f"{i}:{type(e).__name__}")

    ch = http.HTTPChannel()
    ch.requestFactory = ScriptedRequest
    ch.makeConnection(t)
    with warnings.catch_warnings():
        warnings.simplefilter("ignore")
        if c.get("pipe"):
            ch.dataReceived(b"".join(_request_bytes(r) for r in reqs))      # pipelined: one segment
        else:
            for r in reqs:
                ch.dataReceived(_request_bytes(r))
    out = t.value()
    ch.setTimeout(None)
    if not marks:
        marks.append((0, False))
        errs_all.append([])
    marks.append((len(out), bool(t.disconnecting)))
    res = []
    for j in range(len(marks) - 1):
        seg, closed = out[marks[j][0]:marks[j + 1][0]], marks[j + 1][1]
        res.append(f"errs={','.join(errs_all[j]) or '-'} out={hx(seg)} closed={int(closed)} "
                   f"parse={_h11_parse(seg, closed, bool(reqs[j]['head']))}")
    return SEP.join(res)


# ----------------------------------------------------------------------------------------------------
# the property, from the script alone

# RFC 9110 §5.6.2: token = 1*tchar.  Evaluated byte by byte (no regular expression: `$`, `\Z`, re.match
# vs. re.fullmatch and "." each have their own reading of a trailing line feed).
_TCHAR = frozenset(b"!#$%&'*+-.^_`|~0123456789ABCDEFGHIJKLMNOPQRSTUVWXYZabcdefghijklmnopqrstuvwxyz")


def _is_token(x):
    return len(x) > 0 and all(ch in _TCHAR for ch in x)


_BREAK = re.compile(rb"\r\n|\r|\n|\x00|\x0b|\x0c")
_DEC = re.compile(rb"\A[0-9]+\Z")


def _norm(b):
    return _BREAK.sub(b" ", b).strip(b" \t")


def _squash(b):
    """cookie-pair reading: SP/HTAB next to '=' / ';' and at the ends are not significant"""
    return re.sub(rb"[ \t]*([=;])[ \t]*", rb"\1", b.strip(b" \t"))


def _bytes_value(x):
    """what the application meant as bytes, or None if it cannot be sent (→ must be refused)"""
    if isinstance(x, bytes):
        return x
    try:
        return x.encode("utf-8")
    except UnicodeEncodeError:
        return None


def _name(x):
    if isinstance(x, str):
        try:
            x = x.encode("latin-1")
        except UnicodeEncodeError:
            return None
    return x.lower() if _is_token(x) else None


def expected(c, announce_close=None):
    """→ dict(wf, status, reason, headers {lname: [values]}, cookies, body, refused {op index})
    `announce_close`: the server has put `Connection: close` into the response headers before the application runs
    (default: iff the request is HTTP/1.1 with `Connection: close`)"""
    code, reason = 200, b"OK"
    hdrs = {}
    if announce_close is None:
        announce_close = bool(c.get("conn") is None and c["v11"] and c.get("close"))
    if announce_close:
        hdrs[b"connection"] = [b"close"]
    cookies, body, refused = [], b"", set()
    started = finished = False
    snap = None
    for i, op in enumerate(c["ops"]):
        k = op[0]
        if k in ("w", "f"):
            if finished:
                continue
            if not started:
                started = True
                snap = {"status": code, "reason": reason, "headers": {n: list(v) for n, v in hdrs.items()},
                        "cookies": list(cookies), "head": bool(c["head"])}
            if k == "w":
                body += bytes.fromhex(op[1])
            else:
                finished = True
        elif k == "sc":
            code = op[1]
            reason = None if op[2] is None else bytes.fromhex(op[2])
        elif k in ("sh", "ah"):
            n, v = _name(unS(op[1])), _bytes_value(unS(op[2]))
            if n is None or v is None:
                refused.add(i)
            elif k == "sh":
                hdrs[n] = [v]
            else:
                hdrs.setdefault(n, []).append(v)
        elif k == "sr":
            n, vs = _name(unS(op[1])), [_bytes_value(unS(v)) for v in op[2]]
            if n is None or any(v is None for v in vs):
                refused.add(i)
            elif vs:
                hdrs[n] = vs
            else:
                hdrs.pop(n, None)           # a name with no values is a name that is not sent
        elif k == "rm":
            n = _name(unS(op[1]))
            if n is not None:               # (an invalid name was never set: nothing to remove, raising is allowed)
                hdrs.pop(n, None)
        elif k == "ck":
            comps = [_bytes_value(unS(x)) if x is not None else None for x in op[1:8]]
            if any(x is not None and comps[j] is None for j, x in enumerate(op[1:8])):
                refused.add(i)
                continue
            ss = unS(op[10])
            if ss:
                ssb = _bytes_value(ss)
                if ssb is None or ssb.lower() not in (b"lax", b"strict"):
                    refused.add(i)
                    continue
            else:
                ssb = None
            semi = lambda b: _BREAK.sub(b" ", b).replace(b";", b" ")
            ck = semi(comps[0]) + b"=" + semi(comps[1])
            for label, val in zip((b"Expires", b"Domain", b"Path", b"Max-Age", b"Comment"), comps[2:]):
                if val is not None:
                    ck += b"; " + label + b"=" + semi(val)
            if op[8]:
                ck += b"; Secure"
            if op[9]:
                ck += b"; HttpOnly"
            if ssb is not None:
                ck += b"; SameSite=" + ssb.lower()
            cookies.append(ck)
    if snap is None:
        return None
    nobody = snap["head"] or snap["status"] in (204, 304)
    h = snap["headers"]
    wf = 200 <= snap["status"] <= 999 and b"transfer-encoding" not in h and finished
    if b"content-length" in h:
        cl = h[b"content-length"]
        wf = wf and len(cl) == 1 and bool(_DEC.match(_norm(cl[0]))) and (nobody or int(_norm(cl[0])) == len(body))
    if snap["cookies"]:
        h[b"set-cookie"] = snap["cookies"]
    snap.update(wf=wf, body=b"" if nobody else body, refused=refused, nobody=nobody)
    return snap


def _fields(out):
    d = dict(f.split("=", 1) for f in out.split(" "))
    return d


def _unhx(s):
    return b"" if s in ("-", "") else bytes.fromhex(s)


def oracle(c, out):
    if c["op"] == "san":
        if out.startswith("!"):
            return {"key": "sanitize-raised", "detail": out}
        r = _unhx(out)
        x = bytes.fromhex(c["x"])
        bad = [b for b in (10, 13) if b in r]
        if bad:
            return {"key": "unsanitised-byte", "detail": f"_sanitizeLinearWhitespace({x!r}) = {r!r} still contains {bad}"}
        if _norm(r) != _norm(x):
            return {"key": "sanitize-changes-value", "detail": f"_sanitizeLinearWhitespace({x!r}) = {r!r}"}
        return None
    if c["op"] == "name":
        return _oracle_name(c["n"], out, "")
    if c["op"] == "names":
        if out.startswith("!raised "):
            return {"key": "script-raised", "detail": out}
        outs = out.split(",")
        if len(outs) != len(c["ns"]):
            return {"key": "names-output", "detail": out}
        for j, (n, o) in enumerate(zip(c["ns"], outs)):
            r = _oracle_name(n, o, "-after-other-names" if j else "")
            if r:
                return r
        return None
    if out.startswith("!raised"):
        return {"key": "script-raised", "detail": out}
    reqs = _requests(c)
    parts = out.split(SEP)
    if len(parts) != len(reqs):
        return {"key": "responses-on-connection", "detail": f"{len(reqs)} requests on the connection, {len(parts)} answered"}
    for j, (r, part) in enumerate(zip(reqs, parts)):
        res = _oracle_run(r, part)
        if res:
            if j:
                res = {"key": res["key"] + "-on-reused-connection", "detail": f"request #{j + 1} on the connection: " + res["detail"]}
            return res
    return None


def _oracle_name(n, out, suffix):
    want = _name(unS(n))
    if want is None:
        return None if out.startswith("!raised") else {"key": "invalid-name-accepted" + suffix, "detail": f"{n} -> {out}"}
    if out.startswith("!") or _unhx(out).lower() != want:
        return {"key": "valid-name-changed" + suffix, "detail": f"{n} -> {out}"}
    return None


def _oracle_run(c, out):
    """the property for ONE request/response exchange (`c`: context + script, `out`: what was observed for it)"""
    if c.get("conn") is None:
        return _judge(c, out, expected(c))
    # a request with some other Connection header than none / `close`: whether the server announces `Connection: close`
    # itself is not this property's business — but if it does, it has to close the connection
    r = _judge(c, out, expected(c, False))
    if r is None:
        return None
    if _fields(out)["closed"] == "1" and _judge(c, out, expected(c, True)) is None:
        return None
    return r


def _judge(c, out, exp):
    if exp is None:
        return None
    f = _fields(out)
    got_ref = set(int(e.split(":")[0]) for e in f["errs"].split(",")) if f["errs"] != "-" else set()
    got_ref = {i for i in got_ref if c["ops"][i][0] in ("sh", "ah", "sr", "ck")}    # write-after-finish is not this property
    if got_ref != exp["refused"]:
        return {"key": "refusal", "detail": f"operations refused {sorted(got_ref)}, expected {sorted(exp['refused'])}"}
    if not exp["wf"]:
        return None
    raw = _unhx(f["out"])
    hostile = _hostile_where(c)
    if f["parse"] == "reject":
        return {"key": "unparsable" + hostile, "detail": f"h11 refuses the emitted bytes {raw[:200]!r}"}
    st, rs, hs, body = f["parse"].split("/")
    if int(st) != exp["status"]:
        return {"key": "status" + hostile, "detail": f"status {st}, expected {exp['status']}; bytes {raw[:120]!r}"}
    got = {}
    for item in (hs.split(",") if hs else []):
        n, v = item.split(":")
        got.setdefault(_unhx(n), []).append(_unhx(v))
    want = {}
    for n, vs in exp["headers"].items():
        want[n] = [(_squash(_norm(v)) if n == b"set-cookie" else _norm(v)) for v in vs]
    if b"set-cookie" in got:
        got[b"set-cookie"] = [_squash(v) for v in got[b"set-cookie"]]
    te = got.get(b"transfer-encoding")
    chunked = False
    if te is not None:
        if te != [b"chunked"] or not c["v11"] or b"content-length" in got or exp["nobody"]:
            return {"key": "framing" + hostile, "detail": f"Transfer-Encoding {te} on {raw[:160]!r}"}
        del got[b"transfer-encoding"]
        chunked = True
    if got != want:
        extra = sorted(set(got) - set(want))
        key = "injected-header" if extra else "headers-differ"
        return {"key": key + hostile, "detail": f"client sees fields {got}, the application set {want}; bytes {raw[:200]!r}"}
    if rs is not None and exp["reason"] is not None and _unhx(rs).strip(b" \t") != _norm(exp["reason"]):
        return {"key": "reason" + hostile, "detail": f"reason {_unhx(rs)!r}, set {exp['reason']!r}"}
    if _unhx(body) != exp["body"]:
        return {"key": "body" + hostile, "detail": f"client reads body {_unhx(body)[:80]!r}, written {exp['body'][:80]!r}"}
    if c["v11"] and not chunked and not exp["nobody"] and b"content-length" not in got:
        return {"key": "framing" + hostile, "detail": "HTTP/1.1 response with a body that is neither chunked nor counted"}
    return None


def _hostile_where(c):
    """stable class of where line breaks / control bytes were passed"""
    where = set()
    for op in c["ops"]:
        if op[0] == "sc" and op[2] is not None and _BREAK.search(bytes.fromhex(op[2])):
            where.add("reason")
        elif op[0] in ("sh", "ah"):
            v = _bytes_value(unS(op[2]))
            if v is not None and _BREAK.search(v):
                where.add("value")
        elif op[0] == "sr":
            for x in op[2]:
                v = _bytes_value(unS(x))
                if v is not None and _BREAK.search(v):
                    where.add("value")
        elif op[0] == "ck":
            for x in op[1:8]:
                v = _bytes_value(unS(x)) if x is not None else None
                if v is not None and _BREAK.search(v):
                    where.add("cookie")
    return ("-ctl-in-" + "+".join(sorted(where))) if where else ""


def is_wf(c):
    if c["op"] != "run":
        return True
    e = expected(c)
    return bool(e and e["wf"])


def compare(c, io, mo):
    if io == mo:
        return True
    if c["op"] != "run" or io.startswith("!") or mo.startswith("!") or mo in ("bad-op", "bad-model"):
        return False
    reqs, ia, ma = _requests(c), io.split(SEP), mo.split(SEP)
    if not len(reqs) == len(ia) == len(ma):
        return False
    for r, i1, m1 in zip(reqs, ia, ma):
        if i1 == m1:
            continue
        a, b = _fields(i1), _fields(m1)
        if (a["errs"], a["out"], a["closed"]) != (b["errs"], b["out"], b["closed"]):
            return False
        # outside the property's preconditions (false Content-Length, application-set Transfer-Encoding, interim or
        # non-3-digit status) h11 and the reference parser are not required to read the bytes alike
        if is_wf(r):
            return False
    return True


# ----------------------------------------------------------------------------------------------------
# generation

HOSTILE = [b"\r", b"\n", b"\r\n", b"\x00", b"\x0b", b"\x0c", b"\t", b" ", b";", b":", b"=", b",", b"\x7f", b"\x80",
           b"\xff", b"\xc3\xa9", b"\x01", b"\x1f", b"\\", b'"']
PLAIN = [b"a", b"b", b"Z", b"0", b"9", b"x", b"-", b"_", b".", b"/", b"text", b"html", b"X-Injected: yes", b"HTTP/1.1 200 OK",
         b"Set-Cookie: s=1", b"0", b"Content-Length: 0"]
TCHARS = [" ", "\r", "\n", "\r\n", "\x00", "\x0b", "\x0c", "\x85", " ", " ", "\x1c", "é", "€", "\U0001F600", "a", "b",
          "1", ";", ":", "=", "\t", "\xff", "\udc80", "\ud800", "Ā"]
NAMES = [b"X-A", b"x-a", b"X-a", b"X-B", b"Content-Type", b"content-type", b"etag", b"ETag", b"TE", b"te", b"dnt", b"P3P",
         b"content-md5", b"www-authenticate", b"x-xss-protection", b"Server", b"Date", b"Location", b"a", b"A-", b"-", b"a--b",
         b"!#$%&'*+-.^_`|~", b"x1", b"Connection", b"Last-Modified", b"Vary"]
BAD_NAMES = [b"", b"a b", b"a:b", b"a\r\nb", b"a\nb: c", b"X-A\r\n", b" X", b"X ", b"a\x00", b"\xe9", b"a\x7f", b"a(b", b"a,b",
             b"a/b", b"a\tb", b"a\x0bb", b"[a]", b"a=b", b"a;b", b'"a"']
BAD_TNAMES = ["Ā", "a€", "a b", "", "é", "a\r\nb", "\udc80", "a\x85b", "x:y"]
SIZES = [0, 1, 1, 2, 3, 9, 10, 15, 16, 17, 31, 255, 256, 257, 300]


def _rbytes(rng, n=None, hostile=0.35):
    n = rng.choice([0, 1, 1, 2, 3, 4, 6]) if n is None else n
    return b"".join(rng.choice(HOSTILE) if rng.random() < hostile else rng.choice(PLAIN) for _ in range(n))


def _rtext(rng, n=None):
    n = rng.choice([0, 1, 1, 2, 3, 5]) if n is None else n
    return "".join(rng.choice(TCHARS) for _ in range(n))


def _sub(rng, s, p=0.05):
    """now and then the argument is an instance of a str / bytes SUBCLASS (`type(x) is str` is False for it)"""
    return [s[0] + "s", s[1]] if rng.random() < p else s


def _rval(rng):
    return _sub(rng, _rval0(rng))


def _rval0(rng):
    r = rng.random()
    if r < 0.12:
        v = _redge(rng)
        if rng.random() < 0.35:
            try:
                return S(v.decode("utf-8"))
            except UnicodeDecodeError:
                return S(v.decode("latin-1"))
        return S(v)
    if r < 0.55:
        return S(_rbytes(rng))
    if r < 0.6:
        return S(bytes(rng.randrange(256) for _ in range(rng.randint(1, 6))))
    return S(_rtext(rng))


# "almost tokens": a valid token with ONE foreign piece at its end, start or inside.  This is the class where
# a validator written with a regular expression (`$` before a final LF, `.` not matching LF, re.match without
# an end anchor), with str methods (isalnum / isprintable / strip / splitlines accept or drop more than ASCII)
# or with a blacklist differs from "every byte is a tchar".
TOKEN_BYTES = b"!#$%&'*+-.^_`|~0123456789ABCDEFGHIJKLMNOPQRSTUVWXYZabcdefghijklmnopqrstuvwxyz"
NON_TCHAR = [bytes([i]) for i in range(256) if i not in TOKEN_BYTES]
NEAR_PIECES = ([b"\n"] * 8 + [b"\r"] * 3 + [b"\r\n"] * 3 + [b"\n\n", b"\n\r", b"\r\n\n", b"\n ", b" \n"]
               + [b" ", b" ", b"\t", b":", b":", b"\x00", b"\x0b", b"\x0c", b"\x1c", b"\x1d", b"\x1e", b"\x1f", b"\x85", b"\xa0",
                  b"\x7f", b"\x80", b"\xff", b"(", b")", b",", b"/", b";", b"<", b"=", b">", b"?", b"@", b"[", b"\\", b"]", b"{", b"}",
                  b'"', b"\xb2", b"\xaa", b"\xb5", b"\xe9", b"\xdf", b": x", b"\n: x", b"\r\nX-Injected"])
# code points that only a text name can carry: not Latin-1 (must be refused), some of them alphanumeric, digits,
# line separators for str.splitlines, or case-mapping onto ASCII (U+212A KELVIN SIGN lowers to "k", U+017F to "s")
NEAR_TEXT = ["\u2028", "\u2029", "\u0100", "\u017f", "\u212a", "\uff21", "\uff11", "\u0661", "\u20ac", "\U0001F600", "\udc80",
             "\ud800", "\udc0a", "\u010a", "\u0a0a"]


def _near_token(rng, base=None):
    """→ bytes or str: a valid token + one foreign piece (suffix 55 %, prefix 20 %, inside 25 %)"""
    if base is None:
        base = rng.choice(NAMES) if rng.random() < 0.8 else bytes(rng.choice(TOKEN_BYTES) for _ in range(rng.randint(1, 6)))
    text_only = rng.random() < 0.12
    if text_only:
        piece = rng.choice(NEAR_TEXT)
        base = base.decode("ascii")
    else:
        rp = rng.random()
        piece = (b"\n" if rp < 0.3 else b"\r" if rp < 0.36 else b"\r\n" if rp < 0.42 else
                 rng.choice(NEAR_PIECES) if rp < 0.9 else rng.choice(NON_TCHAR))
    r = rng.random()
    if r < 0.55:
        n = base + piece
    elif r < 0.75:
        n = piece + base
    else:
        i = rng.randint(1, len(base) - 1) if len(base) > 1 else 0
        n = base[:i] + piece + base[i:]
    if not text_only and rng.random() < 0.4:
        n = n.decode("latin-1")
    return n


def _rname(rng):
    return _sub(rng, _rname0(rng), 0.04)


def _rname0(rng):
    r = rng.random()
    if r < 0.58:
        n = rng.choice(NAMES)
        return S(n if rng.random() < 0.6 else n.decode("ascii"))
    if r < 0.66:
        n = bytes(rng.choice(b"abcXYZ019-!#~_.") for _ in range(rng.randint(1, 8)))
        return S(n if rng.random() < 0.5 else n.decode("ascii"))
    if r < 0.86:
        return S(_near_token(rng))
    if r < 0.95:
        return S(rng.choice(BAD_NAMES))
    return S(rng.choice(BAD_TNAMES))


# ---- names that some normalisation maps onto a valid token -----------------------------------------------------
# A cache / comparison keyed on a NORMALISED spelling (lower, upper, casefold, strip, NFKC, …) answers for such a
# name with the entry of the valid name it collapses to — but only once that valid name has been seen.
NORM_BASES = ["Set-Cookie", "X-Fook", "Keep-Alive", "Link", "Host", "Server", "Status", "X-Xss-Protection",
              "Www-Authenticate", "Strict-Transport-Security", "Last-Modified", "Content-Disposition", "X-A2", "Office",
              "Etag", "Kiss", "X-Stiff-1", "Cookie"]


def _norm_variants(base):
    """→ [(how, name)]: names (str or bytes) that are NOT valid header names but that `how` maps onto `base`"""
    out = []

    def sub1(pat, repl, how):
        i = base.lower().find(pat)
        if i >= 0:
            out.append((how, base[:i] + repl + base[i + len(pat):]))
    sub1("k", "\u212a", "lower")                 # KELVIN SIGN .lower() == "k"
    sub1("s", "\u017f", "upper")                 # LONG S .upper() == "S", casefold "s"
    sub1("ss", "\xdf", "upper")                  # ß (Latin-1!) .upper() == "SS", casefold "ss"
    sub1("i", "\u0131", "upper")                 # DOTLESS I .upper() == "I"
    sub1("fi", "\ufb01", "nfkc")
    sub1("ff", "\ufb00", "nfkc")
    sub1("st", "\ufb06", "nfkc")
    sub1("2", "\xb2", "nfkc")                    # ² (Latin-1!)
    sub1("1", "\xb9", "nfkc")
    sub1("a", "\xaa", "nfkc")                    # ª (Latin-1!)
    sub1("o", "\xba", "nfkc")                    # º (Latin-1!)
    for i, ch in enumerate(base):
        if ch.isalnum():
            fw = chr(ord(ch) - 0x21 + 0xFF01)     # fullwidth form
            out.append(("nfkc", base[:i] + fw + base[i + 1:]))
            break
    mid = max(1, len(base) // 2)
    out.append(("drop-ignorable", base[:mid] + "\xad" + base[mid:]))      # SOFT HYPHEN (Latin-1!)
    out.append(("drop-ignorable", base[:mid] + "\u200b" + base[mid:]))
    for ws in (" ", "\t", "\n", "\r\n", "\x0b", "\x0c", "\x1c", "\x1f", "\x85", "\xa0", "\u2028", "\u3000"):
        out.append(("strip", base + ws))
        out.append(("strip", ws + base))
    for ws in (b" ", b"\t", b"\n", b"\r\n", b"\x0b", b"\x0c", b"\x00"):
        out.append(("strip", base.encode() + ws))
        out.append(("strip", ws + base.encode()))
    return out


def _spellings(base):
    return [base.lower(), base.upper(), base, base.lower().encode(), base.upper().encode(), base.encode(),
            base.swapcase(), base.title()]


# ---- the request's own Connection header (HTTPChannel.checkPersistence decides from it whether the response is
# delimited by closing the connection) -------------------------------------------------------------------------
CONN = [b"close", b"Close", b"CLOSE", b"keep-alive", b"Keep-Alive", b"keep-alive", b"KEEP-ALIVE", b"keep-alive, close",
        b"close, keep-alive", b"keep-alive,close", b"close,keep-alive", b"TE, close", b"te close", b"close TE", b"Upgrade",
        b"upgrade, keep-alive", b"closed", b"x-close", b"close\tx", b"", b"close ", b" close", b"\tclose\t", b"keep-alive ",
        b"keep-alive  close", b" ", b"close;q=1", b"clos", b"e close", b"keep-alive keep-alive", b"Keep-Alive, Upgrade"]

EDGE = [b"\n"] * 4 + [b"\r", b"\r\n", b"\n\n", b"\r\r", b"\n\r", b"\x00", b"\x0b", b"\x0c", b" ", b"\t", b"\x1c", b"\x85", b"\xc2\x85",
                        b"\xe2\x80\xa8"]


def _redge(rng):
    """a plain value with ONE hostile piece exactly at its end / start (the places `$`, strip(), splitlines()
    and "the last line has no terminator" special-case)"""
    core = b"".join(rng.choice(PLAIN) for _ in range(rng.choice([0, 1, 1, 2])))
    e = rng.choice(EDGE)
    r = rng.random()
    if r < 0.6:
        return core + e
    if r < 0.85:
        return e + core
    return e + core + rng.choice(EDGE)


def _rbody(rng):
    n = rng.choice(SIZES)
    r = rng.random()
    if r < 0.15:
        return (b"0\r\n\r\n" * n)[:n]
    if r < 0.3:
        return (b"\r\n" * n)[:n]
    return bytes(rng.randrange(256) for _ in range(n))


CODES = [200, 200, 200, 201, 204, 304, 301, 404, 500, 205, 299, 999, 206, 418, 600]
ODD_CODES = [100, 101, 199, 99, 1000, 0, 1234, 7]


def _norm_pair_ops(rng):
    """the valid name (one or two spellings), then a name a normalisation collapses onto it — to be refused"""
    base = rng.choice(NORM_BASES)
    how, var = rng.choice(_norm_variants(base))
    ops = []
    for sp in rng.sample(_spellings(base), rng.choice([1, 1, 2])):
        ops.append([rng.choice(["sh", "sh", "ah"]), S(sp), S(rng.choice([b"1", b"v", "w"]))])
    k = rng.choice(["sh", "sh", "ah", "sr", "rm"])
    ops.append(["rm", S(var)] if k == "rm" else ["sr", S(var), [S(b"x")]] if k == "sr" else [k, S(var), S(b"x")])
    return ops


def _shared_list_ops(rng):
    """ONE list object of the application handed to several setRawHeaders calls (and changed by the application
    afterwards): each call must have stored the values as they were at the call"""
    key = rng.randrange(3)
    names = rng.sample([b"X-A", b"X-B", "X-C", b"Vary", b"Set-Cookie", "Content-Type"], rng.choice([2, 2, 3]))
    clean = lambda: S(rng.choice([b"1", b"2", b"a, b", b"text/html", b""]))
    ops = []
    vals = [clean() if rng.random() < 0.75 else _rval(rng) for _ in range(rng.choice([1, 1, 2, 3]))]
    for i, n in enumerate(names):
        if i and rng.random() < 0.3:
            vals = [clean() if rng.random() < 0.75 else _rval(rng) for _ in range(rng.choice([0, 1, 2]))]
        r = rng.random()
        after = None if r < 0.45 else "clear" if r < 0.6 else [clean() for _ in range(rng.choice([1, 2]))]
        ops.append(["sr", S(n), list(vals), key, after])
    for _ in range(rng.choice([0, 1, 1, 2])):
        ops.append(["ah", S(rng.choice(names)), clean()])
    return ops


def _script(rng, ctx=True):
    v11 = int(rng.random() < 0.7)
    head = int(rng.random() < 0.2)
    close = int(rng.random() < 0.15)
    conn = None
    if ctx and rng.random() < 0.12:
        # another Connection header than none / `close`; HTTP/1.0 (where only closing ends an uncounted body) half of the time
        close, conn = 0, rng.choice(CONN).hex()
        v11 = int(rng.random() < 0.5)
    setup = []
    r = rng.random()
    if r < 0.75:
        code = rng.choice(CODES) if rng.random() < 0.93 else rng.choice(ODD_CODES)
        rr = rng.random()
        if rr < 0.4:
            msg = None
        elif rr < 0.5:
            msg = b""
        elif rr < 0.62:
            msg = _redge(rng)
        else:
            msg = _rbytes(rng, hostile=0.5)
        setup.append(["sc", code, None if msg is None else msg.hex()])
    for _ in range(rng.choice([0, 1, 1, 2, 3, 4])):
        k = rng.choice(["sh", "sh", "sh", "sh", "ah", "ah", "sr"])
        if k == "sr":
            setup.append(["sr", _rname(rng), [_rval(rng) for _ in range(rng.choice([0, 1, 2, 2, 3]))]])
        else:
            setup.append([k, _rname(rng), _rval(rng)])
    if setup and rng.random() < 0.12:
        # the same name again, valid and almost valid, in another case / type: the name cache, replacement, removal
        prev = [o for o in setup if o[0] in ("sh", "ah", "sr")]
        if prev:
            base = _name(unS(rng.choice(prev)[1]))
            if base is not None:
                for _ in range(rng.choice([1, 1, 2])):
                    r2 = rng.random()
                    n = base.upper() if r2 < 0.2 else (base if r2 < 0.4 else _near_token(rng, base))
                    if isinstance(n, bytes) and rng.random() < 0.4:
                        n = n.decode("latin-1")
                    setup.append(rng.choice([["sh", S(n), _rval(rng)], ["ah", S(n), _rval(rng)], ["rm", S(n)],
                                             ["sr", S(n), [_rval(rng) for _ in range(rng.choice([0, 1, 2]))]]]))
    if rng.random() < 0.06:
        setup.append(["rm", _rname(rng)])
    special = []
    if rng.random() < 0.05:
        special += _norm_pair_ops(rng)            # order matters: kept together, inserted after the shuffle
    if rng.random() < 0.05:
        special += _shared_list_ops(rng)
    for _ in range(rng.choice([0, 0, 0, 1, 1, 2])):
        attrs = [(_rval(rng) if rng.random() < 0.25 else None) for _ in range(5)]
        rs = rng.random()
        ss = None if rs < 0.6 else S(rng.choice([b"lax", b"Strict", "LAX", "strict", b"", "", b"none", "laX\n", "\udc80", b"\xff",
                                                 b"lax\n", "strict\n", b"Strict\r\n", b"\nlax", b"lax ", "Lax\x85", b"lax\x00"]))
        setup.append(["ck", _rval(rng), _rval(rng)] + attrs + [int(rng.random() < 0.3), int(rng.random() < 0.3), ss])
    if rng.random() < 0.03:
        setup.append(["sh", S(b"Transfer-Encoding"), S(rng.choice([b"chunked", b"gzip", b"identity"]))])
    if rng.random() < 0.05:
        setup.append(["sh", S(b"Set-Cookie"), _rval(rng)])
    rng.shuffle(setup)
    if special:
        i = rng.randint(0, len(setup))
        setup[i:i] = special
    writes = [["w", _rbody(rng).hex()] for _ in range(rng.choice([0, 1, 1, 2, 2, 3, 4]))]
    total = sum(len(w[1]) // 2 for w in writes)
    r = rng.random()
    if r < 0.4:
        cl = str(total).encode()
        if rng.random() < 0.2:
            cl = rng.choice([b"", b" ", b" ", b"\t", b"\n", b"\r\n"]) + cl + rng.choice([b"\r\n", b"\n", b"\n", b"\r", b" ", b"\n ", b"\x0b"])
        setup.insert(rng.randint(0, len(setup)), ["sh", S(rng.choice([b"Content-Length", b"content-length", "Content-Length"])),
                                                  S(cl if rng.random() < 0.7 else cl.decode())])
    elif r < 0.45:
        setup.append(["sh", S(b"Content-Length"), S(rng.choice([str(total + 1).encode(), b"abc", b"", b"-1", b"1\r\n2"]))])
    ops = setup + writes + [["f"]]
    r = rng.random()
    if r < 0.12 and len(ops) > 2 and setup:
        # set-up calls after the head has gone out: between the writes, just before finish, or after finish
        for _ in range(rng.choice([1, 1, 2])):
            nset = sum(1 for o in ops[:ops.index(writes[0]) if writes else len(ops) - 1] if o[0] not in ("w", "f"))
            if not nset:
                break
            op = ops.pop(rng.randrange(nset))
            rr = rng.random()
            if rr < 0.25:
                ops.append(op)
            elif rr < 0.5:
                ops.insert(len(ops) - 1, op)
            else:
                ops.insert(rng.randint(min(nset, len(ops) - 1), len(ops) - 1), op)
    elif r < 0.18:
        ops.append(rng.choice([["w", "6162"], ["f"], ["w", ""], ["sh", S(b"X-Late"), S(b"1")], ["sh", S(b"X-Late\n"), S(b"1")],
                               ["rm", S(b"Content-Length")], ["sr", S(b"Transfer-Encoding"), []]]))
    c = {"op": "run", "v11": v11, "head": head, "close": close, "ops": ops}
    if conn is not None:
        c["conn"] = conn
    if ctx and rng.random() < 0.14:
        # earlier requests on the same (persistent) connection, each answered by its own script
        c["prev"] = []
        for _ in range(rng.choice([1, 1, 2, 3])):
            p = _script(rng, ctx=False) if rng.random() < 0.6 else _twin(rng, c)
            c["prev"].append({"head": p["head"], "ops": p["ops"]})
        c["pipe"] = int(rng.random() < 0.5)
    return c


def _twin(rng, c):
    """an earlier exchange that looks like the observed one but differs in ONE respect (reason, a value, the method,
    the writes): what a per-connection cache keyed on too little would hand back"""
    ops = [list(o) for o in c["ops"]]
    r = rng.random()
    code = next((o[1] for o in ops if o[0] == "sc"), 200)
    if r < 0.4:
        ops = [o for o in ops if o[0] != "sc"]
        ops.insert(0, ["sc", code, rng.choice([b"Earlier", b"", b"OK", b"Not OK"]).hex()])
    elif r < 0.6:
        ops.insert(0, ["sh", S(rng.choice([b"X-Earlier", b"Content-Type", b"Set-Cookie"])), S(b"earlier")])
    elif r < 0.8:
        ops = [o for o in ops if o[0] != "w"]
        ops.insert(max(0, len(ops) - 1), ["w", b"earlier body".hex()])
        ops = [o for o in ops if not (o[0] in ("sh", "sr") and (_name(unS(o[1])) == b"content-length"))]
    if not any(o[0] == "f" for o in ops):
        ops.append(["f"])
    return {"head": int(rng.random() < 0.3) if r >= 0.8 else c["head"], "ops": ops}


def corpus():
    inj = (b"OK\r\nX-Injected: yes").hex()
    return [
        {"op": "run", "v11": 0, "head": 0, "close": 0, "ops": [["sc", 200, "0a653a"], ["f"]]},   # minimised witness: field 'e' injected
        {"op": "run", "v11": 1, "head": 0, "close": 0, "ops": [["ah", S("a--b"), S("\ud800")], ["sh", S(b"X-B"), S(b"1")], ["sh", S("a--b"), S(b"\xfe")], ["f"]]},
        {"op": "run", "v11": 1, "head": 0, "close": 0, "ops": [["sc", 200, inj], ["w", "616263"], ["f"]]},
        {"op": "run", "v11": 0, "head": 0, "close": 0, "ops": [["sc", 200, (b"OK\nSet-Cookie: s=1").hex()], ["f"]]},
        {"op": "run", "v11": 1, "head": 0, "close": 0, "ops": [["sc", 200, (b"OK\r\n\r\nbody").hex()], ["f"]]},
        {"op": "run", "v11": 1, "head": 0, "close": 0, "ops": [["sh", S(b"X-A"), S(b"a\x00b")], ["f"]]},
        {"op": "run", "v11": 1, "head": 0, "close": 0, "ops": [["sh", S(b"X-A"), S(b"a\x0bb")], ["f"]]},
        {"op": "run", "v11": 1, "head": 0, "close": 0, "ops": [["sh", S("X-A"), S("a\x0cb")], ["f"]]},
        {"op": "run", "v11": 1, "head": 0, "close": 0, "ops": [["sc", 200, (b"O\x00K").hex()], ["f"]]},
        {"op": "run", "v11": 1, "head": 0, "close": 0,
         "ops": [["ck", S("k\x00"), S(b"v;\r\nSet-Cookie: x=y"), S(b"e\n"), None, None, None, None, 1, 1, S("LAX")], ["w", "61"], ["f"]]},
        {"op": "run", "v11": 1, "head": 0, "close": 0,
         "ops": [["sh", S(b"x-a"), S(b"1\r\nX-Injected: yes")], ["sh", S("X-A"), S("2\r\n\r\n<html>")], ["ah", S(b"X-a"), S(b"3\r")],
                 ["w", "616263"], ["w", ""], ["w", "6465"], ["f"]]},
        {"op": "run", "v11": 1, "head": 1, "close": 0, "ops": [["sh", S(b"Content-Length"), S(b"10")], ["w", "616263"], ["f"]]},
        {"op": "run", "v11": 1, "head": 0, "close": 1, "ops": [["sc", 204, None], ["w", "616263"], ["f"], ["w", "61"]]},
        {"op": "run", "v11": 0, "head": 0, "close": 0, "ops": [["sc", 304, None], ["w", "616263"], ["f"]]},
        {"op": "run", "v11": 1, "head": 0, "close": 0, "ops": [["sh", S(b"content-length"), S("3")], ["w", "61"], ["w", "6263"], ["f"]]},
        {"op": "run", "v11": 1, "head": 0, "close": 0, "ops": [["w", (b"0\r\n\r\n").hex()], ["f"], ["w", "61"], ["f"]]},
        {"op": "run", "v11": 1, "head": 0, "close": 0, "ops": [["sh", S(b"a b"), S(b"x")], ["sh", S("Ā"), S(b"x")], ["sh", S(b"X"), S("\udc80")], ["f"]]},
        {"op": "run", "v11": 1, "head": 0, "close": 0, "ops": [["sc", 999, ""], ["w", "00" * 256], ["f"]]},
        {"op": "run", "v11": 1, "head": 0, "close": 0, "ops": []},
        # almost-token names: a valid token + ONE trailing LF (what `[tchar]+$` with re.match lets through), bytes and
        # text, through every call that names a header; siblings: CR, CRLF, LF LF, leading / inner LF, NEL, non-Latin-1
        {"op": "run", "v11": 1, "head": 0, "close": 0, "ops": [["sh", S(b"X-Foo\n"), S(b"v")], ["w", "68656c6c6f"], ["f"]]},
        {"op": "run", "v11": 0, "head": 0, "close": 0, "ops": [["sh", S("X-Foo\n"), S("v")], ["sh", S(b"Content-Length"), S(b"5")], ["w", "68656c6c6f"], ["f"]]},
        {"op": "run", "v11": 1, "head": 0, "close": 0, "ops": [["ah", S(b"X-Foo\n"), S(b"v")], ["ah", S("X-Foo\n"), S(b"w")], ["f"]]},
        {"op": "run", "v11": 1, "head": 0, "close": 0, "ops": [["sr", S(b"X-Foo\n"), [S(b"v"), S("w")]], ["sr", S("Set-Cookie\n"), [S(b"a=b")]], ["f"]]},
        {"op": "run", "v11": 1, "head": 0, "close": 0,
         "ops": [["sh", S(b"X-Foo"), S(b"kept")], ["sh", S(b"X-Foo\n"), S(b"v")], ["rm", S(b"X-Foo\n")], ["sh", S(b"x-foo\r"), S(b"v")],
                 ["sh", S(b"X-Foo\r\n"), S(b"v")], ["sh", S(b"X-Foo\n\n"), S(b"v")], ["sh", S(b"\nX-Foo"), S(b"v")], ["sh", S(b"X-\nFoo"), S(b"v")],
                 ["sh", S("X-Foo\x85"), S(b"v")], ["sh", S("X-Foo\u2028"), S(b"v")], ["sh", S("X-Foo\u212a"), S(b"v")], ["sh", S(b"\n"), S(b"v")],
                 ["w", "6162"], ["f"]]},
        {"op": "run", "v11": 1, "head": 0, "close": 0,
         "ops": [["sh", S(b"Content-Length\n"), S(b"0")], ["sh", S(b"Transfer-Encoding\n"), S(b"chunked")], ["sh", S(b"Connection\n"), S(b"close")],
                 ["w", "616263"], ["f"]]},
        # setRawHeaders: several values, no value (a name without values is not sent, and counts as absent for framing), removeHeader
        {"op": "run", "v11": 1, "head": 0, "close": 0, "ops": [["sr", S(b"X-A"), [S(b"1\n"), S("2\r\nX-Injected: yes"), S(b"\n3")]], ["w", "61"], ["f"]]},
        {"op": "run", "v11": 1, "head": 0, "close": 0, "ops": [["sr", S(b"Content-Length"), []], ["sr", S(b"X-E"), []], ["w", "616263"], ["f"]]},
        {"op": "run", "v11": 1, "head": 0, "close": 0, "ops": [["sh", S(b"Content-Length"), S(b"7")], ["rm", S("content-length")], ["sh", S(b"X-A"), S(b"1")],
                                                             ["rm", S(b"x-a")], ["ah", S(b"X-A"), S(b"2")], ["w", "616263"], ["f"]]},
        {"op": "run", "v11": 1, "head": 0, "close": 0, "ops": [["sr", S(b"X-A"), [S(b"1"), S("\udc80")]], ["sr", S(b"a b"), []], ["rm", S(b"a b")], ["rm", S("Ā")], ["f"]]},
        # values, reason, cookie, sameSite and Content-Length ending in exactly one LF
        {"op": "run", "v11": 1, "head": 0, "close": 0,
         "ops": [["sc", 200, (b"OK\n").hex()], ["sh", S(b"X-A"), S(b"v\n")], ["ah", S("X-B"), S("v\n")], ["sh", S(b"Content-Length"), S(b"3\n")],
                 ["ck", S(b"k\n"), S(b"v\n"), None, None, S(b"/\n"), None, None, 0, 0, S(b"lax\n")],
                 ["ck", S(b"k\n"), S(b"v\n"), None, None, S(b"/\n"), None, None, 0, 0, S(b"lax")], ["w", "616263"], ["f"]]},
        {"op": "name", "n": S(b"X-Foo\n")}, {"op": "name", "n": S("X-Foo\n")}, {"op": "name", "n": S(b"X-Foo\r\n")}, {"op": "name", "n": S(b"\n")},
        {"op": "name", "n": S("Content-Length\n")}, {"op": "name", "n": S("X-Foo\x85")}, {"op": "name", "n": S("X-Foo\u2028")},
        {"op": "san", "x": (b"a\r\nb\rc\nd\n").hex()}, {"op": "san", "x": (b"\r\r\n\n").hex()}, {"op": "san", "x": (b"a\x00b\x0bc\x0c").hex()},
        {"op": "name", "n": S(b"content-md5")}, {"op": "name", "n": S("x-xss-protection")}, {"op": "name", "n": S(b"a b")},
        # --- white-box audit (harness/mutants/C20) ---
        # a name that a normalisation (lower: KELVIN SIGN; upper: LONG S, ß; strip; NFKC) maps onto a valid name used just before
        {"op": "names", "ns": [S("x-fook"), S("X-Foo\u212a")]},
        {"op": "names", "ns": [S("SET-COOKIE"), S(b"set-cookie"), S("\u017fet-Cookie"), S("Set-Coo\u212aie"), S("Set-Cookie\n"), S(b"Set-Cookie ")]},
        {"op": "names", "ns": [S("KISS"), S("Ki\xdf"), S("kiss"), S("Ki\xdf"), S("K\u0131ss")]},
        {"op": "run", "v11": 1, "head": 0, "close": 0,
         "ops": [["sh", S("set-cookie"), S(b"a=b")], ["ah", S("Set-Coo\u212aie"), S(b"evil=1")], ["sh", S("x-a2"), S(b"1")], ["sh", S("X-A\xb2"), S(b"2")],
                 ["w", "6162"], ["f"]]},
        # the application's own list object handed to several setRawHeaders calls, and changed by it afterwards
        {"op": "run", "v11": 1, "head": 0, "close": 0,
         "ops": [["sr", S(b"X-A"), [S(b"1")], 0, None], ["sr", S(b"X-B"), [S(b"1")], 0, None], ["ah", S(b"X-A"), S(b"2")], ["f"]]},
        {"op": "run", "v11": 1, "head": 0, "close": 0,
         "ops": [["sr", S(b"X-A"), [S(b"1"), S(b"2")], 1, "clear"], ["sr", S("X-B"), [S(b"3")], 1, [S(b"4")]], ["w", "61"], ["f"]]},
        {"op": "run", "v11": 0, "head": 0, "close": 0,
         "ops": [["sr", S(b"Set-Cookie"), [S(b"a=b")], 0, [S(b"late=1")]], ["ck", S(b"k"), S(b"v"), None, None, None, None, None, 0, 0, None], ["f"]]},
        # instances of str / bytes subclasses as names, values, cookie parts
        {"op": "run", "v11": 1, "head": 0, "close": 0,
         "ops": [["sh", ["bs", b"X-A".hex()], ["ts", [97, 10, 98]]], ["ah", ["ts", [88, 45, 66]], ["bs", b"v\r\nw".hex()]],
                 ["sr", ["ts", [88, 45, 67]], [["ts", [49]], ["bs", "32"], S(b"3")]], ["sh", ["ts", [88, 45, 68, 10]], ["ts", [49]]],
                 ["ck", ["ts", [107]], ["bs", "76"], None, None, ["ts", [47]], None, None, 0, 1, ["ts", [76, 97, 120]]], ["w", "616263"], ["f"]]},
        {"op": "names", "ns": [["ts", [88, 45, 65]], ["bs", b"X-A".hex()], ["ts", [88, 45, 65, 10]], ["bs", b"X-A\n".hex()], ["ts", [256]]]},
        # the request's own Connection header: HTTP/1.0 + keep-alive and no Content-Length (only closing ends the body)
        {"op": "run", "v11": 0, "head": 0, "close": 0, "conn": b"keep-alive".hex(), "ops": [["w", "616263"], ["f"]]},
        {"op": "run", "v11": 0, "head": 0, "close": 0, "conn": b"Keep-Alive".hex(), "ops": [["sh", S(b"Content-Length"), S(b"3")], ["w", "616263"], ["f"]]},
        {"op": "run", "v11": 1, "head": 0, "close": 0, "conn": b"keep-alive, close".hex(), "ops": [["w", "616263"], ["f"]]},
        {"op": "run", "v11": 1, "head": 0, "close": 0, "conn": b"Close".hex(), "ops": [["sh", S(b"Connection"), S(b"keep-alive")], ["w", "616263"], ["f"]]},
        {"op": "run", "v11": 1, "head": 1, "close": 0, "conn": b"keep-alive,close".hex(), "ops": [["f"]]},
        {"op": "run", "v11": 1, "head": 0, "close": 0, "conn": "", "ops": [["w", "61"], ["f"]]},
        # several requests on ONE connection: every response stands for itself (same code, other reason / fields / method / body)
        {"op": "run", "v11": 1, "head": 0, "close": 0, "pipe": 0, "prev": [{"head": 0, "ops": [["sc", 200, b"First".hex()], ["f"]]}],
         "ops": [["sc", 200, b"Second".hex()], ["f"]]},
        {"op": "run", "v11": 1, "head": 0, "close": 0, "pipe": 1,
         "prev": [{"head": 1, "ops": [["sh", S(b"X-A"), S(b"1")], ["ck", S(b"k"), S(b"v"), None, None, None, None, None, 0, 0, None], ["w", "616263"], ["f"]]},
                  {"head": 0, "ops": [["sc", 304, None], ["w", "616263"], ["f"], ["w", "61"]]}],
         "ops": [["sc", 404, None], ["w", "616263"], ["w", "64"], ["f"]]},
        {"op": "run", "v11": 0, "head": 0, "close": 0, "pipe": 1, "prev": [{"head": 0, "ops": [["sh", S(b"Content-Length"), S(b"2")], ["w", "6162"], ["f"]]}] * 3,
         "ops": [["w", "6162"], ["f"]]},
        {"op": "run", "v11": 1, "head": 0, "close": 1, "pipe": 0, "prev": [{"head": 0, "ops": [["sh", S(b"X-Foo\n"), S(b"v")], ["w", "61"], ["f"]]}],
         "ops": [["sh", S(b"X-Foo\n"), S(b"v")], ["sh", S(b"X-Foo"), S(b"v")], ["w", "61"], ["f"]]},
    ]


def _sweep():
    """deterministic part of every run: EVERY byte that is not a tchar at the end, at the start and inside an otherwise
    valid name (bytes and Latin-1 text; 179 bytes x 3 places x 2 types, direct `_nameEncoder.encode` cases: cheap), the
    non-Latin-1 code points, and for the line-break-like ones whole responses through each naming call"""
    for b in NON_TCHAR:
        for n in (b"X-Foo" + b, b + b"X-Foo", b"X-" + b + b"Foo"):
            yield {"op": "name", "n": S(n)}
            yield {"op": "name", "n": S(n.decode("latin-1"))}
        yield {"op": "name", "n": S(b)}
    for t in NEAR_TEXT:
        for n in ("X-Foo" + t, t + "X-Foo", "X-" + t + "Foo"):
            yield {"op": "name", "n": S(n)}
    i = 0
    for piece in (b"\n", b"\r", b"\r\n", b"\n\n", b"\n\r", b" ", b"\t", b":", b"\x00", b"\x0b", b"\x0c", b"\x1c", b"\x85", b"\xa0", b"\xff"):
        for base in (b"X-Foo", b"Content-Length", b"etag"):
            for n in (base + piece, piece + base, base[:2] + piece + base[2:]):
                for nn in (n, n.decode("latin-1")):
                    i += 1
                    ops = [[("sh", "ah", "sr")[i % 3], S(nn), S(b"v")]]
                    if ops[0][0] == "sr":
                        ops[0][2] = [S(b"v"), S("w")]
                    if i % 2:
                        ops.insert(0, ["sh", S(base), S(b"3")])
                    if i % 5 == 0:
                        ops.append(["rm", S(nn)])
                    yield {"op": "run", "v11": int(i % 4 != 0), "head": 0, "close": 0, "ops": ops + [["w", "616263"], ["f"]]}
    # every name that a normalisation maps onto a valid name, right after two spellings of that valid name
    for base in NORM_BASES:
        sp = _spellings(base)
        for j, (how, var) in enumerate(_norm_variants(base)):
            yield {"op": "names", "ns": [S(sp[j % len(sp)]), S(sp[(j + 3) % len(sp)]), S(var)]}
            if how != "strip" and base in NORM_BASES[:8]:
                i += 1
                k = ("sh", "ah", "sr")[i % 3]
                yield {"op": "run", "v11": i % 2, "head": 0, "close": 0,
                       "ops": [["sh", S(sp[i % len(sp)]), S(b"1")], [k, S(var), [S(b"x")] if k == "sr" else S(b"x")], ["w", "6162"], ["f"]]}
    # every Connection request header of the table, HTTP/1.0 and 1.1, with and without a Content-Length
    for v in CONN:
        for v11 in (0, 1):
            for counted in (0, 1):
                yield {"op": "run", "v11": v11, "head": 0, "close": 0, "conn": v.hex(),
                       "ops": ([["sh", S(b"Content-Length"), S(b"3")]] if counted else []) + [["w", "616263"], ["f"]]}


def generate(rng, tier):
    yield from _sweep()
    n = 10000 if tier == "quick" else 150000
    for i in range(n):
        r = rng.random()
        if r < 0.84:
            yield _script(rng)
        elif r < 0.91:
            yield {"op": "san", "x": (_rbytes(rng, rng.randint(0, 9), hostile=0.7) if rng.random() < 0.7 else _redge(rng)).hex()}
        else:
            yield {"op": "name", "n": _rname(rng)}


def _shrink_str(s):
    sub = [[s[0][0], s[1]]] if len(s[0]) > 1 else []          # the plain type instead of the subclass
    if s[0][0] == "b":
        b = bytes.fromhex(s[1])
        return sub + [[s[0], (b[:j] + b[j + 1:]).hex()] for j in range(len(b))]
    return sub + [[s[0], s[1][:j] + s[1][j + 1:]] for j in range(len(s[1]))]


def shrink(c):
    if c["op"] == "name":
        for cand in _shrink_str(c["n"]):
            yield {"op": "name", "n": cand}
        return
    if c["op"] == "names":
        ns = c["ns"]
        for i in range(len(ns)):
            if len(ns) > 1:
                yield {"op": "names", "ns": ns[:i] + ns[i + 1:]}
        for i in range(len(ns)):
            for cand in _shrink_str(ns[i]):
                yield {"op": "names", "ns": ns[:i] + [cand] + ns[i + 1:]}
        return
    if c["op"] == "run" and c.get("prev"):
        prev = c["prev"]
        for i in range(len(prev)):
            yield dict(c, prev=prev[:i] + prev[i + 1:])
        if c.get("pipe"):
            yield dict(c, pipe=0)
        for i, p in enumerate(prev):
            if p["head"]:
                yield dict(c, prev=prev[:i] + [dict(p, head=0)] + prev[i + 1:])
            for cand in _shrink_script(dict(p, op="run", v11=1, close=0)):
                yield dict(c, prev=prev[:i] + [{"head": cand["head"], "ops": cand["ops"]}] + prev[i + 1:])
    if c["op"] == "run" and c.get("conn") is not None:
        yield {k: v for k, v in c.items() if k != "conn"}
        v = bytes.fromhex(c["conn"])
        for i in range(len(v)):
            yield dict(c, conn=(v[:i] + v[i + 1:]).hex())
    yield from _shrink_script(c)


def _shrink_script(c):
    if c["op"] != "run":
        if c["op"] == "san":
            x = bytes.fromhex(c["x"])
            for i in range(len(x)):
                yield {"op": "san", "x": (x[:i] + x[i + 1:]).hex()}
        return
    ops = c["ops"]
    for i in range(len(ops)):
        if ops[i][0] != "f" or sum(1 for o in ops if o[0] == "f") > 1:
            yield dict(c, ops=ops[:i] + ops[i + 1:])
    for flag in ("close", "head"):
        if c.get(flag):
            yield dict(c, **{flag: 0})
    for i, op in enumerate(ops):
        if op[0] == "w" and len(op[1]) > 2:
            yield dict(c, ops=ops[:i] + [["w", op[1][:len(op[1]) // 4 * 2]]] + ops[i + 1:])
        if op[0] == "sc" and op[2]:
            b = bytes.fromhex(op[2])
            for j in range(len(b)):
                yield dict(c, ops=ops[:i] + [["sc", op[1], (b[:j] + b[j + 1:]).hex()]] + ops[i + 1:])
        if op[0] == "sr":
            vs = op[2]
            if len(op) > 3:
                yield dict(c, ops=ops[:i] + [op[:3]] + ops[i + 1:])            # a fresh list instead of the shared one
                if len(op) > 4 and op[4] is not None:
                    yield dict(c, ops=ops[:i] + [op[:4]] + ops[i + 1:])
            for j in range(len(vs)):
                yield dict(c, ops=ops[:i] + [[op[0], op[1], vs[:j] + vs[j + 1:]] + op[3:]] + ops[i + 1:])
                for cand in _shrink_str(vs[j]):
                    yield dict(c, ops=ops[:i] + [[op[0], op[1], vs[:j] + [cand] + vs[j + 1:]] + op[3:]] + ops[i + 1:])
        if op[0] in ("sh", "ah", "ck", "sr", "rm"):
            for pos in range(1, len(op)):
                s = op[pos]
                if isinstance(s, list) and len(s) == 2 and s[0] in KINDS:
                    for cand in _shrink_str(s):
                        yield dict(c, ops=ops[:i] + [op[:pos] + [cand] + op[pos + 1:]] + ops[i + 1:])
                    if op[0] == "ck" and pos >= 3:
                        yield dict(c, ops=ops[:i] + [op[:pos] + [None] + op[pos + 1:]] + ops[i + 1:])


def _piece_class(b):
    if b in (b"\n", b"\r", b"\r\n"):
        return {b"\n": "lf", b"\r": "cr", b"\r\n": "crlf"}[b]
    if all(ch in b"\r\n" for ch in b):
        return "breaks"
    if any(ch in b"\r\n" for ch in b):
        return "break+"
    if any(ch in b"\x00\x0b\x0c\x1c\x1d\x1e\x1f\x85" for ch in b):
        return "ctlspace"
    if any(ch in b" \t" for ch in b):
        return "blank"
    if any(ch >= 0x7f for ch in b):
        return "8bit"
    if any(ch < 0x20 for ch in b):
        return "ctl"
    return "delim"


def _name_class(s):
    """ok | empty | nonlatin1 | almost:<where>:<what> (a token with one foreign run) | bad"""
    x = unS(s)
    if isinstance(x, str):
        try:
            x = x.encode("latin-1")
        except UnicodeEncodeError:
            return "nonlatin1"
    if _is_token(x):
        return "ok"
    if not x:
        return "empty"
    bad = [i for i, ch in enumerate(x) if ch not in _TCHAR]
    lo, hi = bad[0], bad[-1]
    if hi - lo + 1 != len(bad) or len(bad) == len(x):
        return "bad" if len(bad) != len(x) else "alien:" + _piece_class(x)
    where = "end" if hi == len(x) - 1 else ("start" if lo == 0 else "mid")
    return f"almost:{where}:{_piece_class(x[lo:hi + 1])}"


def tag(c, out):
    if c["op"] == "name":
        return "name:" + c["n"][0] + ":" + _name_class(c["n"]) + (":refused" if out.startswith("!") else ":ok")
    if c["op"] == "names":
        return "names:" + ",".join(n[0] + ":" + _name_class(n) for n in c["ns"][:4]) + ":" + \
            "".join("r" if o.startswith("!") else "a" for o in out.split(",")[:6])
    if c["op"] == "san":
        x = bytes.fromhex(c["x"])
        return "san:" + "".join(ch for ch, b in (("r", 13), ("n", 10), ("0", 0), ("v", 11), ("f", 12)) if b in x) + \
            (":end" if x[-1:] in (b"\r", b"\n") else "")
    if out.startswith("!"):
        return "run:" + out
    e = expected(c)
    f = _fields(out.split(SEP)[-1])
    if e is None:
        return "run:nothing-written"
    raw = _unhx(f["out"])
    framing = "chunked" if b"Transfer-Encoding: chunked\r\n" in raw else ("counted" if b"content-length" in e["headers"] else
                                                                          ("none" if e["nobody"] else "close"))
    kinds = ",".join(sorted(set(o[0] + ("!" if i in e["refused"] else "") for i, o in enumerate(c["ops"]))))
    names = ",".join(sorted(set(nc for nc in (_name_class(o[1]) for o in c["ops"] if o[0] in ("sh", "ah", "sr", "rm")) if nc != "ok")))
    return (f"run:{'1.1' if c['v11'] else '1.0'}:{'HEAD' if c['head'] else 'GET'}:{e['status'] // 100}xx:{framing}:"
            f"{'wf' if e['wf'] else 'illformed'}{_hostile_where(c)}:{kinds}:w{min(3, sum(1 for o in c['ops'] if o[0] == 'w'))}"
            f":closed{f['closed']}" + (f":names[{names}]" if names else "") + _ctx_tag(c))


def _ctx_tag(c):
    """what is new in the context: the request's Connection header, earlier requests on the connection, argument objects"""
    t = ""
    if c.get("conn") is not None:
        v = bytes.fromhex(c["conn"]).lower()
        t += ":conn[" + ("close" if v == b"close" else "keep-alive" if v == b"keep-alive" else
                         "has-close" if b"close" in v else "has-keep-alive" if b"keep-alive" in v else "other") + "]"
    if c.get("prev"):
        t += f":after{min(3, len(c['prev']))}" + ("p" if c.get("pipe") else "s") + \
            ("H" if any(p["head"] for p in c["prev"]) else "")
    kinds = set()
    for o in c["ops"]:
        if o[0] == "sr" and len(o) > 3 and o[3] is not None:
            kinds.add("shared-list" + ("+mutated" if len(o) > 4 and o[4] is not None else ""))
        for x in o[1:]:
            for y in (x if isinstance(x, list) and x and isinstance(x[0], list) else [x]):
                if isinstance(y, list) and len(y) == 2 and y[0] in ("bs", "ts"):
                    kinds.add(y[0])
    return (":obj[" + ",".join(sorted(kinds)) + "]") if kinds else ""


def search(rng, tier, disagreeing):
    """property-directed: every hostile byte in every position class (reason, value, cookie part, name)"""
    for v11 in (1, 0):
        for h in HOSTILE[:6] + [b"\r\n\r\n"]:
            pay = b"a" + h + b"X-Injected: yes"
            yield {"op": "run", "v11": v11, "head": 0, "close": 0, "ops": [["sc", 200, pay.hex()], ["w", "61"], ["f"]]}
            yield {"op": "run", "v11": v11, "head": 0, "close": 0, "ops": [["sh", S(b"X-A"), S(pay)], ["w", "61"], ["f"]]}
            yield {"op": "run", "v11": v11, "head": 0, "close": 0, "ops": [["ah", S(b"X-A"), S(pay.decode("latin-1"))], ["w", "61"], ["f"]]}
            yield {"op": "run", "v11": v11, "head": 0, "close": 0, "ops": [["sh", S(pay), S(b"v")], ["w", "61"], ["f"]]}
            for pos in range(1, 8):
                op = ["ck", S(b"k"), S(b"v"), None, None, None, None, None, 0, 0, None]
                op[pos] = S(pay)
                yield {"op": "run", "v11": v11, "head": 0, "close": 0, "ops": [op, ["w", "61"], ["f"]]}
    for c in disagreeing[:20]:
        yield from shrink(c)
