"""C45 — jelly security policy and round trip: real `jelly.unjelly` under a real `SecurityOptions`, with
`jelly.namedAny/namedObject/_createBlank` and `builtins.__import__` wrapped by logging shims,
vs the Lean model (`TwistedModel/Spread/Jelly.lean`); plus the property oracle on the real code
(every import / resolution / instantiation / returned object is allowed by the policy) and the
jelly→unjelly round trip of random allowed object graphs (shared, cyclic): oracle by graph isomorphism on the real
objects, and tie of the heap model (`TwistedModel/Spread/JellyHeap.lean`: same jelly s-expression, isomorphic result heap)."""
import builtins
import datetime
import decimal
import itertools
import json
import sys
import types
import warnings

from twisted.persisted.crefutil import NotKnown, _Container
from twisted.spread import jelly

HEADLINE = "TwistedProps.C45.only_allowed_resolved"
RULE = ("grammar-based s-expressions over every jelly type tag (bytes and str tags), names of real dangerous callables "
        "(os.system, subprocess.Popen, builtins.eval, re-exports of them through an allowed module, submodules, nested "
        "classes, metaclass classes, a subclass of an allowable class), registry/factory tags, reference/dereference with "
        "small id pools, malformed shapes; "
        "policies built through the SecurityOptions API (allowTypes/allowModules/allowInstancesOf/allowBasicTypes) from "
        "random subsets, every argument form the API accepts (type names as bytes / str / class objects, modules as bytes / "
        "str / module objects whose __package__ differs from their __name__); random allowed object graphs for the round "
        "trip (lists, tuples, sets, frozensets, dicts, instances with and without __setstate__, of a subclass, of a "
        "Jellyable serialised through jellyFor, an instance's state object possibly a node of the graph itself, bound "
        "methods of instances of the graph; every leaf kind - bytes, int, str, None, bool, float, Decimal, date, time, "
        "datetime, timedelta, class, function, module - with empty / zero / negative / large / microsecond values; shared "
        "and cyclic; with the policy passed or with jelly()/unjelly()'s default taster), "
        "each run through the real jelly/unjelly and through the heap model; distinct = (op, outcome class, set of type tags "
        "used, which event kinds occurred, quirk flag) / for round trips (outcome, container kinds, number of references)")
ASSUMES = [
    "the world (what names import / resolve to) is the fixed table tied by the `world` case: synthetic modules c45safe, "
    "c45safe.sub, c45evil plus os, os.path, subprocess, builtins; the Lean theorems quantify over every world",
    "a non-class, non-module attribute of an allowed module (a function, a constant) counts as allowed: the policy names "
    "modules, classes and types only",
    "payloads of the scalar atoms (decimal, datetime, date, time, timedelta) are well-formed or absent",
    "no persistentLoad / invoker; registered unjellyable classes have no postUnjelly",
    "a module object given to allowModules stands for its __name__ (oracle: table MODULE_OBJ_NAME; model: ModArg.obj); "
    "a class object given to allowTypes allows nothing (its str key never equals a bytes type name)",
    "the oracle's type-tag clause: a list / tuple / dict / function / class / module in the result needs the tag that "
    "builds it (list, tuple, dictionary, function or method, class, module) among the allowed types; sets, frozensets "
    "and scalars are allowed by SecurityOptions() itself",
    "inputs on which a NotKnown placeholder flows into a set, a dict key, a reference binding or a method self "
    "(model flag q=1) are compared by inclusion (implementation events a prefix of the model's, returned descriptors a "
    "subset): there the model is an over-approximation of the in-place patching",
    "dictionary keys inside one dictionary are distinct; elements of one set / frozenset that are == (1, True, 1.0) "
    "are merged by Python and kept apart by the model: the tie accepts fewer bool/int/float/decimal descriptors there",
    "reference ids are compared structurally by the model: an int id and a numerically equal float id (1 and 1.0, one "
    "dict key in Python) are not mixed in one s-expression",
    "round trip (heap model): leaves (None, str, bool, Decimal, dates, classes, functions, modules) are identified with "
    "their jelly [tag, atom...] - the per-leaf conversions are checked by the oracle on the real objects only (== on the "
    "values, so Decimal('-0') == Decimal('0'); NaN decimals and datetimes with tzinfo are not generated); bound methods "
    "are not in the heap model (graphs holding one are oracle-only; only methods whose function is in the instance's own "
    "class __dict__, never as a dict key / set element); a Jellyable instance is the heap instance whose state is its "
    "__dict__ (jellyFor = prepare / [qual, jelly(getStateFor)] / preserve); Unjellyable hooks and persistentStore are not in the heap model; dict keys / set elements are "
    "compared as model references (same leaf or same object), Python == between distinct references is not modelled",
    "round trip theorem jelly_unjelly_roundtrip_partial: the graph is acyclic (a rank decreases along every edge) and "
    "well formed (RT.WF); cyclic graphs are covered by the differential tie and the oracle only",
]
TRUSTED = ["logging shims around jelly.namedAny/namedObject/_createBlank and builtins.__import__ (calls from jelly.py / reflect.py only)"]
MANIFEST = {
    "text": "Lean theorems (TwistedProps/C45.lean) over every world, policy, registry and s-expression: every name "
            "resolved, every module imported and every class instantiated by the model of _Unjellier is allowed by the "
            "policy (or registered), and so is every class/module/instance in the result; model tied to jelly.py by "
            "differential runs with instrumented namedAny/namedObject/_createBlank/__import__; oracle checks the same on "
            "the real objects, and that every container / function / class / module in the result needs an allowed type "
            "tag. The policy API in every argument form is modelled (Policy.allowModuleArgs / allowTypeArgs) and proved to "
            "allow exactly what the arguments name (allowModuleArgs_exact, allowTypeArgs_classes_nothing). Round trip: heap model of _Jellier (prepare/preserve/_cook) and of _Unjellier with crefutil's "
            "NotKnown patching (TwistedModel/Spread/JellyHeap.lean), tied to the real jelly/unjelly on every random graph "
            "(same s-expression, isomorphic result); theorem jelly_unjelly_roundtrip_partial: for every acyclic graph with "
            "arbitrary sharing unjelly(jelly(g)) is an isomorphic copy (simulation proof, induction on the jellier's "
            "recursion); cyclic graphs: oracle (graph isomorphism on the real objects) + tie only; counterexample theorems "
            "for the two findings roundtrip-notknown-dict-key and roundtrip-notknown-instance-state.",
    "note": "trusts Lean kernel, the hand-written models of _Unjellier/SecurityOptions/reflect and of the jellier/unjellier heaps (differentially tied), the fixed world table",
    "technique": "Lean 4 proof (Hoare-style invariant over the unjellier monad, induction on recursion depth; simulation relation jellier/unjellier for the round trip) + differential tie + oracle",
    "design_ref": "DESIGN.md §7 C45",
}

# ----------------------------------------------------------------------------------------
# the world: real modules


class _Other:
    """a plain (hashable, non-callable) object living in a module / class"""


def _install_world():
    if "c45safe" in sys.modules:
        return
    import os
    import subprocess

    safe = types.ModuleType("c45safe")
    safe.__path__ = []
    sub = types.ModuleType("c45safe.sub")
    evil = types.ModuleType("c45evil")

    def mkfunc(mod, qualname):
        def f(*a, **k):
            return None
        f.__module__ = mod
        f.__name__ = qualname.split(".")[-1]
        f.__qualname__ = qualname
        return f

    def mkcls(mod, qualname, bases=(), ns=None, meta=type):
        d = {"__module__": mod, "__qualname__": qualname}
        d.update(ns or {})
        return meta(qualname.split(".")[-1], bases, d)

    Nested = mkcls("c45safe", "A.Nested")
    attrval = _Other()
    A = mkcls("c45safe", "A", ns={"meth": mkfunc("c45safe", "A.meth"), "Nested": Nested, "attrval": attrval})
    B = mkcls("c45safe", "B")
    ASub = mkcls("c45safe", "ASub", bases=(A,))          # a subclass of an allowable class, defines nothing itself
    J = mkcls("c45safe", "J", bases=(jelly.Jellyable,))  # serialised through the `jellyFor` hook

    def __setstate__(self, state):
        self.st = state

    def __getstate__(self):
        return self.st
    S = mkcls("c45safe", "S", ns={"__setstate__": __setstate__, "__getstate__": __getstate__})
    Hidden = mkcls("c45safe", "Hidden")

    class M(type):
        pass
    Meta = mkcls("c45safe", "Meta", meta=M)
    RC = mkcls("c45safe", "RC", bases=(jelly.Unjellyable,))

    def rp_init(self, unjellier=None, obj=None):
        pass
    RP = mkcls("c45safe", "RP", ns={"__init__": rp_init})
    const = _Other()
    lst = []
    safe.__package__, sub.__package__, evil.__package__ = "c45safe", "c45safe", ""     # as the import system sets them
    for k, v in dict(A=A, B=B, ASub=ASub, J=J, S=S, Hidden=Hidden, Meta=Meta, RC=RC, RP=RP, func=mkfunc("c45safe", "func"),
                     system=os.system, Popen=subprocess.Popen, os=os, const=const, lst=lst, sub=sub).items():
        setattr(safe, k, v)
    sub.C = mkcls("c45safe.sub", "C")
    sub.g = mkfunc("c45safe.sub", "g")
    evil.E = mkcls("c45evil", "E")
    evil.pwn = mkfunc("c45evil", "pwn")
    sys.modules["c45safe"] = safe
    sys.modules["c45safe.sub"] = sub
    sys.modules["c45evil"] = evil
    _OTHER_IDS[id(const)] = "c45safe.const"
    _OTHER_IDS[id(lst)] = "c45safe.lst"
    _OTHER_IDS[id(attrval)] = "c45safe.A.attrval"


_OTHER_IDS = {}
# object id → how to reach it (module name, attribute path)
OBJ_PATHS = {
    "c45safe": ("c45safe",), "c45safe.sub": ("c45safe.sub",), "c45evil": ("c45evil",), "os": ("os",),
    "posixpath": ("os.path",), "subprocess": ("subprocess",), "builtins": ("builtins",),
    "c45safe.A": ("c45safe", "A"), "c45safe.B": ("c45safe", "B"), "c45safe.ASub": ("c45safe", "ASub"),
    "c45safe.J": ("c45safe", "J"), "c45safe.S": ("c45safe", "S"),
    "c45safe.Hidden": ("c45safe", "Hidden"), "c45safe.Meta": ("c45safe", "Meta"), "c45safe.RC": ("c45safe", "RC"),
    "c45safe.RP": ("c45safe", "RP"), "c45safe.A.Nested": ("c45safe", "A", "Nested"),
    "c45safe.sub.C": ("c45safe.sub", "C"), "c45evil.E": ("c45evil", "E"), "subprocess.Popen": ("subprocess", "Popen"),
    "c45safe.func": ("c45safe", "func"), "c45safe.A.meth": ("c45safe", "A", "meth"), "c45safe.sub.g": ("c45safe.sub", "g"),
    "c45evil.pwn": ("c45evil", "pwn"), "posix.system": ("os", "system"), "posix.getcwd": ("os", "getcwd"),
    "posixpath.join": ("os.path", "join"), "subprocess.call": ("subprocess", "call"),
    "builtins.eval": ("builtins", "eval"), "builtins.exec": ("builtins", "exec"),
    "c45safe.const": ("c45safe", "const"), "c45safe.lst": ("c45safe", "lst"), "c45safe.A.attrval": ("c45safe", "A", "attrval"),
}
PROBE_ATTRS = ["A", "B", "ASub", "J", "S", "Hidden", "Meta", "RC", "RP", "func", "system", "Popen", "os", "const", "lst", "sub",
               "C", "g", "E", "pwn", "path", "getcwd", "join", "call", "eval", "exec", "meth", "Nested", "attrval", "nosuch"]
PROBE_IMPORTS = ["c45safe", "c45safe.sub", "c45evil", "os", "os.path", "subprocess", "builtins",
                 "c45safe.A", "c45safe.nosuch", "c45nomod", "c45safe.func", "os.system", "c45evil.E"]
CLASS_IDS = ["c45safe.A", "c45safe.B", "c45safe.ASub", "c45safe.J", "c45safe.S", "c45safe.Hidden", "c45safe.Meta", "c45safe.RC", "c45safe.RP",
             "c45safe.A.Nested", "c45safe.sub.C", "c45evil.E", "subprocess.Popen"]


QUAL = {"c45safe.A.Nested": "c45safe.Nested"}          # reflect.qual uses __name__, not __qualname__
CLS_MODULE = {"c45safe.A.Nested": "c45safe"}


def obj_of(oid):
    _install_world()
    path = OBJ_PATHS[oid]
    o = sys.modules[path[0]]
    for a in path[1:]:
        o = getattr(o, a)
    return o


def obj_id(o):
    if isinstance(o, types.ModuleType):
        return o.__name__
    if isinstance(o, type) or isinstance(o, (types.FunctionType, types.BuiltinFunctionType)):
        return f"{o.__module__}.{o.__qualname__}"
    return _OTHER_IDS.get(id(o), "?" + type(o).__name__)


def _kind(o):
    if isinstance(o, types.ModuleType):
        return "module"
    if isinstance(o, type):
        return "cls:1" if type(o) is type else "cls:0"
    if isinstance(o, (types.FunctionType, types.BuiltinFunctionType)):
        return "func"
    try:
        hash(o)
        return "other:1"
    except TypeError:
        return "other:0"


def dump_world():
    """the world table, by introspection of the real objects (same format as Drv/C45 dumpWorld)"""
    _install_world()
    out = []
    for n in PROBE_IMPORTS:
        try:
            __import__(n)
            out.append(f"imp:{n}={obj_id(sys.modules[n])}")
        except ImportError:
            out.append(f"imp:{n}=-")
    ids = list(OBJ_PATHS)
    for oid in ids:
        o = obj_of(oid)
        assert obj_id(o) == oid, (oid, obj_id(o))
        extra = ""
        if isinstance(o, type):
            extra = f":ss{1 if hasattr(o, '__setstate__') else 0}:{jelly.qual(o)}:{o.__module__}"
        out.append(f"kind:{oid}={_kind(o)}:c{1 if callable(o) else 0}{extra}")
    for oid in ids:
        o = obj_of(oid)
        for a in PROBE_ATTRS:
            try:
                r = getattr(o, a)
            except AttributeError:
                continue
            out.append(f"attr:{oid}.{a}={obj_id(r)}")
    for oid in ids:
        o = obj_of(oid)
        if isinstance(o, type):
            for a in PROBE_ATTRS:
                if a in o.__dict__:
                    out.append(f"cd:{oid}.{a}={obj_id(o.__dict__[a])}")
    return "|".join(out)


# ----------------------------------------------------------------------------------------
# case encoding

def to_py(x):
    if isinstance(x, list):
        return [to_py(y) for y in x]
    if "b" in x:
        return bytes.fromhex(x["b"])
    if "s" in x:
        return x["s"]
    if "i" in x:
        return int(x["i"])
    return float(x["f"])


def tokens(x, out):
    if isinstance(x, list):
        out.append("(")
        for y in x:
            tokens(y, out)
        out.append(")")
    elif "b" in x:
        out.append("b:" + x["b"])
    elif "s" in x:
        out.append("s:" + x["s"].encode("utf-8").hex())
    elif "i" in x:
        out.append(f"i:{int(x['i'])}")
    else:
        out.append("f:" + x["f"])


def B(s):
    return {"b": (s if isinstance(s, bytes) else s.encode("utf-8")).hex()}


# how a policy op passes its arguments to the SecurityOptions API (every form the API accepts):
#   T / M   bytes            Ts / Ms  the same names as str           Mo  module objects (allowed by their `__name__`)
#   Tc      class objects to allowTypes: stored under the *str* `qual(cls)`, a key no (bytes) type name ever equals -
#           and a dotted type name passes `isTypeAllowed` anyway: allows nothing new
# the name a module object stands for is taken from this table by the oracle (the case alone), never from
# SecurityOptions; the model has its own reading of each form (`Policy.allowModuleArgs` / `allowTypeArgs`)
MODULE_OBJ_NAME = {"c45safe": "c45safe", "c45safe.sub": "c45safe.sub", "c45evil": "c45evil", "os": "os",
                   "posixpath": "posixpath", "subprocess": "subprocess", "builtins": "builtins"}


def op_module_names(op):
    """the module names (bytes) an M / Ms / Mo op allows"""
    if op[0] in ("M", "Ms"):
        return [bytes.fromhex(h) for h in op[1]]
    if op[0] == "Mo":
        return [MODULE_OBJ_NAME[k].encode() for k in op[1]]
    return []


def policy_token(ops):
    toks = []
    for op in ops:
        if op[0] == "B":
            toks.append("B")
        elif op[0] in ("T", "Ts", "M", "Ms"):
            toks.append(op[0] + ":" + ",".join("x" + bytes.fromhex(h).hex() for h in op[1]))
        else:      # Mo / Tc / I: object ids (the model decides what allowing such an object means)
            toks.append(op[0] + ":" + ",".join(op[1]))
    return ";".join(toks) if toks else "-"


def reg_token(reg):
    if not reg:
        return "-"
    return ";".join(f"c:{e[1]}:{e[2]}:{e[3]}" if e[0] == "c" else f"f:{e[1]}:{e[2]}" for e in reg)


def model_line(c):
    if c["op"] == "world":
        return "world"
    if c["op"] == "unjelly":
        t = []
        tokens(c["sexp"], t)
        return f"unjelly {policy_token(c['policy'])} {reg_token(c['reg'])} {','.join(t)}"
    if c["op"] == "roundtrip":
        if _has_methods(c):
            return None      # bound methods (`method` atom, `_InstanceMethod`) are not in the heap model: oracle only
        try:
            root, nodes = extract_heap(_graph_for(c))
        except ValueError:
            return None      # unbuildable graph (a cycle through immutables only)
        return f"rt {RT_FUEL} {root} {nodes}"
    return None


def build_policy(ops):
    _install_world()
    p = jelly.SecurityOptions()
    for op in ops:
        if op[0] == "B":
            p.allowBasicTypes()
        elif op[0] == "T":
            p.allowTypes(*[bytes.fromhex(h) for h in op[1]])
        elif op[0] == "Ts":
            p.allowTypes(*[bytes.fromhex(h).decode("utf-8") for h in op[1]])
        elif op[0] == "Tc":
            p.allowTypes(*[obj_of(k) for k in op[1]])
        elif op[0] == "M":
            p.allowModules(*[bytes.fromhex(h) for h in op[1]])
        elif op[0] == "Ms":
            p.allowModules(*[bytes.fromhex(h).decode("utf-8") for h in op[1]])
        elif op[0] == "Mo":
            p.allowModules(*[obj_of(k) for k in op[1]])
        else:
            p.allowInstancesOf(*[obj_of(k) for k in op[1]])
    return p


def allowed_sets(ops, reg):
    """what the policy allows, computed from the case alone (not by asking SecurityOptions)"""
    init = ["None", "bool", "boolean", "string", "str", "int", "float", "datetime", "time", "date", "timedelta",
            "NoneType", "unicode", "decimal", "set", "frozenset"]
    basic = ["dictionary", "list", "tuple", "reference", "dereference", "unpersistable", "persistent", "long_int", "long", "dict"]
    ts, ms, cs = {t.encode() for t in init}, set(), []
    for op in ops:
        if op[0] == "B":
            ts |= {t.encode() for t in basic}
        elif op[0] in ("T", "Ts"):
            ts |= {bytes.fromhex(h) for h in op[1]}
        elif op[0] == "Tc":
            ts |= {QUAL.get(k, k).encode() for k in op[1]}
        elif op[0] in ("M", "Ms", "Mo"):
            ms |= set(op_module_names(op))
        else:
            ts |= {t.encode() for t in basic + ["instance", "class", "classobj", "module"]}
            for k in op[1]:
                ts.add(QUAL.get(k, k).encode())
                ms.add(CLS_MODULE.get(k, k.rsplit(".", 1)[0]).encode())
                cs.append(k)
    regs = [e[2] for e in reg]
    return ts, ms, cs, regs


# ----------------------------------------------------------------------------------------
# running the real code

class _Shims:
    def __init__(self):
        self.events = []
        self.unjelliers = []

    def __enter__(self):
        ev = self.events
        self.saved = (jelly.namedAny, jelly.namedObject, jelly._createBlank, builtins.__import__, jelly._Unjellier)
        real_any, real_obj, real_blank, real_import, real_unj = self.saved

        def namedAny(name):
            ev.append(("r", name))
            return real_any(name)

        def namedObject(name):
            ev.append(("r", name))
            return real_obj(name)

        def _createBlank(cls):
            if isinstance(cls, type):
                ev.append(("n", cls))
            return real_blank(cls)

        def __import__(name, *a, **k):
            caller = sys._getframe(1).f_globals.get("__name__")
            if caller not in ("twisted.python.reflect", "twisted.spread.jelly"):
                return real_import(name, *a, **k)
            try:
                r = real_import(name, *a, **k)
            except ImportError:
                ev.append(("i-", name))
                raise
            ev.append(("i+", name))
            return r

        shim = self

        class Recording(real_unj):
            def __init__(self, *a, **k):
                real_unj.__init__(self, *a, **k)
                shim.unjelliers.append(self)

        jelly.namedAny, jelly.namedObject, jelly._createBlank = namedAny, namedObject, _createBlank
        builtins.__import__ = __import__
        jelly._Unjellier = Recording
        return self

    def __exit__(self, *a):
        jelly.namedAny, jelly.namedObject, jelly._createBlank, builtins.__import__, jelly._Unjellier = self.saved


class _Registry:
    def __init__(self, reg):
        self.reg = reg

    def __enter__(self):
        self.saved = (dict(jelly.unjellyableRegistry), dict(jelly.unjellyableFactoryRegistry))
        for e in self.reg:
            tag = bytes.fromhex(e[1])
            cls = obj_of(e[2])
            if e[0] == "c":
                jelly.unjellyableRegistry[tag] = cls
            else:
                def factory(state, cls=cls):
                    o = cls.__new__(cls)
                    o._c45_payload = state
                    return o
                jelly.unjellyableFactoryRegistry[tag] = factory

    def __exit__(self, *a):
        jelly.unjellyableRegistry.clear()
        jelly.unjellyableRegistry.update(self.saved[0])
        jelly.unjellyableFactoryRegistry.clear()
        jelly.unjellyableFactoryRegistry.update(self.saved[1])


def canon_exc(e):
    for cls, name in ((jelly.InsecureJelly, "InsecureJelly"), (UnicodeError, "UnicodeError"), (ImportError, "ImportError"),
                      (ValueError, "ValueError"), (IndexError, "IndexError"), (AttributeError, "AttributeError"),
                      (TypeError, "TypeError"), (AssertionError, "AssertionError")):
        if isinstance(e, cls):
            return name
    return type(e).__name__


_SCALARS = {decimal.Decimal: "decimal", datetime.datetime: "datetime", datetime.date: "date", datetime.time: "time",
            datetime.timedelta: "timedelta", bytes: "bytes", str: "str", int: "int", float: "float", bool: "bool",
            type(None): "None"}


def reachable(roots):
    """every object reachable from the result / the bound references (through containers, instance state, method self,
    NotKnown internals)"""
    seen, order, todo = set(), [], list(roots)
    while todo:
        o = todo.pop()
        if id(o) in seen:
            continue
        seen.add(id(o))
        order.append(o)
        if id(o) in _OTHER_IDS:
            continue
        if isinstance(o, NotKnown):
            if isinstance(o, _Container):
                todo.extend(o.l)
            if o.resolved:
                todo.append(o.resolvedObject)
        elif type(o) in (list, tuple, set, frozenset):
            todo.extend(o)
        elif type(o) is dict:
            todo.extend(o.keys())
            todo.extend(o.values())
        elif isinstance(o, types.MethodType):
            todo.append(o.__self__)
        elif type(o) in _world_classes():
            d = vars(o)
            if "_c45_payload" in d:
                todo.append(d["_c45_payload"])
            elif obj_id(type(o)) == "c45safe.S":
                todo.extend(d.values())
            else:
                todo.extend(d.keys())
                todo.extend(d.values())
    return order


_WC = []


def _world_classes():
    if not _WC:
        _WC.extend(obj_of(k) for k in CLASS_IDS)
    return _WC


def descriptors(objs):
    out = set()
    for o in objs:
        t = type(o)
        if id(o) in _OTHER_IDS:
            out.add("obj:" + _OTHER_IDS[id(o)])
            continue
        if isinstance(o, NotKnown) or t in (list, tuple, set, frozenset, dict):
            continue
        if t in _SCALARS:
            out.add(_SCALARS[t])
        elif t is jelly.Unpersistable:
            out.add("Unpersistable")
        elif isinstance(o, types.MethodType):
            out.add("method")
        elif t in _world_classes():
            out.add("inst:" + obj_id(t))
        else:
            out.add("obj:" + obj_id(o))
    return out


_LAST = {}


def _run_unjelly(c):
    _install_world()
    pol = build_policy(c["policy"])
    sexp = to_py(c["sexp"])
    info = {"result": None, "refs": [], "exc": None}
    with _Registry(c["reg"]), _Shims() as sh, warnings.catch_warnings():
        warnings.simplefilter("ignore")
        try:
            info["result"] = jelly.unjelly(sexp, pol)
            info["ok"] = True
        except RecursionError:
            raise
        except Exception as e:  # noqa: BLE001 - every exception class is an observable
            info["ok"] = False
            info["exc"] = canon_exc(e)
        if sh.unjelliers:
            info["refs"] = list(sh.unjelliers[0].references.values())
    info["events"] = sh.events
    return info


def _fmt_events(events):
    out = []
    for k, v in events:
        out.append(f"{k}:{obj_id(v) if k == 'n' else v}")
    return ";".join(out) if out else "-"


def run_impl(c):
    if c["op"] == "world":
        return dump_world()
    if c["op"] == "roundtrip":
        info = _run_roundtrip(c)
        _LAST["case"], _LAST["info"] = json.dumps(c, sort_keys=True), info
        return info["out"]
    info = _run_unjelly(c)
    _LAST["case"], _LAST["info"] = json.dumps(c, sort_keys=True), info
    ev = _fmt_events(info["events"])
    if not info["ok"]:
        return f"!raised {info['exc']} ev={ev} res=-"
    ds = sorted(descriptors(reachable([info["result"]] + info["refs"])))
    return f"ok ev={ev} res={','.join(ds) if ds else '-'}"


def _split(out):
    head, _, rest = out.partition(" ev=")
    ev, _, rest = rest.partition(" res=")
    res, _, q = rest.partition(" q=")
    return head, ([] if ev == "-" else ev.split(";")), (set() if res == "-" else set(res.split(","))), q


def _res_match(c, ires, mres):
    """result descriptors agree; a set / frozenset / dict merges elements that are `==` (1, True, 1.0, Decimal(1)),
    which the model keeps apart: there the implementation may show fewer of these number kinds, nothing else"""
    if ires == mres:
        return True
    used = set()
    _tags_used(c["sexp"], used)
    return bool(used & {"set", "frozenset", "dictionary"}) and ires <= mres and mres - ires <= {"bool", "int", "float", "decimal"}


def compare(c, impl_out, model_out):
    if c["op"] == "roundtrip":
        return compare_roundtrip(impl_out, model_out)
    if c["op"] != "unjelly":
        return impl_out == model_out
    ih, iev, ires, _ = _split(impl_out)
    mh, mev, mres, q = _split(model_out)
    if q == "0":
        return (ih, iev) == (mh, mev) and _res_match(c, ires, mres)
    if q != "1":
        return False
    # over-approximation: the implementation may have raised earlier (while patching placeholders in place)
    if ih == "ok":
        return mh == "ok" and iev == mev and ires <= mres
    return mev[:len(iev)] == iev and (mh == ih or len(iev) <= len(mev))


# ----------------------------------------------------------------------------------------
# the property on the implementation

_CONTAINER_TAG = {list: b"list", tuple: b"tuple", set: b"set", frozenset: b"frozenset", dict: b"dictionary"}


def oracle(c, out):
    if c["op"] == "world":
        return None
    if _LAST.get("case") != json.dumps(c, sort_keys=True):
        run_impl(c)
    info = _LAST["info"]
    if c["op"] == "roundtrip":
        return info["fail"]
    ts, ms, cs, regs = allowed_sets(c["policy"], c["reg"])
    cls_ok = [obj_of(k) for k in cs]
    reg_ok = [obj_of(k) for k in regs]
    mods_ok = [sys.modules.get(m.decode("utf-8", "replace")) for m in ms]
    for k, v in info["events"]:
        if k == "i+" and not any(m == v.encode("utf-8") or m.startswith(v.encode("utf-8") + b".") for m in ms):
            return {"key": "import-not-allowed", "detail": f"imported module {v!r}; allowed modules {sorted(ms)}"}
        if k == "r" and v.encode("utf-8") not in ms and ".".join(v.split(".")[:-1]).encode("utf-8") not in ms:
            return {"key": "resolve-not-allowed", "detail": f"resolved {v!r} outside the allowed modules {sorted(ms)}"}
        if k == "n" and not any(v is x for x in cls_ok + reg_ok):
            return {"key": "instantiate-not-allowed", "detail": f"instantiated {obj_id(v)}; allowed classes {cs} registered {regs}"}
    if info["ok"]:
        for o in reachable([info["result"]] + info["refs"]):
            # "built only from types the policy allows": a container / function / class / module in the result was
            # made by the handler of a type tag, and that tag must be one the policy allows
            need = _CONTAINER_TAG.get(type(o))
            if isinstance(o, types.ModuleType):
                need = b"module"
            elif isinstance(o, type):
                need = b"class"
            elif isinstance(o, (types.FunctionType, types.BuiltinFunctionType)):
                need = b"function" if b"function" in ts else b"method"      # `[method, name, [None], cls]` gives the function
            if need is not None and need not in ts:
                return {"key": "type-not-allowed", "detail": f"result holds a {type(o).__name__} but the type {need!r} is not allowed; allowed types {sorted(ts)}"}
            if isinstance(o, types.ModuleType):
                if not any(o is m for m in mods_ok):
                    return {"key": "returns-module-not-allowed", "detail": f"result holds module {o.__name__}; allowed modules {sorted(ms)}"}
            elif isinstance(o, type):
                if not any(o is x for x in cls_ok):
                    return {"key": "returns-class-not-allowed", "detail": f"result holds class {obj_id(o)}; allowed classes {cs}"}
            elif type(o) in _world_classes():
                if not any(type(o) is x for x in cls_ok + reg_ok):
                    return {"key": "instance-not-allowed", "detail": f"result holds an instance of {obj_id(type(o))}; allowed {cs} registered {regs}"}
    return None


# ----------------------------------------------------------------------------------------
# round trip of allowed object graphs

RT_POLICY = [["B"], ["T", [t.encode().hex() for t in ("function", "method")]],
             ["I", ["c45safe.A", "c45safe.B", "c45safe.S", "c45safe.ASub", "c45safe.J"]]]
_ATOMS = ("bytes", "int", "str", "none", "bool", "float", "decimal", "date", "time", "datetime", "timedelta",
          "class", "func", "module")
_INTS = (0, -1, 2 ** 31, -(2 ** 63) - 1, 10 ** 30)
_DECIMALS = ("0.25", "-1.75", "0", "-0.001", "1E+3", "-12345678901234567890.5", "7", "-7E-12")


def _atom_value(n):
    k, v = n["k"], n.get("v", 0)
    if k == "bytes":
        return b"b%d" % v if v else b""
    if k == "int":
        return v * 1000003 if v < 4 else _INTS[v % len(_INTS)]
    if k == "str":
        return "sé%d" % v if v else ""
    if k == "none":
        return None
    if k == "bool":
        return bool(v % 2)
    if k == "float":
        return v + 0.5 if v % 2 == 0 else -v / 8
    if k == "decimal":
        return decimal.Decimal(_DECIMALS[v % len(_DECIMALS)])
    if k == "date":
        return datetime.date(2000 + v % 50, 1 + v % 12, 1 + v % 28) if v else datetime.date.min
    if k == "time":
        return datetime.time(v, 59 - v, v * 7, v * 142857 % 1000000)
    if k == "datetime":
        return datetime.datetime(1999 + v, 12 - v, 1 + v * 3, 23 - v, v, 59, 999999 - v * 100000 if v % 2 else 0)
    if k == "timedelta":
        return datetime.timedelta(days=-v if v % 2 else v * 400, seconds=86399 - v, microseconds=v * 111111)
    if k == "class":
        return obj_of(["c45safe.A", "c45safe.B"][v % 2])
    if k == "func":
        return obj_of("c45safe.func")
    if k == "module":
        return sys.modules["c45safe"]
    raise KeyError(k)


def build_graph(g):
    _install_world()
    nodes = g["nodes"]
    objs = [None] * len(nodes)
    for i, n in enumerate(nodes):
        k = n["k"]
        if k == "list":
            objs[i] = []
        elif k == "dict":
            objs[i] = {}
        elif k == "set":
            objs[i] = set()
        elif k.startswith("inst:"):
            cls = obj_of("c45safe." + k[5:])
            objs[i] = cls.__new__(cls)
        elif k in _ATOMS:
            objs[i] = _atom_value(n)
    for i, n in enumerate(nodes):
        if n["k"] == "meth":
            # a bound method of an instance of the graph (the function is in the instance's own class `__dict__`)
            objs[i] = objs[n["e"][0]].meth
    building = set()

    def imm(i):
        if objs[i] is not None or nodes[i]["k"] == "none":
            return objs[i]
        if i in building:
            raise ValueError("immutable cycle")
        building.add(i)
        kids = [imm(j) for j in nodes[i]["e"]]
        objs[i] = tuple(kids) if nodes[i]["k"] == "tuple" else frozenset(kids)
        return objs[i]
    for i, n in enumerate(nodes):
        if n["k"] in ("tuple", "frozenset"):
            imm(i)
    for i, n in enumerate(nodes):
        k, e = n["k"], n.get("e", [])
        if k == "list":
            objs[i].extend(objs[j] for j in e)
        elif k == "dict":
            for a, b in zip(e[::2], e[1::2]):
                objs[i][objs[a]] = objs[b]
        elif k == "set":
            objs[i].update(objs[j] for j in e)
        elif k.startswith("inst:"):
            if "st" in n:
                # the state is itself a node of the graph: the `__dict__` of an A / B (a dict node), S's `st` (any node)
                if k == "inst:S":
                    objs[i].st = objs[n["st"]]
                elif type(objs[n["st"]]) is dict:
                    objs[i].__dict__ = objs[n["st"]]
            elif k == "inst:S":
                objs[i].st = [objs[j] for j in e]
            else:
                for idx, j in enumerate(e):
                    setattr(objs[i], f"a{idx}", objs[j])
    return objs[g["root"]]


def _iso_solve(work, fwd, bwd, lax=False):
    """is there a bijection of the identity-bearing objects making every pair in `work` equal?  (backtracking
    over the pairings of set elements; `fwd`/`bwd` belong to the current branch)"""
    while work:
        a, b = work.pop()
        if type(a) is not type(b):
            return False
        t = type(a)
        if t in (list, dict, set) or t in _world_classes():
            if id(a) in fwd or id(b) in bwd:
                if fwd.get(id(a)) == id(b) and bwd.get(id(b)) == id(a):
                    continue
                return False
            fwd[id(a)], bwd[id(b)] = id(b), id(a)
        if t in (list, tuple):
            if len(a) != len(b):
                return False
            work.extend(zip(a, b))
        elif t is dict:
            if len(a) != len(b):
                return False
            for (ka, va), (kb, vb) in zip(a.items(), b.items()):
                work.append((ka, kb))
                work.append((va, vb))
        elif t in (set, frozenset):
            if len(a) != len(b):
                return False
            la = list(a)
            for perm in itertools.permutations(list(b)):
                if _iso_solve(work + list(zip(la, perm)), dict(fwd), dict(bwd), lax):
                    return True
            return False
        elif t in _world_classes():
            if lax and not vars(a) and not vars(b):
                continue      # classification only (never the verdict): the identity of an empty `__dict__` is not compared
            work.append((vars(a), vars(b)))
        elif t in (types.ModuleType, type, types.FunctionType):
            if a is not b:
                return False
        elif t is types.MethodType:
            # a bound method has no identity of its own: the same function, bound to the corresponding object
            if a.__func__ is not b.__func__:
                return False
            work.append((a.__self__, b.__self__))
        elif isinstance(a, NotKnown):
            continue          # only when two *results* are compared (tie): an original graph holds no NotKnown
        elif a != b:
            return False
    return True


def _iso(a, b, fwd, bwd):
    """a ≅ b as object graphs: same types/values, mutable objects in bijection (sharing and cycles preserved)"""
    return None if _iso_solve([(a, b)], fwd, bwd) else "the graph is not isomorphic to the original"


RT_FUEL = 400
_GRAPHS = {}


def _graph_for(c):
    """the real object graph of a roundtrip case, built once (model_line and run_impl must see the same sets:
    iteration order of a set of instances depends on their ids)"""
    key = json.dumps(c, sort_keys=True)
    if key not in _GRAPHS:
        if len(_GRAPHS) > 20000:
            _GRAPHS.clear()
        try:
            _GRAPHS[key] = build_graph(c["graph"])
        except ValueError as e:
            _GRAPHS[key] = e
    g = _GRAPHS[key]
    if isinstance(g, ValueError):
        raise g
    return g


def _atom_tok(x, sep):
    if isinstance(x, bytes):
        return f"b{sep}{x.hex()}"
    if isinstance(x, str):
        return f"s{sep}{x.encode('utf-8').hex()}"
    if isinstance(x, bool):
        raise TypeError("bool atom")
    if isinstance(x, int):
        return f"i{sep}{x}"
    if isinstance(x, float):
        return f"f{sep}{x!r}"
    raise TypeError(f"not an atom: {type(x).__name__}")


def sexp_tokens(x, out):
    """a real jelly s-expression in the driver's token syntax"""
    if isinstance(x, list):
        out.append("(")
        for y in x:
            sexp_tokens(y, out)
        out.append(")")
    else:
        out.append(_atom_tok(x, ":"))


_SHAPE = {list: "L", tuple: "T", set: "S", frozenset: "F", dict: "D"}


def _instance_state(o):
    """what `_Jellier.jelly` serialises as the state of an instance (`Jellyable.getStateFor`: always the `__dict__`)"""
    if isinstance(o, jelly.Jellyable):
        return o.__dict__
    return o.__getstate__() if hasattr(o, "__getstate__") else o.__dict__


def _has_methods(c):
    return any(n["k"] == "meth" for n in c["graph"]["nodes"])


def extract_heap(root):
    """a real object graph as the heap of TwistedModel/Spread/JellyHeap.lean: `(root ref, nodes)`; identity-bearing
    objects (containers, instances, an instance's state) get an address, leaves are written as their jelly"""
    pol = build_policy(RT_POLICY)
    addr, nodes = {}, []

    def ref(o):
        t = type(o)
        if t in (bytes, int, float):
            return "a" + _atom_tok(o, "=")
        if t in _SHAPE or t in _world_classes() or isinstance(o, NotKnown):
            if id(o) in addr:
                return f"p{addr[id(o)]}"
            a = len(nodes)
            addr[id(o)] = a
            nodes.append(None)
            if isinstance(o, NotKnown):
                nodes[a] = "N:"
            elif t is dict:
                nodes[a] = "D:" + ",".join(r for k, v in o.items() for r in (ref(k), ref(v)))
            elif t in _SHAPE:
                nodes[a] = _SHAPE[t] + ":" + ",".join([ref(x) for x in o])
            else:
                nodes[a] = f"I.{obj_id(t)}:" + ref(_instance_state(o))
            return f"p{a}"
        j = jelly.jelly(o, pol)              # a leaf is identified with its jelly `[tag, atom…]`
        if not (isinstance(j, list) and j and isinstance(j[0], bytes) and not any(isinstance(x, list) for x in j)):
            raise TypeError(f"not a leaf: {type(o).__name__}")
        return "/".join(["l" + j[0].hex()] + [_atom_tok(x, "=") for x in j[1:]])
    r = ref(root)
    return r, (";".join(nodes) if nodes else "-")


def _atom_of(tok):
    k, _, v = tok.partition("=")
    if k == "b":
        return bytes.fromhex(v)
    if k == "s":
        return bytes.fromhex(v).decode("utf-8")
    if k == "i":
        return int(v)
    if k == "f":
        return float(v)
    raise ValueError(tok)


def heap_to_py(root, nodes):
    """inverse of `extract_heap` (used by the tie to compare two result heaps up to isomorphism)"""
    _install_world()
    pol = build_policy(RT_POLICY)
    nodes = [] if nodes == "-" else [n.split(":", 1) for n in nodes.split(";")]
    objs = [None] * len(nodes)
    for i, (sh, _) in enumerate(nodes):
        if sh == "L":
            objs[i] = []
        elif sh == "D":
            objs[i] = {}
        elif sh == "S":
            objs[i] = set()
        elif sh == "N":
            objs[i] = NotKnown()
        elif sh.startswith("I."):
            cls = obj_of(sh[2:])
            objs[i] = cls.__new__(cls)
    building = set()

    def val(r):
        if r[0] == "p":
            i = int(r[1:])
            if objs[i] is None:
                if i in building:
                    raise ValueError("immutable cycle")
                building.add(i)
                kids = [val(x) for x in nodes[i][1].split(",") if x]
                objs[i] = tuple(kids) if nodes[i][0] == "T" else frozenset(kids)
            return objs[i]
        if r[0] == "a":
            return _atom_of(r[1:])
        parts = r[1:].split("/")
        with warnings.catch_warnings():
            warnings.simplefilter("ignore")
            return jelly.unjelly([bytes.fromhex(parts[0])] + [_atom_of(x) for x in parts[1:]], pol)
    for i, (sh, ks) in enumerate(nodes):
        if sh in "TF":
            val(f"p{i}")
    for i, (sh, ks) in enumerate(nodes):
        ks = [val(x) for x in ks.split(",") if x]
        if sh == "L":
            objs[i].extend(ks)
        elif sh == "D":
            for a, b in zip(ks[::2], ks[1::2]):
                objs[i][a] = b
        elif sh == "S":
            objs[i].update(ks)
        elif sh.startswith("I."):
            if obj_id(type(objs[i])) == "c45safe.S":
                objs[i].st = ks[0]
            elif type(ks[0]) is dict:
                objs[i].__dict__ = ks[0]
    return val(root)


def compare_roundtrip(impl_out, model_out):
    ihead, _, rest = impl_out.partition(" j=")
    ij, _, ir = rest.partition(" r=")
    if " => " not in model_out:
        return ij == "-" and ihead == model_out       # jelly itself raised
    mj, _, mr = model_out.partition(" => ")
    if ij != mj:
        return False
    if ihead.startswith("!raised") or mr.startswith("!raised"):
        return ihead == mr
    iroot, _, inodes = ir.partition(" ")
    mroot, _, mnodes = mr.partition(" ")
    try:
        a, b = heap_to_py(iroot, inodes), heap_to_py(mroot, mnodes)
    except ValueError:
        return False
    return _iso_solve([(a, b)], {}, {})


def _mentions_open_state(j):
    """does the jelly hold an instance whose state is still a `NotKnown` placeholder when `_newInstance` runs?  A walk in
    unjelly order: `[dereference, n]` is a placeholder while `[reference, n, …]` is open, or when n was bound to a
    placeholder; a tuple / set / frozenset holding a placeholder is one (`_Tuple` / `_Container`).  Used only to name
    the class of a round trip that has already failed."""
    found = []
    pending = set()

    def walk(x, open_ids):
        if not isinstance(x, list) or not x or not isinstance(x[0], bytes):
            return False
        t = x[0]
        if t == b"dereference":
            return len(x) == 2 and (x[1] in open_ids or x[1] in pending)
        if t == b"reference" and len(x) == 3:
            r = walk(x[2], open_ids + (x[1],))
            if r:
                pending.add(x[1])
            return r
        if t in (b"tuple", b"set", b"frozenset"):
            return any([walk(y, open_ids) for y in x[1:]])
        if t == b"list":
            for y in x[1:]:
                walk(y, open_ids)
            return False
        if t == b"dictionary":
            for kv in x[1:]:
                if isinstance(kv, list):
                    for y in kv:
                        walk(y, open_ids)
            return False
        if t == b"method" and len(x) == 4:
            return walk(x[2], open_ids)       # the method's self: an `_InstanceMethod` placeholder while self is one
        if b"." in t and len(x) == 2:
            if walk(x[1], open_ids):
                found.append(t)
        return False
    walk(j, ())
    return bool(found)


def _run_roundtrip(c):
    _install_world()
    info = {"fail": None}
    try:
        obj = _graph_for(c)
    except ValueError:
        info["out"] = "unbuildable"
        return info
    pol = build_policy(RT_POLICY)
    # "taster": "default" - `jelly.jelly(obj)` / `jelly.unjelly(sexp)` with no policy argument: everything is allowed
    args = () if c.get("taster") == "default" else (pol,)
    jt = "-"
    with warnings.catch_warnings():
        warnings.simplefilter("ignore")
        try:
            j = jelly.jelly(obj, *args)
            toks = []
            sexp_tokens(j, toks)
            jt = ",".join(toks)
            back = jelly.unjelly(j, *args)
        except RecursionError:
            raise
        except Exception as e:  # noqa: BLE001
            info["out"] = f"!raised {canon_exc(e)} j={jt} r=-"
            key = "roundtrip-notknown-dict-key" if "dictionary key" in str(e) else "roundtrip-raises-" + canon_exc(e)
            info["fail"] = {"key": key,
                            "detail": f"jelly/unjelly of an allowed graph raised {type(e).__name__}: {e}"}
            return info
    r = _iso(obj, back, {}, {})
    if _has_methods(c):
        root, nodes = "-", "-"
    else:
        root, nodes = extract_heap(back)
    info["out"] = f"{'preserved' if r is None else 'changed'} j={jt} r={root} {nodes}"
    if r:
        if _mentions_open_state(j):
            key = "roundtrip-notknown-instance-state"
        elif _iso_solve([(obj, back)], {}, {}, lax=True):
            # the only difference: an instance's *empty* `__dict__` that the graph also references directly
            key = "roundtrip-empty-instance-dict-identity"
        else:
            key = "roundtrip-changed"
        info["fail"] = {"key": key, "detail": r + f" (jelly {str(j)[:200]})"}
    return info


# ----------------------------------------------------------------------------------------
# generation

SAFE_NAMES = ["c45safe.A", "c45safe.B", "c45safe.ASub", "c45safe.J", "c45safe.S", "c45safe.Hidden", "c45safe.Meta", "c45safe.RC", "c45safe.func",
              "c45safe.system", "c45safe.Popen", "c45safe.os", "c45safe.const", "c45safe.lst", "c45safe.sub",
              "c45safe.sub.C", "c45safe.sub.g", "c45safe.nosuch", "c45safe.A.meth", "c45safe.A.Nested", "c45safe.os.system"]
DANGER_NAMES = ["os.system", "subprocess.Popen", "builtins.eval", "builtins.exec", "os.path.join", "os.path", "os",
                "subprocess", "builtins", "c45evil.E", "c45evil.pwn", "c45evil", "subprocess.call", "os.getcwd",
                "c45nomod.X", "c45nomod", "", ".", "os.", ".os", "a..b", "eval", "posix.system"]
MODULE_POOL = ["c45safe", "c45safe.sub", "c45evil", "os", "os.path", "subprocess", "builtins", "", "c45safe.A",
               "c45nomod", "c45safe.nosuch", "c45safe.os"]
TYPE_POOL = ["instance", "class", "module", "function", "method", "classobj", "int", "str", "foo"]
INST_POOL = ["c45safe.A", "c45safe.B", "c45safe.S", "c45safe.sub.C", "c45evil.E", "c45safe.Hidden", "c45safe.A.Nested",
             "subprocess.Popen", "c45safe.ASub", "c45safe.J"]
MODULE_OBJ_POOL = ["c45safe", "c45safe.sub", "c45safe.sub", "c45evil", "os", "posixpath", "subprocess", "builtins"]
REG_TAGS = [("c", b"c45safe.RCopy", "c45safe.RC", 1), ("c", b"c45tag", "c45safe.RC", 1), ("c", b"c45safe.RPlain", "c45safe.RP", 0),
            ("f", b"c45fac", "c45safe.RC"), ("f", b"c45safe.Fac", "c45safe.B")]
HANDLERS = ["None", "unicode", "decimal", "boolean", "datetime", "date", "time", "timedelta", "dereference", "reference",
            "tuple", "list", "set", "frozenset", "dictionary", "module", "class", "function", "persistent", "instance",
            "unpersistable", "method"]


def gen_policy(rng):
    r = rng.random()
    ops = []
    if r < 0.08:
        return ops
    if rng.random() < 0.9:
        ops.append(["B"])
    if rng.random() < 0.85:
        k = rng.choice([1, 3, 5, len(TYPE_POOL)])
        ops.append([rng.choice(["T", "T", "Ts"]), [t.encode().hex() for t in rng.sample(TYPE_POOL, min(k, len(TYPE_POOL)))]])
    if rng.random() < 0.15:
        ops.append(["Tc", rng.sample(INST_POOL, rng.choice([1, 2]))])
    if rng.random() < 0.8:
        # the three argument forms of allowModules: bytes, str, module objects (possibly several ops)
        form = rng.choice(["M", "M", "Ms", "Mo", "Mo"])
        if form == "Mo":
            ops.append(["Mo", rng.sample(MODULE_OBJ_POOL, rng.choice([1, 1, 2, 3]))])
            if rng.random() < 0.3:
                ops.append(["M", [m.encode().hex() for m in rng.sample(MODULE_POOL, rng.choice([1, 2]))]])
        else:
            ops.append([form, [m.encode().hex() for m in rng.sample(MODULE_POOL, rng.choice([1, 1, 2, 3, 5]))]])
    if rng.random() < 0.7:
        ops.append(["I", rng.sample(INST_POOL, rng.choice([1, 1, 2, 3]))])
    rng.shuffle(ops)
    return ops


def gen_reg(rng):
    if rng.random() < 0.5:
        return []
    return [[e[0], e[1].hex(), e[2]] + ([e[3]] if e[0] == "c" else []) for e in rng.sample(REG_TAGS, rng.choice([1, 2, 5]))]


class Gen:
    def __init__(self, rng, names):
        self.rng, self.names = rng, names
        self.refids = [1, 2, 3]

    def tag(self, s):
        r = self.rng.random()
        if r < 0.9:
            return B(s)
        return {"s": s}

    def name(self):
        rng = self.rng
        n = rng.choice(self.names) if rng.random() < 0.8 else rng.choice(SAFE_NAMES + DANGER_NAMES)
        r = rng.random()
        if r < 0.85:
            return B(n)
        if r < 0.95:
            return {"s": n}
        return rng.choice([B(b"\xff" + n.encode()), {"s": "é" + n}, {"i": 7}, [B(n)]])

    def atom(self):
        rng = self.rng
        return rng.choice([B(b"x"), B(b"ab"), {"i": rng.randint(-3, 300)}, {"s": "t"}, {"s": "uv"}, {"f": "1.5"}, B(b"")])

    def state(self, d):
        if self.rng.random() < 0.75:
            return self.dictionary(d)
        return self.sexp(d)

    def dictionary(self, d):
        rng = self.rng
        items = []
        odd = rng.random() < 0.3           # at most one key that is not a distinct bytes atom (keys stay distinct)
        for i in range(rng.choice([0, 1, 1, 2, 3])):
            k = self.sexp(d - 1) if (odd and i == 0) else B(b"k%d" % i)
            items.append([k, self.sexp(d - 1)])
        if rng.random() < 0.06:
            items.append(rng.choice([B(b"ab"), {"s": "uv"}, {"i": 3}, [B(b"k")], B(b"abc")]))
        return [self.tag("dictionary")] + items

    def sexp(self, d):
        rng = self.rng
        if d <= 0 or rng.random() < 0.15:
            return rng.choice([self.atom(), [self.tag("None")], [self.tag("boolean"), B(b"true")],
                               [self.tag("unicode"), B("hé")], [self.tag("dereference"), {"i": rng.choice(self.refids)}]])
        r = rng.random()
        if r < 0.16:
            return [self.tag(rng.choice(["list", "tuple", "set", "frozenset"]))] + [self.sexp(d - 1) for _ in range(rng.choice([0, 1, 2, 3]))]
        if r < 0.24:
            return self.dictionary(d)
        if r < 0.38:
            return [self.tag(rng.choice(["class", "function", "module"])), self.name()]
        if r < 0.52:
            n = self.name()
            return [n, self.state(d - 1)] if rng.random() < 0.92 else [n]
        if r < 0.62:
            cls = [self.tag(rng.choice(["class", "function", "class"])), self.name()] if rng.random() < 0.8 else self.sexp(d - 1)
            return [self.tag("instance"), cls, self.state(d - 1)][:rng.choice([3, 3, 3, 3, 2, 1])]
        if r < 0.72:
            cls = [self.tag(rng.choice(["class", "function", "class"])), self.name()] if rng.random() < 0.85 else self.sexp(d - 1)
            mname = rng.choice([{"s": "meth"}, {"s": "Nested"}, {"s": "attrval"}, {"s": "nosuch"}, B(b"meth"), {"i": 1}, [B(b"meth")]])
            slf = rng.choice([[self.tag("None")], self.sexp(d - 1), [B("c45safe.A"), [self.tag("dictionary")]]])
            return [self.tag("method"), mname, slf, cls][:rng.choice([4, 4, 4, 4, 3, 2])]
        if r < 0.82:
            rid = {"i": rng.choice(self.refids)} if rng.random() < 0.93 else rng.choice([B(b"r"), [B(b"r")], {"f": "1.5"}])
            if rng.random() < 0.7:
                return [self.tag("reference"), rid, self.sexp(d - 1)][:rng.choice([3, 3, 3, 3, 3, 2])]
            return [self.tag("dereference"), rid]
        if r < 0.88:
            e = rng.choice(REG_TAGS)
            return [B(e[1]), self.state(d - 1)][:rng.choice([2, 2, 2, 1])]
        if r < 0.94:
            t = rng.choice(["decimal", "datetime", "date", "time", "timedelta", "boolean", "unicode", "persistent", "unpersistable", "None"])
            payload = {"decimal": [{"i": rng.randint(-500, 500)}, {"i": rng.randint(-3, 3)}], "datetime": [B(b"2020 1 2 3 4 5 6")],
                       "date": [B(b"2020 1 2")], "time": [B(b"3 4 5 6")], "timedelta": [B(b"1 2 3")],
                       "boolean": [rng.choice([B(b"true"), B(b"false"), B(b"maybe"), {"s": "true"}, {"i": 1}])],
                       "unicode": [rng.choice([B(b"abc"), B(b"\xff"), {"s": "x"}, {"i": 5}, B("é")])],
                       "persistent": [B(b"p")], "unpersistable": [B(b"why")], "None": []}[t]
            if rng.random() < 0.08:
                payload = payload[:-1]
            return [self.tag(t)] + payload
        # malformed
        return rng.choice([[], [{"i": 5}], [[B(b"list")]], [{"f": "2.5"}, B(b"x")], [B(b"\xfflist")], [{"s": "é.x"}, B(b"x")],
                           [B(b"nosuchtype")], [B(b"int"), {"i": 1}], [B(b"_unjelly_list")], [B(b"list.")], [B(b".list"), B(b"x")],
                           [self.tag(rng.choice(HANDLERS))]])


def gen_unjelly(rng):
    policy = gen_policy(rng)
    # names biased towards what this policy makes reachable
    mods = [m.decode() for op in policy for m in op_module_names(op)]
    mods += [k.rsplit(".", 1)[0] for op in policy if op[0] == "I" for k in op[1]]
    names = [n for n in SAFE_NAMES + DANGER_NAMES if ".".join(n.split(".")[:-1]) in mods] or SAFE_NAMES
    names = names + rng.sample(SAFE_NAMES + DANGER_NAMES, 4)
    g = Gen(rng, names)
    return {"op": "unjelly", "policy": policy, "reg": gen_reg(rng), "sexp": g.sexp(rng.choice([1, 2, 3, 4, 5]))}


def gen_graph(rng):
    n = rng.choice([2, 3, 4, 6, 9, 12])
    kinds = ["list", "list", "dict", "tuple", "tuple", "set", "frozenset", "inst:A", "inst:A", "inst:B", "inst:S",
             "inst:ASub", "inst:J", "inst:J"]
    nodes = []
    for i in range(n):
        if rng.random() < 0.3 and i > 0:
            nodes.append({"k": rng.choice(_ATOMS), "v": rng.randint(0, 7)})
        else:
            nodes.append({"k": rng.choice(kinds), "e": []})
    if rng.random() < 0.25:
        # bound methods `a.meth` of instances of the graph (A defines `meth` itself), as list / tuple elements,
        # dict values and attribute values - never as a dict key or set element
        owners = [i for i, x in enumerate(nodes) if x["k"] == "inst:A"]
        for i in range(1, n):
            if owners and "e" not in nodes[i] and rng.random() < 0.6:
                nodes[i] = {"k": "meth", "e": [rng.choice(owners)]}
    hashable = [i for i, x in enumerate(nodes) if x["k"] in ("bytes", "int", "str") or x["k"].startswith("inst:")]
    for i, x in enumerate(nodes):
        k = x["k"]
        if "e" not in x or k == "meth":
            continue
        m = rng.choice([0, 1, 2, 2, 3])
        if k in ("set", "frozenset"):
            x["e"] = rng.sample(hashable, min(len(hashable), min(m, 2)))
        elif k == "dict":
            ks = rng.sample(hashable, min(len(hashable), m))
            x["e"] = [y for kk in ks for y in (kk, rng.randrange(n))]
        elif k == "tuple":
            # immutables may only point forward among immutables (no immutable-only cycle)
            x["e"] = [j for j in (rng.randrange(n) for _ in range(m)) if nodes[j]["k"] not in ("tuple", "frozenset") or j > i]
        else:
            x["e"] = [rng.randrange(n) for _ in range(m)]
            if k.startswith("inst:") and rng.random() < 0.2:
                # the state object is a node of the graph too (reachable on its own, shared, possibly visited first)
                cand = [j for j, y in enumerate(nodes) if (y["k"] in ("list", "dict", "tuple") if k == "inst:S" else y["k"] == "dict")]
                if cand:
                    x["st"] = rng.choice(cand)
                    x["e"] = []
    c = {"op": "roundtrip", "graph": {"nodes": nodes, "root": 0}}
    if rng.random() < 0.25:
        c["taster"] = "default"
    return c


def corpus():
    I, T, M = (lambda *k: ["I", list(k)]), (lambda *t: ["T", [x.encode().hex() for x in t]]), (lambda *m: ["M", [x.encode().hex() for x in m]])
    D = [B("dictionary")]
    cases = [
        {"op": "world"},
        # a cyclic tuple that is shared again after the cycle closed (jelly.jelly([lst, t]) with t=(lst,), lst=[t])
        {"op": "roundtrip", "graph": {"nodes": [{"k": "list", "e": [1, 2]}, {"k": "list", "e": [2]}, {"k": "tuple", "e": [1]}], "root": 0}},
        {"op": "roundtrip", "graph": {"nodes": [{"k": "inst:A", "e": [1, 0]}, {"k": "list", "e": [0, 1]}], "root": 0}},
        # an instance used as a dictionary key inside its own cycle (known finding roundtrip-notknown-dict-key)
        {"op": "roundtrip", "graph": {"nodes": [{"k": "inst:B", "e": [1]}, {"k": "dict", "e": [0, 0]}], "root": 0}},
        # an instance whose state is reached before the instance (known finding roundtrip-notknown-instance-state):
        # d = vars(a), a.me = a, jelly(d): `_newInstance` gets a `_Dereference` and drops it; S: `st` stays a placeholder
        {"op": "roundtrip", "graph": {"nodes": [{"k": "dict", "e": [2, 1]}, {"k": "inst:A", "e": [], "st": 0}, {"k": "bytes", "v": 0}], "root": 0}},
        {"op": "roundtrip", "graph": {"nodes": [{"k": "list", "e": [1]}, {"k": "inst:S", "e": [], "st": 0}], "root": 0}},
        # s.st = (s,): the state cannot be finished before the instance exists
        {"op": "roundtrip", "graph": {"nodes": [{"k": "inst:S", "e": [], "st": 1}, {"k": "tuple", "e": [0]}], "root": 0}},
        # a = A(); g = [vars(a), a] with vars(a) empty: `__getstate__()` is None (Python >= 3.11), the copy of `a` gets a
        # fresh `__dict__` (known finding roundtrip-empty-instance-dict-identity)
        {"op": "roundtrip", "graph": {"nodes": [{"k": "list", "e": [1, 2]}, {"k": "dict", "e": []}, {"k": "inst:A", "e": [], "st": 1}], "root": 0}},
        # the same state shared but finished first: fine
        {"op": "roundtrip", "graph": {"nodes": [{"k": "list", "e": [1, 2]}, {"k": "inst:A", "e": [], "st": 2}, {"k": "dict", "e": [3, 0]}, {"k": "bytes", "v": 1}], "root": 0}},
        # function atom: any attribute of an allowed module — a class, a module, a submodule import
        {"op": "unjelly", "policy": [["B"], T("function"), M("c45safe")], "reg": [], "sexp": [B("function"), B("c45safe.Hidden")]},
        {"op": "unjelly", "policy": [["B"], T("function"), M("c45safe")], "reg": [], "sexp": [B("function"), B("c45safe.os")]},
        {"op": "unjelly", "policy": [["B"], T("function"), M("c45safe")], "reg": [], "sexp": [B("function"), B("c45safe.sub")]},
        {"op": "unjelly", "policy": [["B"], T("function"), M("c45safe")], "reg": [], "sexp": [B("function"), B("c45safe.system")]},
        # instance atom: the class is whatever unjelly returned, never checked
        {"op": "unjelly", "policy": [I("c45safe.A"), T("function")], "reg": [],
         "sexp": [B("instance"), [B("function"), B("c45safe.Popen")], D]},
        {"op": "unjelly", "policy": [I("c45safe.A"), T("method")], "reg": [],
         "sexp": [B("instance"), [B("method"), {"s": "Nested"}, [B("None")], [B("class"), B("c45safe.A")]], D]},
        {"op": "unjelly", "policy": [I("c45safe.A")], "reg": [], "sexp": [B("instance"), [B("class"), B("c45safe.A")], D]},
        {"op": "unjelly", "policy": [I("c45safe.A")], "reg": [], "sexp": [B("instance"), [B("class"), B("c45safe.Popen")], D]},
        {"op": "unjelly", "policy": [I("c45safe.A")], "reg": [], "sexp": [B("c45safe.A"), [B("dictionary"), [B("x"), [B("os.system"), D]]]]},
        {"op": "unjelly", "policy": [I("c45safe.A")], "reg": [], "sexp": [B("module"), B("os")]},
        {"op": "unjelly", "policy": [I("c45safe.A")], "reg": [], "sexp": [B("class"), B("subprocess.Popen")]},
        {"op": "unjelly", "policy": [I("c45safe.A"), T("method")], "reg": [],
         "sexp": [B("method"), {"s": "meth"}, [B("c45safe.A"), D], [B("class"), B("c45safe.A")]]},
        {"op": "unjelly", "policy": [["B"]], "reg": [["c", b"c45safe.RCopy".hex(), "c45safe.RC", 1]],
         "sexp": [B("c45safe.RCopy"), [B("dictionary"), [B("a"), [B("list"), {"i": 1}]]]]},
        {"op": "unjelly", "policy": [["B"]], "reg": [], "sexp":
         [B("reference"), {"i": 1}, [B("list"), [B("reference"), {"i": 2}, [B("tuple"), [B("dereference"), {"i": 1}]]], [B("dereference"), {"i": 2}]]]},
        {"op": "unjelly", "policy": [["B"]], "reg": [], "sexp": [B("list"), [B("reference"), {"i": 1}, [B("None")]], [B("dereference"), {"i": 1}]]},
        {"op": "unjelly", "policy": [["B"], M("")], "reg": [], "sexp": [B("int"), {"i": 1}]},
        # --- mutation audit M45 ---
        # a module allowed as a module object: exactly its `__name__` (not its package, not what it is an attribute of)
        {"op": "unjelly", "policy": [["B"], T("module", "function", "class"), ["Mo", ["c45safe.sub"]]], "reg": [], "sexp": [B("module"), B("c45safe")]},
        {"op": "unjelly", "policy": [["B"], T("module", "function", "class"), ["Mo", ["c45safe.sub"]]], "reg": [], "sexp": [B("module"), B("c45safe.sub")]},
        {"op": "unjelly", "policy": [["B"], T("module", "function", "class"), ["Mo", ["c45safe.sub"]]], "reg": [], "sexp": [B("function"), B("c45safe.func")]},
        {"op": "unjelly", "policy": [["B"], T("module", "function", "class"), ["Mo", ["c45safe.sub"]]], "reg": [], "sexp": [B("function"), B("c45safe.sub.g")]},
        {"op": "unjelly", "policy": [["Ts", [x.encode().hex() for x in ("module",)]], ["Mo", ["posixpath"]]], "reg": [], "sexp": [B("module"), B("os.path")]},
        {"op": "unjelly", "policy": [["Ts", [x.encode().hex() for x in ("module",)]], ["Ms", [b"os.path".hex()]]], "reg": [], "sexp": [B("module"), B("os.path")]},
        {"op": "unjelly", "policy": [["B"], ["Tc", ["c45safe.A"]]], "reg": [], "sexp": [B("c45safe.A"), D]},
        # a subclass of an allowed class is not allowed (and the other way round)
        {"op": "unjelly", "policy": [I("c45safe.A")], "reg": [], "sexp": [B("c45safe.ASub"), D]},
        {"op": "unjelly", "policy": [I("c45safe.A")], "reg": [], "sexp": [B("class"), B("c45safe.ASub")]},
        {"op": "unjelly", "policy": [I("c45safe.A")], "reg": [], "sexp": [B("instance"), [B("class"), B("c45safe.ASub")], D]},
        {"op": "unjelly", "policy": [I("c45safe.ASub")], "reg": [], "sexp": [B("c45safe.A"), D]},
        {"op": "unjelly", "policy": [I("c45safe.ASub"), T("method")], "reg": [],
         "sexp": [B("method"), {"s": "meth"}, [B("None")], [B("class"), B("c45safe.ASub")]]},
        # containers under a policy without the basic types
        {"op": "unjelly", "policy": [], "reg": [], "sexp": [B("list"), {"i": 1}]},
        {"op": "unjelly", "policy": [T("list")], "reg": [], "sexp": [B("list"), [B("tuple"), {"i": 1}]]},
        {"op": "unjelly", "policy": [T("list")], "reg": [], "sexp": [B("list"), [B("set"), {"i": 1}], [B("dictionary")]]},
        # round trip: leaf values at their boundaries
        {"op": "roundtrip", "graph": {"nodes": [{"k": "list", "e": [1, 2, 3, 4, 5, 6]}, {"k": "decimal", "v": 1}, {"k": "decimal", "v": 5},
                                                {"k": "time", "v": 6}, {"k": "datetime", "v": 1}, {"k": "timedelta", "v": 3}, {"k": "int", "v": 7}], "root": 0}},
        {"op": "roundtrip", "graph": {"nodes": [{"k": "tuple", "e": [1, 2, 3, 4, 5]}, {"k": "bytes", "v": 0}, {"k": "str", "v": 0},
                                                {"k": "date", "v": 0}, {"k": "float", "v": 3}, {"k": "decimal", "v": 2}], "root": 0}},
        # bound methods: alone, of a shared instance, stored on its own instance (`_InstanceMethod`)
        {"op": "roundtrip", "graph": {"nodes": [{"k": "list", "e": [1]}, {"k": "meth", "e": [2]}, {"k": "inst:A", "e": []}], "root": 0}},
        {"op": "roundtrip", "graph": {"nodes": [{"k": "list", "e": [1, 2, 1]}, {"k": "meth", "e": [2]}, {"k": "inst:A", "e": [3]}, {"k": "int", "v": 2}], "root": 0}},
        {"op": "roundtrip", "graph": {"nodes": [{"k": "inst:A", "e": [1, 0]}, {"k": "meth", "e": [0]}], "root": 0}},
        # Jellyable (the `jellyFor` hook): shared, cyclic; a subclass instance; no taster argument at all
        {"op": "roundtrip", "graph": {"nodes": [{"k": "list", "e": [1, 1, 2]}, {"k": "inst:J", "e": []}, {"k": "inst:J", "e": [2, 1]}], "root": 0}},
        {"op": "roundtrip", "graph": {"nodes": [{"k": "inst:ASub", "e": [1, 0]}, {"k": "inst:A", "e": [0]}], "root": 0}},
        {"op": "roundtrip", "taster": "default", "graph": {"nodes": [{"k": "list", "e": [1, 2, 1]}, {"k": "inst:A", "e": [2]}, {"k": "inst:J", "e": [1]}], "root": 0}},
    ]
    return cases


def generate(rng, tier):
    n = 2500 if tier == "quick" else 60000
    m = 400 if tier == "quick" else 8000
    for _ in range(n):
        yield gen_unjelly(rng)
    for _ in range(m):
        yield gen_graph(rng)


def search(rng, tier, disagreeing):
    for _ in range(4000):
        yield gen_unjelly(rng)
    for _ in range(1000):
        yield gen_graph(rng)


def _tags_used(x, out):
    if isinstance(x, list) and x:
        h = x[0]
        if isinstance(h, dict) and ("b" in h or "s" in h):
            t = bytes.fromhex(h["b"]).decode("latin-1") if "b" in h else h["s"]
            out.add(t if t in HANDLERS else ("dotted" if "." in t else "other"))
        for y in x:
            _tags_used(y, out)


def tag(c, out):
    if c["op"] == "roundtrip":
        head, _, rest = out.partition(" j=")
        j = rest.partition(" r=")[0]
        kinds = sorted({n["k"] for n in c["graph"]["nodes"] if "e" in n})
        return f"roundtrip:{head}|{'+'.join(kinds)}|ref{min(j.count('b:' + b'reference'.hex()), 3)}|{c.get('taster', 'policy')}"
    if c["op"] != "unjelly":
        return c["op"] + ":" + out.split(" ")[0][:30]
    head, ev, res, _ = _split(out)
    used = set()
    _tags_used(c["sexp"], used)
    kinds = sorted({e.split(":")[0] for e in ev})
    return f"{head.replace('!raised ', '!')}|{'+'.join(sorted(used))}|{''.join(kinds)}"


def shrink(c):
    if c["op"] == "roundtrip":
        g = c["graph"]
        nodes = g["nodes"]
        for i, n in enumerate(nodes):
            e = n.get("e")
            if e and n["k"] != "meth":
                step = 2 if n["k"] == "dict" else 1
                for j in range(0, len(e), step):
                    nn = [dict(x) for x in nodes]
                    nn[i]["e"] = e[:j] + e[j + step:]
                    yield dict(c, graph={"nodes": nn, "root": g["root"]})
        if len(nodes) > 1:
            last = len(nodes) - 1
            if g["root"] != last and all(last not in n.get("e", []) and n.get("st") != last for n in nodes[:-1]):
                yield dict(c, graph={"nodes": [dict(x) for x in nodes[:-1]], "root": g["root"]})
        return
    if c["op"] != "unjelly":
        return

    def subs(x):
        """smaller s-expressions: a child in place of the parent, a child dropped, a child shrunk"""
        if not isinstance(x, list):
            return
        for y in x[1:]:
            if isinstance(y, list):
                yield y
        for i in range(1, len(x)):
            yield x[:i] + x[i + 1:]
        for i, y in enumerate(x):
            for z in subs(y):
                yield x[:i] + [z] + x[i + 1:]
    for s in subs(c["sexp"]):
        yield dict(c, sexp=s)
    if c["reg"]:
        yield dict(c, reg=[])
    for i in range(len(c["policy"])):
        yield dict(c, policy=c["policy"][:i] + c["policy"][i + 1:])
    for i, op in enumerate(c["policy"]):
        if len(op) > 1 and len(op[1]) > 1:
            for j in range(len(op[1])):
                yield dict(c, policy=c["policy"][:i] + [[op[0], op[1][:j] + op[1][j + 1:]]] + c["policy"][i + 1:])
