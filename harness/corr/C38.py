"""C38 — telnet carries application bytes transparently.

Real `TelnetTransport.write` / `writeSequence` → wire (StringTransport) → arbitrary segmentation →
real `TelnetTransport.dataReceived` with a recording application protocol, against the Lean model
(TwistedModel/Telnet/Data.lean); plus the property oracle evaluated on the real code alone."""
from twisted.conch import telnet
from twisted.internet.testing import StringTransport

HEADLINE = "TwistedProps.C38.transparent"
RULE = ("send: 1..5 write/writeSequence calls (the sequence as list, tuple, generator or iterator) whose byte strings are drawn from an alphabet rich in 0xFF, LF, "
        "the telnet command bytes 0xEF..0xFE, NUL (and CR in a minority of cases, tie only), the wire cut at "
        "none / every / random offsets (empty segments included); recv: raw wire streams from the telnet grammar "
        "(data, IAC IAC, IAC cmd, IAC WILL/WONT/DO/DONT opt, IAC SB … IAC SE, CR LF / CR NUL / bare CR / CR IAC, "
        "malformed: IAC+other, empty subnegotiation) randomly segmented; distinct = (op kinds, special bytes "
        "present, whether a cut splits an escape pair, event kinds, exceptions, final parser state)")
ASSUMES = [
    "application bytes contain no CR (0x0D) — the property's own precondition; a bare CR is not restored by the receiver",
    "the underlying transport delivers the written bytes unchanged and in order (any segmentation, empty segments allowed)",
    "the receiving Telnet instance starts in state 'data' (fresh connection)",
]
TRUSTED = [
    "twisted.internet.testing.StringTransport as the byte sink (write/writeSequence concatenate)",
    "bytes.replace with a one-byte pattern behaves as a per-byte substitution",
    "harness/py2lean.py (translator: TelnetTransport.write and the ProtocolTransportMixin.write it calls are regenerated into "
    "lean/Generated/Telnet.lean on every run — each method as the bytes it hands on, the chained data.replace(b'\\xff', "
    "b'\\xff\\xff') / data.replace(b'\\n', b'\\r\\n') as the translator's fixed pyReplace1; translator-regenerated kernel proved "
    "equal to the model: TwistedProps.C38.gen_write, gen_wire)",
]
MANIFEST = {
    "text": "Lean theorems (TwistedProps/C38.lean): for every history of write/writeSequence calls with CR-free byte "
            "strings and every segmentation of the resulting wire stream (empty segments included), the receiver state "
            "machine raises nothing, makes no commandReceived/negotiate call, delivers exactly the written bytes to "
            "applicationDataReceived and ends in state 'data'; every LF travels as CR LF. Proved via a byte-level trace "
            "semantics shown equal to the chunked loop with its local buffer (segmentation invariance for every non-raising "
            "stream) and a literal-consumption lemma for the escape image. TelnetTransport.write's escaping is regenerated from "
            "telnet.py by the translator on every run and proved equal to the model's write (gen_write). Model tied to telnet.py by differential runs of "
            "sender and receiver, event by event.",
    "note": "trusts Lean kernel, the hand-written model of TelnetTransport.write/writeSequence and Telnet.dataReceived "
            "(differentially tied), StringTransport, CPython bytes.replace",
    "technique": "Lean 4 proof (trace semantics + induction over bytes/segments) + differential tie + translator-regenerated "
                 "kernel (TelnetTransport.write) proved equal to the model",
    "design_ref": "DESIGN.md §7 C38",
}

SPECIAL = [0xFF, 0xFF, 0xFF, 0x0A, 0x0A, 0xF4, 0xF0, 0xFA, 0xFB, 0xFD, 0xEF, 0xF1, 0xF9, 0xFE, 0xFC, 0x00, 0x61, 0x62, 0x20, 0x7F, 0xEE]


def hx(b):
    return bytes(b).hex() if b else "-"


def unhx(s):
    return b"" if s == "-" else bytes.fromhex(s)


# ---------------------------------------------------------------------------------------
# the real code

class _App(telnet.TelnetProtocol):
    """The peer application: records what it is given."""

    def __init__(self, log):
        self.log = log

    def dataReceived(self, data):
        self.log.append("A" + hx(data))


class _Recv(telnet.TelnetTransport):
    """Real TelnetTransport; commandReceived / negotiate are observed, then run unchanged."""

    def __init__(self, log):
        telnet.TelnetTransport.__init__(self, _App, log)
        self.log = log

    def commandReceived(self, command, argument):
        self.log.append("C" + command.hex() + ":" + ("-" if argument is None else argument.hex()))
        telnet.TelnetTransport.commandReceived(self, command, argument)

    def negotiate(self, data):
        telnet.TelnetTransport.negotiate(self, data)
        self.log.append("N" + hx(b"".join(data)))


STATES = ("data", "escaped", "command", "newline", "subnegotiation", "subnegotiation-escaped")


def _receive(segs):
    out = []
    log = []
    r = _Recv(log)
    r.makeConnection(StringTransport())
    for s in segs:
        del log[:]
        try:
            r.dataReceived(s)
        except (ValueError, IndexError) as e:
            log.append("!" + type(e).__name__)
        out.append(",".join(log) if log else "-")
    assert r.state in STATES
    return "|".join(out) + " state=" + r.state


def _send(ops):
    t = telnet.TelnetTransport()
    st = StringTransport()
    t.makeConnection(st)
    for op in ops:
        if op[0] == "w":
            t.write(unhx(op[1]))
        else:
            t.writeSequence(_container([unhx(x) for x in op[1]], op[2] if len(op) > 2 else "list"))
    return st.value()


def _container(items, kind):
    """ITransport.writeSequence takes any Iterable[bytes]: lists, tuples and ONE-SHOT iterables (seeded change C38-2
    scanned the argument before joining it, which empties a generator)"""
    if kind == "tuple":
        return tuple(items)
    if kind == "gen":
        return (x for x in items)
    if kind == "iter":
        return iter(items)
    return items


def _cut(w, cuts):
    segs, pos = [], 0
    for c in cuts:
        n = max(c - pos, 0)
        segs.append(w[:n])
        w = w[n:]
        pos = max(c, pos)
    segs.append(w)
    return segs


def run_impl(c):
    if c["op"] == "recv":
        return _receive([unhx(s) for s in c["segs"]])
    w = _send(c["ops"])
    return "wire=" + hx(w) + " " + _receive(_cut(w, c["cuts"]))


def model_line(c):
    if c["op"] == "recv":
        return "recv " + ",".join(c["segs"])
    ops = []
    for op in c["ops"]:
        ops.append("w:" + op[1] if op[0] == "w" else "s:" + ";".join(op[1]))
    return "send " + (",".join(str(x) for x in c["cuts"]) if c["cuts"] else "-") + " " + " ".join(ops)


# ---------------------------------------------------------------------------------------
# the property on the implementation (independent of the model)

def _payload(c):
    return b"".join(unhx(op[1]) if op[0] == "w" else b"".join(unhx(x) for x in op[1]) for op in c["ops"])


def oracle(c, out):
    if c["op"] != "send":
        return None
    pay = _payload(c)
    if b"\r" in pay:
        return None                          # outside the statement's precondition
    seq_special = any(op[0] == "s" and any((b"\xff" in unhx(x)) or (b"\n" in unhx(x)) for x in op[1]) for op in c["ops"])
    key = "writeSequence-unescaped" if seq_special else "write-not-transparent"
    if not out.startswith("wire="):
        return {"key": key, "detail": f"writing {pay!r} / receiving raised: {out}"}
    wirepart, rest = out.split(" ", 1)
    wire = unhx(wirepart[5:])
    segtxt, state = rest.rsplit(" state=", 1)
    got, other = b"", []
    for seg in segtxt.split("|"):
        if seg == "-":
            continue
        for ev in seg.split(","):
            if ev.startswith("A"):
                got += unhx(ev[1:])
            else:
                other.append(ev)
    if other:
        return {"key": key, "detail": f"application bytes {pay!r} (wire {wire!r}) were interpreted as telnet "
                                      f"commands / raised: {other}; application received {got!r}"}
    if got != pay:
        return {"key": key, "detail": f"application wrote {pay!r}, peer application received {got!r} (wire {wire!r})"}
    if state != "data":
        return {"key": key, "detail": f"receiver left in state {state!r} after complete messages {pay!r}: the next byte is swallowed"}
    # line feeds travel as CR LF (payload has no CR of its own)
    nlf = pay.count(b"\n")
    if wire.count(b"\r\n") != nlf or wire.count(b"\n") != nlf or wire.count(b"\r") != nlf:
        return {"key": key, "detail": f"line feeds of {pay!r} not sent as CR LF: wire {wire!r}"}
    return None


# ---------------------------------------------------------------------------------------
# cases

def corpus():
    return [
        # the witness: writeSequence with IAC IP and LF in application data
        {"op": "send", "cuts": [], "ops": [["s", ["78fff4790a"]]]},
        {"op": "send", "cuts": [], "ops": [["w", "78fff4790a"]]},
        {"op": "send", "cuts": [1, 2, 3, 4, 5, 6, 7], "ops": [["w", "ffff0a0aff"], ["s", ["ff", "0a"]], ["w", "-"]]},
        {"op": "send", "cuts": [], "ops": [["s", []]]},
        # one-shot iterables (seeded change C38-2): nothing special / something special in the middle
        {"op": "send", "cuts": [], "ops": [["s", ["61", "62"], "gen"], ["s", ["616263", "fff4", "6c0a", "ff", "ff65"], "iter"]]},
        {"op": "send", "cuts": [2], "ops": [["s", ["ff", "0a", "78"], "tuple"], ["w", "79"]]},
        {"op": "send", "cuts": [0, 0, 3], "ops": [["s", ["-", "61", "-"]], ["w", "fffb01"]]},
        {"op": "send", "cuts": [1], "ops": [["w", "0d0a"]]},           # CR in data: outside the precondition, tie only
        {"op": "send", "cuts": [], "ops": [["w", "610d"]]},
        {"op": "recv", "segs": ["fffb01fffc01fffd01fffe01"]},
        {"op": "recv", "segs": ["61ff", "f4", "62"]},
        {"op": "recv", "segs": ["fffa1f0050ffff0018fff0"]},
        {"op": "recv", "segs": ["61fffafff062"]},                        # empty subnegotiation → IndexError
        {"op": "recv", "segs": ["6162ff0163", "ff64"]},                  # Stumped; state stays escaped
        {"op": "recv", "segs": ["0d", "0a", "0d00", "0d61", "0dff", "ff", "0d0d0a"]},
        {"op": "recv", "segs": ["fff0"]},
        {"op": "recv", "segs": ["-", "-"]},
    ]


def _bytes(rng, n, cr=False):
    al = SPECIAL + ([0x0D, 0x0D] if cr else [])
    return bytes(rng.choice(al) if rng.random() < 0.75 else rng.choice([x for x in range(256) if cr or x != 0x0D])
                 for _ in range(n))


def _gen_send(rng):
    cr = rng.random() < 0.12
    ops = []
    for _ in range(rng.choice([1, 1, 2, 3, 4, 5])):
        if rng.random() < 0.5:
            ops.append(["w", hx(_bytes(rng, rng.choice([0, 1, 2, 3, 5, 8, 13]), cr))])
        else:
            ops.append(["s", [hx(_bytes(rng, rng.choice([0, 1, 1, 2, 4, 7]), cr)) for _ in range(rng.choice([0, 1, 2, 3, 4]))],
                        rng.choice(["list", "list", "tuple", "gen", "iter"])])
    c = {"op": "send", "ops": ops, "cuts": []}
    n = 2 * len(_payload(c)) + 2
    m = rng.random()
    if m < 0.2:
        cuts = []
    elif m < 0.45:
        cuts = list(range(1, n))
    else:
        cuts = sorted(rng.randrange(0, n + 1) for _ in range(rng.randint(1, min(8, n))))
    c["cuts"] = cuts
    return c


def _gen_stream(rng):
    toks = []
    for _ in range(rng.randint(1, 10)):
        r = rng.random()
        if r < 0.25:
            toks.append(bytes(rng.choice([0x61, 0x62, 0x00, 0x0A, 0x20, 0xF4, 0xEE]) for _ in range(rng.randint(1, 4))))
        elif r < 0.35:
            toks.append(b"\xff\xff")
        elif r < 0.45:
            toks.append(b"\xff" + bytes([rng.choice([239, 241, 242, 243, 244, 245, 246, 247, 248, 249])]))
        elif r < 0.55:
            toks.append(b"\xff" + bytes([rng.choice([251, 252, 253, 254]), rng.choice([0, 1, 3, 31, 34, 255, 13])]))
        elif r < 0.68:
            body = b"".join(rng.choice([b"\x1f", b"\x00", b"P", b"\xff\xff", b"\r", b"\n", b"\xf0", b"\xff\xfa"])
                            for _ in range(rng.choice([0, 0, 1, 2, 5])))
            toks.append(b"\xff\xfa" + body + b"\xff\xf0")
        elif r < 0.85:
            toks.append(b"\r" + rng.choice([b"\n", b"\0", b"a", b"\xff", b"\r", b"", b"\xff\xff", b"\xff\xf4"]))
        elif r < 0.92:
            toks.append(b"\xff" + bytes([rng.choice([0, 1, 0x61, 238, 240, 13, 10])]))   # Stumped
        else:
            toks.append(_bytes(rng, rng.randint(1, 5), True))
    w = b"".join(toks)
    m = rng.random()
    if m < 0.2:
        cuts = []
    elif m < 0.45:
        cuts = list(range(1, len(w)))
    else:
        cuts = sorted(rng.randrange(0, len(w) + 1) for _ in range(rng.randint(1, 6)))
    return {"op": "recv", "segs": [hx(s) for s in _cut(w, cuts)]}


def generate(rng, tier):
    n = 2500 if tier == "quick" else 60000
    for i in range(n):
        yield _gen_send(rng) if rng.random() < 0.6 else _gen_stream(rng)


def search(rng, tier, disagreeing):
    """Property-directed: every call as write and as writeSequence (whole / per byte), every cut set of
    size ≤ 1 and the all-bytes cut, around the disagreeing cases and the corpus; then fresh random sends."""
    seeds = [c for c in disagreeing if c.get("op") == "send"] + [c for c in corpus() if c["op"] == "send"]
    for c in seeds[:40]:
        pays = [unhx(op[1]) if op[0] == "w" else b"".join(unhx(x) for x in op[1]) for op in c["ops"]]
        forms = [
            [["w", hx(p)] for p in pays],
            [["s", [hx(p)]] for p in pays],
            [["s", [hx(p[i:i + 1]) for i in range(len(p))]] for p in pays],
        ]
        n = 2 * sum(len(p) for p in pays) + 1
        for ops in forms:
            yield {"op": "send", "ops": ops, "cuts": []}
            yield {"op": "send", "ops": ops, "cuts": list(range(1, n))}
            for k in range(n):
                yield {"op": "send", "ops": ops, "cuts": [k]}
    for _ in range(3000 if tier == "quick" else 30000):
        yield _gen_send(rng)


def shrink(c):
    if c["op"] == "recv":
        segs = c["segs"]
        for i in range(len(segs)):
            if len(segs) > 1:
                yield {"op": "recv", "segs": segs[:i] + segs[i + 1:]}
            b = unhx(segs[i])
            for j in range(len(b)):
                yield {"op": "recv", "segs": segs[:i] + [hx(b[:j] + b[j + 1:])] + segs[i + 1:]}
        return
    ops, cuts = c["ops"], c["cuts"]
    if cuts:
        yield {"op": "send", "ops": ops, "cuts": []}
        for i in range(len(cuts)):
            yield {"op": "send", "ops": ops, "cuts": cuts[:i] + cuts[i + 1:]}
    for i in range(len(ops)):
        if len(ops) > 1:
            yield {"op": "send", "ops": ops[:i] + ops[i + 1:], "cuts": cuts}
    for i, op in enumerate(ops):
        if op[0] == "w":
            b = unhx(op[1])
            for j in range(len(b)):
                yield {"op": "send", "ops": ops[:i] + [["w", hx(b[:j] + b[j + 1:])]] + ops[i + 1:], "cuts": cuts}
        else:
            el = op[1]
            if len(op) > 2 and op[2] != "list":
                yield {"op": "send", "ops": ops[:i] + [["s", el]] + ops[i + 1:], "cuts": cuts}
            for k in range(len(el)):
                yield {"op": "send", "ops": ops[:i] + [["s", el[:k] + el[k + 1:]] + op[2:]] + ops[i + 1:], "cuts": cuts}
                b = unhx(el[k])
                for j in range(len(b)):
                    yield {"op": "send", "ops": ops[:i] + [["s", el[:k] + [hx(b[:j] + b[j + 1:])] + el[k + 1:]] + op[2:]] + ops[i + 1:],
                           "cuts": cuts}


def tag(c, out):
    evs = set()
    body = out.split(" ", 1)[1] if out.startswith("wire=") and " " in out else out
    state = body.rsplit(" state=", 1)[-1] if " state=" in body else "?"
    for seg in body.rsplit(" state=", 1)[0].split("|"):
        for ev in seg.split(","):
            if ev and ev != "-":
                evs.add(ev[0] if ev[0] != "!" else ev)
    ev = "".join(sorted(evs))
    if c["op"] == "recv":
        return f"recv:{ev}:{state}:{min(len(c['segs']), 3)}"
    pay = _payload(c)
    sp = "".join(t for t, b in (("F", b"\xff"), ("L", b"\n"), ("R", b"\r")) if b in pay)
    kinds = "".join(sorted({op[0] for op in c["ops"]} | {op[2][0].upper() for op in c["ops"] if len(op) > 2 and op[2] != "list"}))
    split = ""
    if out.startswith("wire="):
        w = unhx(out.split(" ", 1)[0][5:])
        for k in c["cuts"]:
            if 0 < k < len(w) and w[k - 1:k + 1] in (b"\xff\xff", b"\r\n"):
                split = "S"
    return f"send:{kinds}:{sp}:{split}:{ev}:{state}"
