"""C38 — telnet carries application bytes transparently.

Real `TelnetTransport.write` / `writeSequence` → wire (StringTransport) → arbitrary segmentation →
real `TelnetTransport.dataReceived` with a recording application protocol, against the Lean model
(TwistedModel/Telnet/Data.lean); plus the property oracle evaluated on the real code alone."""
from twisted.conch import telnet
from twisted.internet.testing import StringTransport

HEADLINE = "TwistedProps.C38.transparent"
RULE = ("send: 1..5 write/writeSequence calls (the sequence as list, tuple, generator or iterator) whose byte strings are drawn from an alphabet rich in 0xFF, LF, "
        "the telnet command bytes 0xEF..0xFE, NUL (and CR in a minority of cases, tie only), the wire cut at "
        "none / every / random offsets (empty segments included); one send case in four is a HISTORY with the sender's own telnet layer "
        "in between the writes (will(opt) / do(opt) on fresh options incl. 0 = TRANSMIT-BINARY, 0xFF, CR, LF; requestNegotiation(about, data) "
        "with data rich in IAC/SE/CR/LF), delivered to a peer whose application refuses or ACCEPTS every option; a LARGE class (34 quick / 420 thorough "
        "cases + corpus): one write or writeSequence of 4095..70000 bytes (thorough up to 200000) at the sizes 2^k-1, 2^k, 2^k+1 for k=12..16, periodic "
        "patterns rich in IAC/LF/NUL given as #<n>.<k>, delivered whole, in 1024/4096/8192/65536-byte reads or cut at random; "
        "recv: raw wire streams from the telnet grammar "
        "(data, IAC IAC, IAC cmd, IAC WILL/WONT/DO/DONT opt, IAC SB … IAC SE, CR LF / CR NUL / bare CR / CR IAC, "
        "malformed: IAC+other, empty subnegotiation) randomly segmented; distinct = (op kinds, special bytes "
        "present, whether a cut splits an escape pair, event kinds, exceptions, final parser state, negotiation ops / accepting peer, size bucket and read size of large cases)")
ASSUMES = [
    "application bytes contain no CR (0x0D) — the property's own precondition; a bare CR is not restored by the receiver",
    "the underlying transport delivers the written bytes unchanged and in order (any segmentation, empty segments allowed)",
    "the receiving Telnet instance starts in state 'data' (fresh connection); what precedes the application bytes on the connection "
    "is the sender's own complete negotiation traffic (will/do/requestNegotiation), nothing else",
    "negotiation histories: each option is offered/requested at most once per connection (a second will/do of the same option writes nothing: "
    "AlreadyNegotiating), the subnegotiation's option byte is not 0xFF (telnet.py does not escape it); the peer's replies are not fed back to the sender",
]
TRUSTED = [
    "twisted.internet.testing.StringTransport as the byte sink (write/writeSequence concatenate)",
    "bytes.replace with a one-byte pattern behaves as a per-byte substitution",
    "harness/py2lean.py (translator: TelnetTransport.write and the ProtocolTransportMixin.write it calls are regenerated into "
    "lean/Generated/Telnet.lean on every run — each method as the bytes it hands on, the chained data.replace(b'\\xff', "
    "b'\\xff\\xff') / data.replace(b'\\n', b'\\r\\n') as the translator's fixed pyReplace1; translator-regenerated kernel proved "
    "equal to the model: TwistedProps.C38.gen_write, gen_wire)",
    "large cases: wire / application chunks longer than 48 bytes are compared as <length>.<polynomial digest mod 1e9+7> (same fold in "
    "Python and in the Lean driver); the oracle judges the real bytes, not the digest",
]
MANIFEST = {
    "text": "Lean theorems (TwistedProps/C38.lean): for every history of write/writeSequence calls with CR-free byte "
            "strings and every segmentation of the resulting wire stream (empty segments included), the receiver state "
            "machine raises nothing, makes no commandReceived/negotiate call, delivers exactly the written bytes to "
            "applicationDataReceived and ends in state 'data'; every LF travels as CR LF. Proved via a byte-level trace "
            "semantics shown equal to the chunked loop with its local buffer (segmentation invariance for every non-raising "
            "stream) and a literal-consumption lemma for the escape image. Extended to histories in which the sender's telnet layer "
            "negotiates in between (transparent_with_negotiation: IAC WILL/WONT/DO/DONT opt and IAC SB about data IAC SE with any data): "
            "the only commandReceived/negotiate calls are the sender's own, in order, and the application bytes are still exactly the written ones. "
            "TelnetTransport.write's escaping is regenerated from "
            "telnet.py by the translator on every run and proved equal to the model's write (gen_write). Model tied to telnet.py by differential runs of "
            "sender and receiver, event by event, incl. negotiation histories and writes/reads of up to 70000 (thorough 200000) bytes "
            "(the driver's accumulator loop is proved equal to the model's loop: feedEachFast_eq).",
    "note": "trusts Lean kernel, the hand-written model of TelnetTransport.write/writeSequence, Telnet._will/_do/requestNegotiation (as the bytes they write) "
            "and Telnet.dataReceived (differentially tied), StringTransport, CPython bytes.replace",
    "technique": "Lean 4 proof (trace semantics + induction over bytes/segments/history) + differential tie + translator-regenerated "
                 "kernel (TelnetTransport.write) proved equal to the model",
    "design_ref": "DESIGN.md §7 C38",
}

SPECIAL = [0xFF, 0xFF, 0xFF, 0x0A, 0x0A, 0xF4, 0xF0, 0xFA, 0xFB, 0xFD, 0xEF, 0xF1, 0xF9, 0xFE, 0xFC, 0x00, 0x61, 0x62, 0x20, 0x7F, 0xEE]

# periodic patterns of the large class: the token `#<n>.<k>` is the first n bytes of PATS[k] repeated (same table in Drv/C38.lean)
PATS = [b"a", b"ab\n\xff", b"\xff", b"\n", b"x\xff\xf4y\n\x00", b"\xff\n", b"\xfa\xff\xf0\n\xffz"]
DIGEST_OVER = 48
CMD = {"will": 0xFB, "wont": 0xFC, "do": 0xFD, "dont": 0xFE}


def hx(b):
    return bytes(b).hex() if b else "-"


def unhx(s):
    if s == "-":
        return b""
    if s.startswith("#"):
        n, k = s[1:].split(".")
        n, p = int(n), PATS[int(k)]
        return (p * (n // len(p) + 1))[:n]
    return bytes.fromhex(s)


def digest(b):
    h = 0
    for x in b:
        h = (h * 257 + x + 1) % 1000000007
    return h


def hxo(b, z):
    """output form: hex; in a large case anything longer than DIGEST_OVER bytes as ~<len>.<digest>"""
    if z and len(b) > DIGEST_OVER:
        return f"~{len(b)}.{digest(b)}"
    return hx(b)


def _tokens(c):
    for op in c.get("ops", ()):
        if op[0] == "w":
            yield op[1]
        elif op[0] == "s":
            yield from op[1]


def _isbig(c):
    return c["op"] == "send" and any(t.startswith("#") for t in _tokens(c))


# ---------------------------------------------------------------------------------------
# the real code

class _App(telnet.TelnetProtocol):
    """The peer application: records what it is given; refuses (TelnetProtocol's default) or accepts every option."""

    def __init__(self, log, accept=False):
        self.log = log
        self.accept = accept

    def dataReceived(self, data):
        self.log.append(("A", bytes(data)))

    def enableLocal(self, option):
        return self.accept

    def enableRemote(self, option):
        return self.accept


class _Recv(telnet.TelnetTransport):
    """Real TelnetTransport; commandReceived / negotiate are observed, then run unchanged."""

    def __init__(self, log, accept=False):
        telnet.TelnetTransport.__init__(self, _App, log, accept)
        self.log = log

    def commandReceived(self, command, argument):
        self.log.append(("C", command.hex() + ":" + ("-" if argument is None else argument.hex())))
        telnet.TelnetTransport.commandReceived(self, command, argument)

    def negotiate(self, data):
        telnet.TelnetTransport.negotiate(self, data)
        self.log.append(("N", b"".join(data)))


STATES = ("data", "escaped", "command", "newline", "subnegotiation", "subnegotiation-escaped")


def _receive(segs, accept=False):
    """→ (events per dataReceived call, final state); event = ("A", bytes) | ("C", "cc:aa") | ("N", bytes) | ("!", name)"""
    out = []
    log = []
    r = _Recv(log, accept)
    r.makeConnection(StringTransport())
    for s in segs:
        del log[:]
        try:
            r.dataReceived(s)
        except (ValueError, IndexError) as e:
            log.append(("!", type(e).__name__))
        out.append(list(log))
    assert r.state in STATES
    return out, r.state


def _show_ev(ev, z):
    if ev[0] == "A":
        return "A" + hxo(ev[1], z)
    if ev[0] == "N":
        return "N" + hxo(ev[1], z)
    return ev[0] + ev[1]


def _show(res, z=False):
    segs, state = res
    return "|".join(",".join(_show_ev(e, z) for e in seg) if seg else "-" for seg in segs) + " state=" + state


def _swallow(f):
    return None


def _send(ops):
    t = telnet.TelnetTransport()
    st = StringTransport()
    t.makeConnection(st)
    for op in ops:
        if op[0] == "w":
            t.write(unhx(op[1]))
        elif op[0] == "s":
            t.writeSequence(_container([unhx(x) for x in op[1]], op[2] if len(op) > 2 else "list"))
        elif op[0] == "c":
            # the sender's own telnet layer: will/do(option) — IAC WILL/DO option through Telnet._write
            getattr(t, op[1])(unhx(op[2])).addErrback(_swallow)
        elif op[0] == "n":
            t.requestNegotiation(unhx(op[1]), unhx(op[2]))
        else:
            raise AssertionError(op)
    return st.value()


def _container(items, kind):
    """ITransport.writeSequence takes any Iterable[bytes]: lists, tuples and ONE-SHOT iterables (seeded change C38-2
    scanned the argument before joining it, which empties a generator)"""
    if kind == "tuple":
        return tuple(items)
    if kind == "gen":
        return (x for x in items)
    if kind == "iter":
        return iter(items)
    return items


def _cut(w, cuts):
    segs, pos = [], 0
    for c in cuts:
        n = max(c - pos, 0)
        segs.append(w[:n])
        w = w[n:]
        pos = max(c, pos)
    segs.append(w)
    return segs


_LAST = {"key": None, "res": None}


def _run_send(c):
    w = _send(c["ops"])
    res = (w,) + _receive(_cut(w, c["cuts"]), bool(c.get("accept")))
    _LAST["key"], _LAST["res"] = repr(c), res
    return res


def run_impl(c):
    if c["op"] == "recv":
        return _show(_receive([unhx(s) for s in c["segs"]]))
    _LAST["key"] = None
    z = _isbig(c)
    w, segs, state = _run_send(c)
    return "wire=" + hxo(w, z) + " " + _show((segs, state), z)


def model_line(c):
    if c["op"] == "recv":
        return "recv " + ",".join(c["segs"])
    ops = []
    for op in c["ops"]:
        if op[0] == "w":
            ops.append("w:" + op[1])
        elif op[0] == "s":
            ops.append("s:" + ";".join(op[1]))
        elif op[0] == "c":
            ops.append("c:%02x%s" % (CMD[op[1]], op[2]))
        else:
            ops.append("n:" + op[1] + ":" + op[2])
    return ("sendz " if _isbig(c) else "send ") + (",".join(str(x) for x in c["cuts"]) if c["cuts"] else "-") + " " + " ".join(ops)


# ---------------------------------------------------------------------------------------
# the property on the implementation (independent of the model)

def _payload(c):
    return b"".join(unhx(op[1]) if op[0] == "w" else b"".join(unhx(x) for x in op[1]) for op in c["ops"] if op[0] in "ws")


def _own_commands(c):
    """what the SENDER's telnet layer was asked to transmit (not application data): the only commandReceived /
    negotiate calls the peer may see"""
    out = []
    for op in c["ops"]:
        if op[0] == "c":
            out.append("C%02x:%s" % (CMD[op[1]], op[2]))
        elif op[0] == "n":
            out.append("N" + hx(unhx(op[1]) + unhx(op[2])))
    return out


def _short(b):
    return repr(b) if len(b) <= 40 else f"{b[:24]!r}…({len(b)} bytes)"


def _firstdiff(a, b):
    n = next((i for i, (x, y) in enumerate(zip(a, b)) if x != y), min(len(a), len(b)))
    return f"first difference at offset {n}: wrote {a[n:n + 8]!r}, received {b[n:n + 8]!r}; lengths {len(a)} / {len(b)}"


def oracle(c, out):
    if c["op"] != "send":
        return None
    pay = _payload(c)
    if b"\r" in pay:
        return None                          # outside the statement's precondition
    seq_special = any(op[0] == "s" and any((b"\xff" in unhx(x)) or (b"\n" in unhx(x)) for x in op[1]) for op in c["ops"])
    key = "writeSequence-unescaped" if seq_special else "write-not-transparent"
    if not out.startswith("wire="):
        return {"key": key, "detail": f"writing {_short(pay)} / receiving raised: {out[:200]}"}
    # the real bytes of this run (large cases show digests in `out`); re-run the real code if this is not the last case run
    wire, segs, state = _LAST["res"] if _LAST["key"] == repr(c) else _run_send(c)
    got = b"".join(ev[1] for seg in segs for ev in seg if ev[0] == "A")
    other = [_show_ev(ev, False) for seg in segs for ev in seg if ev[0] != "A"]
    # IAC (any byte) of application data is never interpreted as telnet: every command / negotiation the peer sees is one the
    # sender's telnet layer was asked to send
    own = _own_commands(c)
    extra = list(other)
    for x in own:
        if x in extra:
            extra.remove(x)
    if extra:
        return {"key": key, "detail": f"application bytes {_short(pay)} (wire {_short(wire)}) were interpreted as telnet "
                                      f"commands / raised: {extra[:6]}; application received {_short(got)}"}
    if got != pay:
        return {"key": key, "detail": f"application wrote {_short(pay)}, peer application received {_short(got)} (wire {_short(wire)})"
                                      + ("; " + _firstdiff(pay, got) if len(pay) > 40 else "")
                                      + (f"; sender's own telnet traffic in between: {own}, peer accepts options: {bool(c.get('accept'))}" if own else "")}
    if state != "data":
        return {"key": key, "detail": f"receiver left in state {state!r} after complete messages {_short(pay)}: the next byte is swallowed"}
    # line feeds travel as CR LF (payload has no CR of its own); judged on the whole wire unless the sender's own
    # negotiation traffic carries CR / LF byte values itself
    if not any(b in unhx(t) for op in c["ops"] if op[0] in "cn" for t in op[1:] if op[0] == "n" or t is op[2] for b in b"\r\n"):
        nlf = pay.count(b"\n")
        if wire.count(b"\r\n") != nlf or wire.count(b"\n") != nlf or wire.count(b"\r") != nlf:
            return {"key": key, "detail": f"line feeds of {_short(pay)} not sent as CR LF: wire {_short(wire)} has {wire.count(b'\r\n')} CR LF, "
                                          f"{wire.count(b'\n')} LF, {wire.count(b'\r')} CR for {nlf} line feeds"}
    return None


# ---------------------------------------------------------------------------------------
# cases

def corpus():
    return [
        # the witness: writeSequence with IAC IP and LF in application data
        {"op": "send", "cuts": [], "ops": [["s", ["78fff4790a"]]]},
        {"op": "send", "cuts": [], "ops": [["w", "78fff4790a"]]},
        {"op": "send", "cuts": [1, 2, 3, 4, 5, 6, 7], "ops": [["w", "ffff0a0aff"], ["s", ["ff", "0a"]], ["w", "-"]]},
        {"op": "send", "cuts": [], "ops": [["s", []]]},
        # one-shot iterables (seeded change C38-2): nothing special / something special in the middle
        {"op": "send", "cuts": [], "ops": [["s", ["61", "62"], "gen"], ["s", ["616263", "fff4", "6c0a", "ff", "ff65"], "iter"]]},
        {"op": "send", "cuts": [2], "ops": [["s", ["ff", "0a", "78"], "tuple"], ["w", "79"]]},
        {"op": "send", "cuts": [0, 0, 3], "ops": [["s", ["-", "61", "-"]], ["w", "fffb01"]]},
        {"op": "send", "cuts": [1], "ops": [["w", "0d0a"]]},           # CR in data: outside the precondition, tie only
        {"op": "send", "cuts": [], "ops": [["w", "610d"]]},
        # histories with the sender's own negotiation in between (mutants m09 m10 m11): application data right before a command,
        # a subnegotiation with IAC / SE / CR LF in its data, TRANSMIT-BINARY offered / requested and accepted by the peer
        {"op": "send", "cuts": [], "accept": False, "ops": [["w", "6162630a"], ["c", "will", "01"], ["w", "6465660a"]]},
        {"op": "send", "cuts": [], "accept": False, "ops": [["w", "61ff"], ["n", "1f", "0050fff00d0a18"], ["s", ["0a", "ff62"]]]},
        {"op": "send", "cuts": [5], "accept": True, "ops": [["w", "610a"], ["c", "will", "00"], ["w", "620a63"], ["c", "do", "03"], ["w", "0aff"]]},
        {"op": "send", "cuts": [], "accept": True, "ops": [["c", "do", "00"], ["s", ["780a", "0a79"], "gen"]]},
        {"op": "send", "cuts": [1, 2, 3, 4, 5, 6, 7, 8], "accept": True, "ops": [["c", "will", "ff"], ["w", "ff0a"], ["n", "00", "-"], ["w", "0a"]]},
        # large writes / reads (mutants m05 m07): around 4096 and 65536, whole and in 4096-byte reads
        {"op": "send", "cuts": [], "ops": [["w", "#4097.0"]]},
        {"op": "send", "cuts": [], "ops": [["s", ["#4096.4", "#2.5"]]]},
        {"op": "send", "cuts": [], "ops": [["s", ["#40000.1", "#25536.4"], "tuple"]]},
        {"op": "send", "cuts": list(range(4096, 100000, 4096)), "ops": [["w", "#65537.6"], ["s", ["#65536.5"], "gen"]]},
        {"op": "recv", "segs": ["fffb01fffc01fffd01fffe01"]},
        {"op": "recv", "segs": ["61ff", "f4", "62"]},
        {"op": "recv", "segs": ["fffa1f0050ffff0018fff0"]},
        {"op": "recv", "segs": ["61fffafff062"]},                        # empty subnegotiation → IndexError
        {"op": "recv", "segs": ["6162ff0163", "ff64"]},                  # Stumped; state stays escaped
        {"op": "recv", "segs": ["0d", "0a", "0d00", "0d61", "0dff", "ff", "0d0d0a"]},
        {"op": "recv", "segs": ["fff0"]},
        {"op": "recv", "segs": ["-", "-"]},
    ]


def _bytes(rng, n, cr=False):
    al = SPECIAL + ([0x0D, 0x0D] if cr else [])
    return bytes(rng.choice(al) if rng.random() < 0.75 else rng.choice([x for x in range(256) if cr or x != 0x0D])
                 for _ in range(n))


OPTS = [0x00, 0x00, 0x00, 0x01, 0x03, 0x18, 0x1F, 0x22, 0x0A, 0x0D, 0xFF, 0xF0]
ABOUT = [0x1F, 0x1F, 0x18, 0x22, 0x00, 0xF0, 0x0A, 0xFA]


def _neg_ops(rng, k):
    """k calls on the sender's own telnet layer; every option at most once (a second will/do of it writes nothing)"""
    used, out = set(), []
    for _ in range(k):
        if rng.random() < 0.6:
            opt = rng.choice([o for o in OPTS if o not in used])
            used.add(opt)
            out.append(["c", rng.choice(["will", "do"]), "%02x" % opt])
        else:
            n = rng.choice([0, 0, 1, 2, 4, 6])
            data = _bytes(rng, n, True) if rng.random() < 0.35 else bytes(rng.choice([0x00, 0x50, 0x18, 0xFF, 0xF0, 0xFA, 0x01]) for _ in range(n))
            out.append(["n", "%02x" % rng.choice(ABOUT), hx(data)])
    return out


def _gen_send(rng, neg=None):
    cr = rng.random() < 0.12
    ops = []
    for _ in range(rng.choice([1, 1, 2, 3, 4, 5])):
        if rng.random() < 0.5:
            ops.append(["w", hx(_bytes(rng, rng.choice([0, 1, 2, 3, 5, 8, 13]), cr))])
        else:
            ops.append(["s", [hx(_bytes(rng, rng.choice([0, 1, 1, 2, 4, 7]), cr)) for _ in range(rng.choice([0, 1, 2, 3, 4]))],
                        rng.choice(["list", "list", "tuple", "gen", "iter"])])
    c = {"op": "send", "ops": ops, "cuts": []}
    if neg if neg is not None else rng.random() < 0.25:
        for op in _neg_ops(rng, rng.choice([1, 1, 2, 3])):
            ops.insert(rng.randrange(len(ops) + 1), op)
        c["accept"] = rng.random() < 0.5
    n = 2 * len(_payload(c)) + 2 + sum(5 + 2 * len(unhx(op[2])) if op[0] == "n" else 3 for op in ops if op[0] in "cn")
    m = rng.random()
    if m < 0.2:
        cuts = []
    elif m < 0.45:
        cuts = list(range(1, n))
    else:
        cuts = sorted(rng.randrange(0, n + 1) for _ in range(rng.randint(1, min(8, n))))
    c["cuts"] = cuts
    return c


BIG_SIZES = [4095, 4096, 4097, 4098, 8191, 8192, 8193, 16383, 16384, 16385, 32767, 32768, 32769, 65535, 65536, 65537, 70000]
BIG_SIZES_THOROUGH = [131071, 131072, 131073, 200000]


def _gen_big(rng, tier, i):
    """one write / writeSequence of a boundary size; the sizes are walked through in turn — first pass writeSequence, second pass
    write, then mixed — so that every quick run has every size in both forms"""
    sizes = BIG_SIZES + (BIG_SIZES_THOROUGH if tier != "quick" else [])
    n = sizes[i % len(sizes)]
    k = rng.choice([0, 1, 1, 2, 3, 4, 4, 5, 6, 6])
    form = rng.random() * 0.6 + (0.4 if i // len(sizes) == 0 else 0.0 if i // len(sizes) == 1 else rng.choice([0.0, 0.4]))
    if form < 0.4:
        op = ["w", f"#{n}.{k}"]
    elif form < 0.6:
        op = ["s", [f"#{n}.{k}"], rng.choice(["list", "tuple", "gen", "iter"])]
    else:
        a = rng.choice([1, 2, n // 2, n - 1, rng.randrange(1, n)])
        el = [f"#{a}.{k}", f"#{n - a}.{rng.choice([1, 4, 5, 6, rng.randrange(len(PATS))])}"]
        if rng.random() < 0.4:
            el.insert(rng.randrange(3), hx(_bytes(rng, rng.choice([0, 1, 3]))))
        op = ["s", el, rng.choice(["list", "tuple", "gen", "iter"])]
    ops = [op]
    if rng.random() < 0.3:
        ops.insert(rng.randrange(2), ["w", hx(_bytes(rng, rng.choice([1, 3, 8])))])
    c = {"op": "send", "ops": ops, "cuts": []}
    m = rng.random()
    if m < 0.45:
        cuts = []
    elif m < 0.75:
        step = rng.choice([1024, 4096, 8192, 65536])
        cuts = list(range(step, 2 * n + 20, step))
    else:
        cuts = sorted(rng.randrange(0, 2 * n) for _ in range(rng.randint(1, 4)))
    c["cuts"] = cuts
    return c


def _gen_stream(rng):
    toks = []
    for _ in range(rng.randint(1, 10)):
        r = rng.random()
        if r < 0.25:
            toks.append(bytes(rng.choice([0x61, 0x62, 0x00, 0x0A, 0x20, 0xF4, 0xEE]) for _ in range(rng.randint(1, 4))))
        elif r < 0.35:
            toks.append(b"\xff\xff")
        elif r < 0.45:
            toks.append(b"\xff" + bytes([rng.choice([239, 241, 242, 243, 244, 245, 246, 247, 248, 249])]))
        elif r < 0.55:
            toks.append(b"\xff" + bytes([rng.choice([251, 252, 253, 254]), rng.choice([0, 1, 3, 31, 34, 255, 13])]))
        elif r < 0.68:
            body = b"".join(rng.choice([b"\x1f", b"\x00", b"P", b"\xff\xff", b"\r", b"\n", b"\xf0", b"\xff\xfa"])
                            for _ in range(rng.choice([0, 0, 1, 2, 5])))
            toks.append(b"\xff\xfa" + body + b"\xff\xf0")
        elif r < 0.85:
            toks.append(b"\r" + rng.choice([b"\n", b"\0", b"a", b"\xff", b"\r", b"", b"\xff\xff", b"\xff\xf4"]))
        elif r < 0.92:
            toks.append(b"\xff" + bytes([rng.choice([0, 1, 0x61, 238, 240, 13, 10])]))   # Stumped
        else:
            toks.append(_bytes(rng, rng.randint(1, 5), True))
    w = b"".join(toks)
    m = rng.random()
    if m < 0.2:
        cuts = []
    elif m < 0.45:
        cuts = list(range(1, len(w)))
    else:
        cuts = sorted(rng.randrange(0, len(w) + 1) for _ in range(rng.randint(1, 6)))
    return {"op": "recv", "segs": [hx(s) for s in _cut(w, cuts)]}


def generate(rng, tier):
    n = 2500 if tier == "quick" else 60000
    nbig = 34 if tier == "quick" else 420
    every = n // nbig
    for i in range(n):
        if i % every == every // 2 and i // every < nbig:
            yield _gen_big(rng, tier, i // every)
        yield _gen_send(rng) if rng.random() < 0.6 else _gen_stream(rng)


def search(rng, tier, disagreeing):
    """Property-directed: every call as write and as writeSequence (whole / per byte), every cut set of
    size ≤ 1 and the all-bytes cut, around the (small) disagreeing cases and the corpus, the sender's own negotiation
    calls kept in place; then fresh random sends, half of them negotiation histories."""
    small = lambda c: c.get("op") == "send" and not _isbig(c) and len(_payload(c)) <= 64
    seeds = [c for c in disagreeing if small(c)] + [c for c in corpus() if small(c)]
    for c in seeds[:40]:
        pays = [op if op[0] in "cn" else unhx(op[1]) if op[0] == "w" else b"".join(unhx(x) for x in op[1]) for op in c["ops"]]
        forms = [
            [p if isinstance(p, list) else ["w", hx(p)] for p in pays],
            [p if isinstance(p, list) else ["s", [hx(p)]] for p in pays],
            [p if isinstance(p, list) else ["s", [hx(p[i:i + 1]) for i in range(len(p))]] for p in pays],
        ]
        n = 2 * sum(len(p) for p in pays if not isinstance(p, list)) + 1 + 12 * sum(1 for p in pays if isinstance(p, list))
        extra = {"accept": c["accept"]} if "accept" in c else {}
        for ops in forms:
            yield {"op": "send", "ops": ops, "cuts": [], **extra}
            yield {"op": "send", "ops": ops, "cuts": list(range(1, n)), **extra}
            for k in range(n):
                yield {"op": "send", "ops": ops, "cuts": [k], **extra}
    for i in range(3000 if tier == "quick" else 30000):
        yield _gen_send(rng, neg=(i % 2 == 0))


def _shrink_tok(t):
    """smaller byte strings: a pattern token by halving / one less / as its first bytes in hex; hex by dropping one byte"""
    if t.startswith("#"):
        n, k = t[1:].split(".")
        n = int(n)
        if n > 64:
            for m in (n // 2, n - 1024, n - 1):
                if 0 < m < n:
                    yield f"#{m}.{k}"
        else:
            yield hx(unhx(t))
        return
    b = unhx(t)
    for j in range(len(b)):
        yield hx(b[:j] + b[j + 1:])


def shrink(c):
    if c["op"] == "recv":
        segs = c["segs"]
        for i in range(len(segs)):
            if len(segs) > 1:
                yield {"op": "recv", "segs": segs[:i] + segs[i + 1:]}
            b = unhx(segs[i])
            for j in range(len(b)):
                yield {"op": "recv", "segs": segs[:i] + [hx(b[:j] + b[j + 1:])] + segs[i + 1:]}
        return
    ops, cuts = c["ops"], c["cuts"]
    extra = {"accept": c["accept"]} if "accept" in c else {}

    def mk(ops_, cuts_=cuts, extra_=extra):
        return {"op": "send", "ops": ops_, "cuts": cuts_, **extra_}
    if cuts:
        yield mk(ops, [])
        if len(cuts) > 8:
            yield mk(ops, cuts[:len(cuts) // 2])
            yield mk(ops, cuts[len(cuts) // 2:])
        for i in range(len(cuts) if len(cuts) <= 40 else 0):
            yield mk(ops, cuts[:i] + cuts[i + 1:])
    if extra.get("accept"):
        yield mk(ops, cuts, {"accept": False})
    if "accept" in extra and not any(op[0] in "cn" for op in ops):
        yield mk(ops, cuts, {})
    for i in range(len(ops)):
        if len(ops) > 1:
            yield mk(ops[:i] + ops[i + 1:])
    for i, op in enumerate(ops):
        if op[0] == "w":
            for t in _shrink_tok(op[1]):
                yield mk(ops[:i] + [["w", t]] + ops[i + 1:])
        elif op[0] == "n":
            for t in _shrink_tok(op[2]):
                yield mk(ops[:i] + [["n", op[1], t]] + ops[i + 1:])
        elif op[0] == "s":
            el = op[1]
            if len(op) > 2 and op[2] != "list":
                yield mk(ops[:i] + [["s", el]] + ops[i + 1:])
            for k in range(len(el)):
                yield mk(ops[:i] + [["s", el[:k] + el[k + 1:]] + op[2:]] + ops[i + 1:])
                for t in _shrink_tok(el[k]):
                    yield mk(ops[:i] + [["s", el[:k] + [t] + el[k + 1:]] + op[2:]] + ops[i + 1:])


def tag(c, out):
    evs = set()
    body = out.split(" ", 1)[1] if out.startswith("wire=") and " " in out else out
    state = body.rsplit(" state=", 1)[-1] if " state=" in body else "?"
    for seg in body.rsplit(" state=", 1)[0].split("|"):
        for ev in seg.split(","):
            if ev and ev != "-":
                evs.add(ev[0] if ev[0] != "!" else ev)
    ev = "".join(sorted(evs))
    if c["op"] == "recv":
        return f"recv:{ev}:{state}:{min(len(c['segs']), 3)}"
    pay = _payload(c)
    sp = "".join(t for t, b in (("F", b"\xff"), ("L", b"\n"), ("R", b"\r")) if b in pay)
    kinds = "".join(sorted({op[0] for op in c["ops"]} | {op[2][0].upper() for op in c["ops"] if op[0] == "s" and len(op) > 2 and op[2] != "list"}))
    if "accept" in c:
        kinds += "+" if c["accept"] else "-"
    if _isbig(c):
        cuts = c["cuts"]
        mode = "whole" if not cuts else f"every{cuts[0]}" if len(cuts) > 4 else "random"
        return f"send:Z{len(pay).bit_length()}:{kinds}:{sp}:{mode}:{ev}:{state}"
    split = ""
    if out.startswith("wire="):
        w = unhx(out.split(" ", 1)[0][5:])
        for k in c["cuts"]:
            if 0 < k < len(w) and w[k - 1:k + 1] in (b"\xff\xff", b"\r\n"):
                split = "S"
    return f"send:{kinds}:{sp}:{split}:{ev}:{state}"
