"""C48 — HTTP Digest credentials: real DigestCredentialFactory / DigestedCredentials vs the Lean model,
plus the property oracle (exactly-the-right-responses, only LoginFailed) on the real code.

A case is one history: a factory (private key, realm), challenges issued at chosen clock values to chosen
client addresses (the real getChallenge with secureRandom patched to the case's bytes), then ONE response header
(built by an RFC 2617 client written here with hashlib, optionally tampered; or a raw header) decoded at a
chosen clock value from a chosen address, then checkPassword (and checkHash) for a list of passwords.
Optionally (`pre`) the same header is presented to the same factory earlier, at other clock values / from other
addresses, and every presentation is judged; optionally (`via: web`) the whole history goes through
twisted.web._auth.digest.DigestCredentialFactory and request objects.
"""
import base64
import hashlib
import json
from binascii import hexlify

from twisted.cred import _digest, credentials
from twisted.cred.error import LoginFailed

HEADLINE = "TwistedProps.C48.accepts_iff_right_password_unaltered_challenge_same_client_within_lifetime"
RULE = ("histories on ONE factory: 1..3 challenges issued at clock values (quarter seconds) to None/''/b''/str/bytes hosts; one response "
        "from an RFC 2617 client (md5/MD5/sha/md5-sess/absent algorithm, qop auth or absent, quoted or bare values; separators: "
        "comma with optional whitespace / TAB / folded lines after it and, for the tie, before it; leading / trailing whitespace; "
        "empty quoted uri; uri / user name of 0.2..4 kB, 9..15 kB thorough; methods GET/POST/get/M-SEARCH/REGISTER/empty) over the issued or a "
        "tampered nonce and opaque (byte flip/insert/delete/truncate, junk inside and after "
        "the base64, extra '=', non-canonical padding bits, upper-cased digest, parts swapped between challenges, forged with a wrong key "
        "— time field in every spelling int()/float() parsers take: signs, underscores, 4300/4301 digits, inf/nan/exponents/radix "
        "prefixes/non-ASCII digits — forged with the real key for the tie only), from the same / an equivalent / another address, at "
        "issue time, at lifetime-1/+0/+1 s, far beyond, before; PRESENTED 1..3 TIMES to the same factory at different clock values and "
        "from different addresses (valid then expired, valid then valid, refused then valid, ...), every presentation judged; "
        "15 % of the histories run through twisted.web._auth.digest.DigestCredentialFactory with request objects (client address "
        "vs the server's own); replay headers: a captured response plus the nonce/opaque of ANOTHER live challenge, first or last, "
        "same or other capitalisation; fields of the same challenge sent twice; malformed stream: omitted fields (incl. response), "
        "unknown algorithm, auth-int, other qop values, md5-sess without cnonce, "
        "non-ASCII field names, duplicate fields, byte-level mutations of the whole header, raw junk; checkHash(H(A1)) next to every "
        "checkPassword. distinct = (decode outcome, tamper kinds, address relation, time relation, algorithm, qop, password pattern, "
        "separator class, size class, duplicated fields, outcomes of the earlier presentations, direct / web)")
ASSUMES = [
    "hash functions are modelled symbolically: theorems assume H injective (MD5/SHA-1 collisions are outside the model) and "
    "that a client who does not know privateKey can present only digests it was issued (Dolev-Yao); nonce unpredictability is not modelled",
    "the clock is read through _getTime; lifetime is measured on the integer seconds the code embeds in the opaque",
    "client addresses are None, ASCII str or bytes without ',' (IP literals); sys.get_int_max_str_digits() is the default 4300",
    "the 'challenge' of the statement is its nonce and opaque (the dimensions the statement lists); the response's own "
    "algorithm/qop/uri fields are the client's to choose, as in the code",
    "a factory is modelled without state between calls (decodeAll = map decode); that the real factory behaves the same when one "
    "response is presented repeatedly is checked by the differential runs (op runh), not proved about the Python",
    "the 'if' direction is asserted by the oracle for renderings every value survives: comma followed by optional whitespace / "
    "folding, or surrounded by spaces; whitespace before a comma that is not followed by a space after a QUOTED value "
    "(`a=\"x\" ,b=..`) is legal list syntax the parser does not read (the comma joins the next key) — compared with the model only",
    "twisted.web wrapper: addresses are the str hosts of IPv4Address/IPv6Address (a UNIXAddress peer has no .host at all)",
]
TRUSTED = ["hashlib md5/sha1 (digests are handed to the Lean model as a table recorded from the same run)",
           "CPython base64/binascii/re/int semantics as transcribed in TwistedModel/Cred/Digest.lean (differentially tied)",
           "twisted.web.test.requesthelper.DummyRequest / twisted.internet.address as the request fakes of the web-wrapper runs"]
MANIFEST = {
    "text": "Lean theorems (TwistedProps/C48.lean) over the model of DigestCredentialFactory/DigestedCredentials for all "
            "byte strings, clocks and addresses: decode fails only with LoginFailed and checkPassword never raises; an issued "
            "opaque verifies iff presented with its nonce from its address within the lifetime; under injective H and the "
            "Dolev-Yao hypothesis on the opaque digest an accepted response carries byte-for-byte an issued nonce/opaque, from "
            "that address, in time, and the password is accepted iff it is the one the response was computed with; the same for "
            "the i-th response of any history of responses presented to one factory (history_accepts_iff). Model tied "
            "to credentials.py/_digest.py (and the twisted.web wrapper factory) by differential runs of whole histories, each "
            "response presented up to three times, with the real hashlib digests; the oracle judges every presentation from "
            "what the client sent (which nonce and password the digest was computed over), not from what the credentials report.",
    "note": "trusts Lean kernel, the hand-written model (differentially tied, incl. statelessness of the factory), symbolic hash "
            "idealisation, CPython base64/re/int",
    "technique": "Lean 4 proof (base64 round trip, split/join, decimal round trip, injectivity chains) + differential tie",
    "design_ref": "DESIGN.md §7.6 C48",
}

LIFE = 15 * 60


def hx(b):
    return b.hex() if b else "-"


def unhx(s):
    return b"" if s == "-" else bytes.fromhex(s)


def host_obj(h):
    if h[0] == "N":
        return None
    if h[0] == "s":
        return h[1]
    return unhx(h[1])


def host_norm(h):
    o = host_obj(h)
    if not o:
        return b""
    return o.encode("ascii") if isinstance(o, str) else o


def host_tok(h):
    if h[0] == "N":
        return "N"
    return hx(host_norm(h)) if h[0] == "s" else h[1]


# ------------------------------------------------------------------------------------------------
# an RFC 2617 client, independent of twisted.cred._digest

def _H(alg, data):
    return hexlify((hashlib.sha1 if alg == "sha" else hashlib.md5)(data).digest())


def client_response(alg, user, realm, pw, method, uri, nonce, qop, nc, cnonce):
    a = (alg or "md5").lower()
    ha1 = _H(a, user + b":" + realm + b":" + pw)
    if a == "md5-sess":
        ha1 = _H(a, ha1 + b":" + nonce + b":" + cnonce)
    ha2 = _H(a, method + b":" + uri)
    if qop is not None:
        return _H(a, b":".join([ha1, nonce, nc, cnonce, qop.encode(), ha2]))
    return _H(a, b":".join([ha1, nonce, ha2]))


def mutate_bytes(b, m):
    k = m["kind"]
    if k == "flip":
        if not b:
            return b"\x01"
        p = m["pos"] % len(b)
        return b[:p] + bytes([b[p] ^ m["x"]]) + b[p + 1:]
    if k == "del":
        if not b:
            return b
        p = m["pos"] % len(b)
        return b[:p] + b[p + 1:]
    if k == "ins":
        p = m["pos"] % (len(b) + 1)
        return b[:p] + unhx(m["b"]) + b[p:]
    if k == "trunc":
        return b[: m["pos"] % (len(b) + 1)]
    if k == "append":
        return b + unhx(m["b"])
    if k == "set":
        return unhx(m["b"])
    if k == "upper":
        return b.upper()
    if k == "padbits":  # change the unused low bits of the last sextet before '='
        i = len(b) - 1
        while i >= 0 and b[i:i + 1] == b"=":
            i -= 1
        if i < 0 or i == len(b) - 1:
            return b
        abc = b"ABCDEFGHIJKLMNOPQRSTUVWXYZabcdefghijklmnopqrstuvwxyz0123456789+/"
        v = abc.find(b[i:i + 1])
        if v < 0:
            return b
        return b[:i] + abc[v ^ 1:(v ^ 1) + 1] + b[i + 1:]
    return b


def make_opaque(pk, keybytes, b64mut=None):
    dig = hexlify(hashlib.md5(keybytes + pk).digest())
    e = base64.b64encode(keybytes)
    if b64mut:
        e = mutate_bytes(e, b64mut)
    return dig + b"-" + e


def _two(opaque):
    d, _, e = opaque.partition(b"-")
    return d, e


def build_header(case, chals):
    """→ (header bytes, sent nonce, sent opaque) for a structured client; raw cases return the raw bytes."""
    if case.get("raw") is not None:
        return unhx(case["raw"]), None, None
    cl = case["client"]
    pk = unhx(case["pk"])
    ch = chals[cl["use"] % len(chals)] if chals else {"nonce": b"00", "opaque": b"0-0"}
    nonce, opaque = ch["nonce"], ch["opaque"]
    for m in cl.get("nonce_mut") or []:
        if m["kind"] == "other":
            nonce = chals[m["i"] % len(chals)]["nonce"]
        else:
            nonce = mutate_bytes(nonce, m)
    for m in cl.get("opaque_mut") or []:
        k = m["kind"]
        if k == "other":
            opaque = chals[m["i"] % len(chals)]["opaque"]
        elif k == "swapdigest":  # digest of another challenge, base64 of this one
            o2 = chals[m["i"] % len(chals)]["opaque"]
            opaque = o2.split(b"-")[0] + b"-" + _two(opaque)[1]
        elif k == "b64":  # mutate only the base64 part
            d, e = _two(opaque)
            opaque = d + b"-" + mutate_bytes(e, m["m"])
        elif k == "digest":
            d, e = _two(opaque)
            opaque = mutate_bytes(d, m["m"]) + b"-" + e
        elif k == "rekey":  # keep the digest, re-encode an altered key
            d, e = _two(opaque)
            opaque = d + b"-" + base64.b64encode(unhx(m["key"]))
        elif k == "forge":  # a whole new opaque under key m["pk"] (the real one iff case["insider"])
            fpk = pk if m.get("realpk") else unhx(m["pk"])
            opaque = make_opaque(fpk, unhx(m["key"]), m.get("b64mut"))
        elif k == "forge_now":  # forged key nonce,ip,<timefield> under the real key: exercises int() parsing
            fpk = pk if m.get("realpk") else unhx(m["pk"])
            keyb = b",".join([nonce, host_norm(case["host"]), unhx(m["time"])])
            opaque = make_opaque(fpk, keyb, m.get("b64mut"))
        else:
            opaque = mutate_bytes(opaque, m)
    realm = unhx(case["realm"])
    user, pw, uri = unhx(cl["user"]), unhx(cl["pw"]), unhx(cl["uri"])
    nc, cnonce = unhx(cl["nc"]), unhx(cl["cnonce"])
    resp = client_response(cl["alg"], user, realm, pw, unhx(case["method"]), uri, nonce, cl["qop"], nc, cnonce)
    fields = [(b"username", user), (b"realm", realm), (b"nonce", nonce), (b"uri", uri), (b"response", resp)]
    if cl["alg"] is not None:
        fields.append((b"algorithm", cl["alg"].encode()))
    if cl["qop"] is not None:
        fields += [(b"qop", cl["qop"].encode()), (b"nc", nc), (b"cnonce", cnonce)]
    fields.append((b"opaque", opaque))
    omit = set(cl.get("omit") or [])
    fields = [(k, v) for k, v in fields if k.decode() not in omit]
    for k, v in cl.get("override") or []:  # replace a field's value (e.g. algorithm=bogus, qop=auth-int)
        fields = [(fk, unhx(v) if fk == k.encode() else fv) for fk, fv in fields]
    for pos, k, v in cl.get("extra") or []:
        p = pos % (len(fields) + 1)
        fields = fields[:p] + [(unhx(k), unhx(v))] + fields[p:]
    rot = cl.get("rot", 0) % max(1, len(fields))
    fields = fields[rot:] + fields[:rot]
    for pos, k, src in cl.get("dup") or []:  # a further field whose value is taken from an issued challenge
        if src[0] == "n":
            v = chals[src[1] % len(chals)]["nonce"] if chals else b"00"
        elif src[0] == "o":
            v = chals[src[1] % len(chals)]["opaque"] if chals else b"0-0"
        elif src[0] == "r":  # the digest of this response again
            v = resp
        else:
            v = unhx(src[1])
        p = len(fields) if pos < 0 else pos % (len(fields) + 1)
        fields = fields[:p] + [(unhx(k), v)] + fields[p:]
    q = b'"' if cl["quotes"] else b""
    header = unhx(cl["sep"]).join(k + b"=" + q + v + q for k, v in fields)
    header = unhx(cl.get("lead", "-")) + header + unhx(cl.get("tail", "-"))
    for m in cl.get("header_mut") or []:
        header = mutate_bytes(header, m)
    return header, nonce, opaque


# ------------------------------------------------------------------------------------------------
# running the real code

_memo = {}


class _Rec:
    """hashlib-like object around the real constructor that records (kind, input, digest)."""

    def __init__(self, kind, real, table, data=b""):
        self._kind, self._table = kind, table
        self._h = real(data)
        self._data = bytes(data)

    def update(self, d):
        self._h.update(d)
        self._data += bytes(d)

    def digest(self):
        out = self._h.digest()
        self._table.append((self._kind, self._data, out))
        return out


def _via_web(case):
    """The history goes through twisted.web._auth.digest.DigestCredentialFactory and request objects (only possible
    when every address is a non-empty str, as twisted.web's own addresses are)."""
    if case.get("via") != "web":
        return False
    hosts = [i["host"] for i in case["issues"]] + [e["host"] for e in case.get("pre") or []] + [case["host"]]
    return all(h[0] == "s" and h[1] for h in hosts)


def _request(method, host):
    from twisted.internet.address import IPv4Address, IPv6Address
    from twisted.web.test.requesthelper import DummyRequest
    r = DummyRequest([])
    r.method = method
    h = host_obj(host)
    r.client = (IPv6Address if ":" in h else IPv4Address)("TCP", h, 40000 + len(h))
    return r


def _events(case):
    return [{"now": e["now"], "host": e["host"]} for e in case.get("pre") or []] + [{"now": case["now"], "host": case["host"]}]


def _execute(case):
    key = json.dumps(case, sort_keys=True)
    if key in _memo:
        return _memo[key]
    if len(_memo) > 4000:
        _memo.clear()
    table = []
    real_md5, real_sha1 = hashlib.md5, hashlib.sha1

    def mk(kind, real):
        return lambda data=b"": _Rec(kind, real, table, data)

    rnd = []
    expected = []
    real_calc = credentials.calcResponse

    def calc(*a, **kw):
        r = real_calc(*a, **kw)
        expected.append(r)
        return r

    saved = (credentials.md5, credentials.secureRandom, credentials.calcResponse, dict(_digest.algorithms))
    credentials.md5 = mk("m", real_md5)
    credentials.secureRandom = lambda n: rnd.pop(0) if rnd else b"\x00" * n
    credentials.calcResponse = calc
    _digest.algorithms[b"md5"] = mk("m", real_md5)
    _digest.algorithms[b"md5-sess"] = mk("m", real_md5)
    _digest.algorithms[b"sha"] = mk("s", real_sha1)
    R = {"chals": [], "dec": None, "user": None, "fields": None, "pw": [], "hash": [], "header": b"", "events": []}
    web = _via_web(case)
    realm, method = unhx(case["realm"]), unhx(case["method"])
    try:
        if web:
            from twisted.web._auth.digest import DigestCredentialFactory as WebFactory
            w = WebFactory(case["falg"].encode(), realm)
            f = w.digest
        else:
            w = None
            f = credentials.DigestCredentialFactory(case["falg"].encode(), realm)
        f.privateKey = unhx(case["pk"])
        clock = [0.0]
        f._getTime = lambda: clock[0]
        for iss in case["issues"]:
            clock[0] = iss["t"] / 4.0
            rnd.append(unhx(iss["rnd"]))
            ch = w.getChallenge(_request(method, iss["host"])) if web else f.getChallenge(host_obj(iss["host"]))
            R["chals"].append({"nonce": ch["nonce"], "opaque": ch["opaque"], "t": iss["t"], "host": iss["host"]})
        header, sn, so = build_header(case, R["chals"])
        R["header"], R["sent_nonce"], R["sent_opaque"] = header, sn, so
        for ev in _events(case):  # every response of the history is decoded by the SAME factory
            E = {"now": ev["now"], "host": ev["host"], "dec": None, "user": None, "fields": None, "pw": [], "hash": []}
            R["events"].append(E)
            clock[0] = ev["now"] / 4.0
            creds = None
            try:
                creds = w.decode(header, _request(method, ev["host"])) if web else f.decode(header, method, host_obj(ev["host"]))
                E["dec"] = "ok"
            except LoginFailed:
                E["dec"] = "!LoginFailed"
            except Exception as e:  # noqa: BLE001 - the class is the observable
                E["dec"] = "!" + type(e).__name__
            if creds is not None:
                E["user"] = creds.username
                E["fields"] = {k.encode("ascii"): v for k, v in creds.fields.items()}
                a = creds.fields.get("algorithm", b"md5").lower()
                a = "sha" if a == b"sha" else "md5"
                for p in case["pws"]:
                    del expected[:]
                    try:
                        b = creds.checkPassword(unhx(p))
                        E["pw"].append(((hx(expected[-1]) if expected else "x"), bool(b), None))
                    except Exception as e:  # noqa: BLE001
                        E["pw"].append(("x", False, type(e).__name__))
                    try:  # the other way the credentials accept a password: by its H(A1)
                        E["hash"].append((bool(creds.checkHash(_H(a, creds.username + b":" + realm + b":" + unhx(p)))), None))
                    except Exception as e:  # noqa: BLE001
                        E["hash"].append((False, type(e).__name__))
        for k in ("dec", "user", "fields", "pw", "hash"):
            R[k] = R["events"][-1][k]
    finally:
        credentials.md5, credentials.secureRandom, credentials.calcResponse = saved[0], saved[1], saved[2]
        _digest.algorithms.clear()
        _digest.algorithms.update(saved[3])
    R["table"] = table
    _memo[key] = R
    return R


def _show_event(E, full):
    if E["dec"] != "ok":
        return E["dec"] if not full else f"dec={E['dec']}"
    pw = ",".join(("!" + exc) if exc else f"{e}:{int(b)}" for e, b, exc in E["pw"]) or "_"
    if not full:
        return "ok/" + pw
    fields = ",".join(hx(k) + ":" + hx(v) for k, v in sorted(E["fields"].items())) or "_"
    return f"dec=ok user={hx(E['user'])} fields={fields} pw={pw}"


def run_impl(case):
    R = _execute(case)
    ch = ";".join(hx(c["opaque"]) for c in R["chals"]) or "_"
    pre = ""
    if case.get("pre"):
        pre = "pre=" + ";".join(_show_event(E, False) for E in R["events"][:-1]) + " "
    return f"ch={ch} {pre}{_show_event(R['events'][-1], True)}"


def model_line(case):
    R = _execute(case)
    issues = ";".join(f"{c['t']}:{host_tok(c['host'])}:{hx(c['nonce'])}" for c in R["chals"]) or "_"
    seen, ent = set(), []
    for k, i, o in R["table"]:
        if (k, i) not in seen:
            seen.add((k, i))
            ent.append(f"{k}:{hx(i)}:{hx(o)}")
    head = ["run"]
    if case.get("pre"):  # a history of responses: `runh`, the earlier (clock, address) pairs after the issues
        head = ["runh", ";".join(f"{e['now']}:{host_tok(e['host'])}" for e in case["pre"])]
    return " ".join(head[:1] + [case["pk"], case["realm"], issues] + head[1:] +
                    [str(case["now"]), host_tok(case["host"]), case["method"], hx(R["header"]),
                     ",".join(case["pws"]) or "_", ";".join(ent) or "_"])


# ------------------------------------------------------------------------------------------------
# the property on the implementation

def _int_time(ticks):
    return int(ticks / 4.0)


# separators between the auth-params that every value survives, whatever the quoting: a comma followed by optional
# whitespace / a folded line; whitespace BEFORE the comma as well when a space follows it
SEPS_CLEAN = [b", ", b",", b",\r\n ", b",\t", b",\r\n\t", b",\n ", b",  ", b", \t", b" , ", b"\t, "]
# whitespace before the comma and no space after it: fine after an unquoted value (the value is stripped), but after a
# quoted value the regular expression leaves the comma to the next key — legal list syntax (RFC 7230 #rule) that the parser
# does not read; such renderings are compared with the model only
SEPS_BARE_ONLY = [b" ,", b"\t,\t", b" ,\t"]
TAILS = [b" ", b"\r\n", b"\t", b" \r\n", b","]


def _clean(case):
    """A well-formed rendering: every value survives the header grammar verbatim (quoted-string without '"', or a
    non-empty token without ',' / leading '"'; no surrounding whitespace, no line breaks), the separators are a comma
    with optional whitespace / line folding, and nothing was malformed or sent twice."""
    cl = case.get("client")
    if not cl or case.get("raw") is not None or not cl.get("clean", False):
        return False
    if any(cl.get(k) for k in ("omit", "override", "extra", "header_mut", "dup")):
        return False
    sep = unhx(cl["sep"])
    if sep not in SEPS_CLEAN and not (sep in SEPS_BARE_ONLY and not cl["quotes"]):
        return False
    if unhx(cl.get("lead", "-")).strip(b" \t") or unhx(cl.get("tail", "-")) not in [b""] + TAILS:
        return False
    vals = [unhx(cl["user"]), unhx(case["realm"]), unhx(cl["uri"])]
    if cl["qop"] is not None:
        vals += [unhx(cl["nc"]), unhx(cl["cnonce"])]
        if not unhx(cl["nc"]) or not unhx(cl["cnonce"]):
            return False
    if not unhx(cl["user"]):
        return False
    for v in vals:
        if v != v.strip() or b"\r" in v or b"\n" in v:
            return False
        if cl["quotes"]:
            if b'"' in v:
                return False
        elif not v or b"," in v or v.startswith(b'"'):
            return False
    return True


def _judge(case, R, E, which):
    """The property on ONE decoded response of the history (E: its clock value, address, outcome)."""
    hdr = R["header"] if len(R["header"]) < 700 else R["header"][:340] + b"...(%d bytes)..." % len(R["header"]) + R["header"][-340:]
    # (1) nothing but the documented login failure
    if E["dec"] not in ("ok", "!LoginFailed"):
        return {"key": "decode-raises-" + E["dec"][1:],
                "detail": f"{which}decode({hdr!r}) raised {E['dec'][1:]} instead of LoginFailed"}
    for (e, b, exc), p in zip(E["pw"], case["pws"]):
        if exc:
            return {"key": "checkPassword-raises-" + exc,
                    "detail": f"{which}decode({hdr!r}) succeeded and checkPassword({unhx(p)!r}) raised {exc}"}
    for (hb, hexc), (e, b, exc), p in zip(E["hash"], E["pw"], case["pws"]):
        if hexc:
            return {"key": "checkHash-raises-" + hexc,
                    "detail": f"{which}decode({hdr!r}) succeeded and checkHash(H(A1) of {unhx(p)!r}) raised {hexc}"}
        if hb != b:
            return {"key": "checkHash-differs-from-checkPassword",
                    "detail": f"{which}decode({hdr!r}): checkPassword({unhx(p)!r}) = {b} but checkHash of its H(A1) = {hb}"}
    accepted = [p for (e, b, exc), p in zip(E["pw"], case["pws"]) if b]
    now = _int_time(E["now"])
    here = host_norm(E["host"])
    cl = case.get("client") if case.get("raw") is None else None
    if accepted and not case.get("insider"):
        # (2) only if, on what the credentials carry: an issued challenge unaltered, from its address, in its lifetime
        fn, fo = E["fields"].get(b"nonce"), E["fields"].get(b"opaque")
        same = [c for c in R["chals"] if c["nonce"] == fn and c["opaque"] == fo]
        if not same:
            noncanon = False
            for c in R["chals"]:
                try:
                    if (c["nonce"] == fn and fo.split(b"-")[0] == c["opaque"].split(b"-")[0]
                            and base64.b64decode(fo.split(b"-")[1]) == base64.b64decode(c["opaque"].split(b"-")[1])):
                        noncanon = True
                except Exception:  # noqa: BLE001
                    pass
            return {"key": "accepted-altered-opaque-same-content" if noncanon else "accepted-altered-challenge",
                    "detail": f"{which}password accepted although nonce={fn!r} opaque={fo!r} is not a challenge that was issued "
                              f"(issued: {[(c['nonce'], c['opaque']) for c in R['chals']]!r})"}
        if not any(host_norm(c["host"]) == here for c in same):
            return {"key": "accepted-other-client", "detail": f"{which}challenge issued to {same[0]['host']} accepted from {E['host']}"}
        if not any(host_norm(c["host"]) == here and now - _int_time(c["t"]) <= LIFE for c in same):
            return {"key": "accepted-expired", "detail": f"{which}challenge issued at {same[0]['t']/4}s accepted at {E['now']/4}s"}
        # (2') only if, on what the CLIENT did (nothing the implementation reports is used): the digest it sent was
        #      computed with cl.pw over R.sent_nonce, so an accepted password is that one and that nonce is the nonce of a
        #      challenge issued to this address and still alive — whatever else the header carries (fields sent twice,
        #      in another capitalisation, values of other challenges)
        if cl:
            for p in accepted:
                if p != cl["pw"]:
                    return {"key": "accepted-password-not-used",
                            "detail": f"{which}response computed with {unhx(cl['pw'])!r}: checkPassword({unhx(p)!r}) = True ({hdr!r})"}
            over = [c for c in R["chals"] if c["nonce"] == R["sent_nonce"]]
            if not any(host_norm(c["host"]) == here and now - _int_time(c["t"]) <= LIFE for c in over):
                why = ("is not an issued nonce" if not over else
                       f"belongs to a challenge issued to {over[0]['host']} at {over[0]['t']/4}s")
                return {"key": "accepted-replayed-response",
                        "detail": f"{which}password accepted from {E['host']} at {E['now']/4}s although the response digest was computed "
                                  f"over nonce {R['sent_nonce']!r}, which {why} ({hdr!r})"}
    # (3) if: a clean response to an unaltered challenge from its address in its lifetime is accepted with the password
    #     it was computed with, and only with that one — wherever in the history it is presented
    if _clean(case):
        c = R["chals"][cl["use"] % len(R["chals"])]
        valid = (R["sent_nonce"] == c["nonce"] and R["sent_opaque"] == c["opaque"]
                 and host_norm(c["host"]) == here and now - _int_time(c["t"]) <= LIFE)
        if valid:
            if E["dec"] != "ok":
                return {"key": "rejected-valid", "detail": f"{which}valid response {hdr!r} refused by decode"}
            for (e, b, exc), p in zip(E["pw"], case["pws"]):
                if b != (p == cl["pw"]):
                    return {"key": "right-password-rejected" if p == cl["pw"] else "wrong-password-accepted",
                            "detail": f"{which}response computed with {unhx(cl['pw'])!r}: checkPassword({unhx(p)!r}) = {b} ({hdr!r})"}
    return None


def oracle(case, impl_out):
    R = _execute(case)
    n = len(R["events"])
    for i, E in enumerate(R["events"]):
        which = "" if n == 1 else f"[response {i + 1} of {n} on one factory, at {E['now']/4}s from {E['host']}] "
        r = _judge(case, R, E, which)
        if r:
            if i < n - 1:
                r["key"] += "-earlier-response"
            elif n > 1 and _judge_alone(case) is None:
                r["key"] += "-after-history"
            return r
    return None


def _judge_alone(case):
    """The verdict on the last response when it is the only one the factory ever saw."""
    c = dict(case, pre=[])
    R = _execute(c)
    return _judge(c, R, R["events"][-1], "")


# ------------------------------------------------------------------------------------------------
# cases

def _case(**kw):
    c = {"pk": "6b65796b65796b65796b6579", "realm": b"test realm".hex(), "falg": "md5",
         "issues": [{"t": 4000, "host": ["s", "10.2.3.4"], "rnd": "000102030405060708090a0b"}],
         "now": 4040, "host": ["s", "10.2.3.4"], "method": b"GET".hex(), "raw": None, "pws": [b"secret".hex(), b"wrong".hex()],
         "client": {"use": 0, "user": b"foobar".hex(), "pw": b"secret".hex(), "uri": b"/write/".hex(), "alg": "md5",
                    "qop": "auth", "nc": b"00000001".hex(), "cnonce": b"29fc54aa1641c6fa0e151419361c8f23".hex(),
                    "quotes": True, "sep": b", ".hex(), "clean": True}}
    cl = kw.pop("client", {})
    c.update(kw)
    c["client"] = dict(c["client"], **cl) if cl is not None else None
    return c


def corpus():
    return [
        _case(),
        # the hand-found defect: tampered opaque whose base64 part no longer decodes
        _case(client={"opaque_mut": [{"kind": "b64", "m": {"kind": "trunc", "pos": 5}}]}),
        _case(client={"opaque_mut": [{"kind": "set", "b": b"abc-Q".hex()}]}),
        # non-ASCII field name
        _case(client={"extra": [[0, "ff6b", b"v".hex()]]}),
        # junk inside / after the base64 part, non-canonical pad bits: same content, altered opaque
        _case(client={"opaque_mut": [{"kind": "b64", "m": {"kind": "ins", "pos": 3, "b": "21"}}]}),
        _case(client={"opaque_mut": [{"kind": "append", "b": b"=zz".hex()}]}),
        # responses whose digest cannot be computed
        _case(client={"override": [["algorithm", b"bogus".hex()]]}),
        _case(client={"omit": ["uri"]}),
        _case(client={"override": [["qop", b"auth-int".hex()]]}),
        _case(client={"alg": "md5-sess", "omit": ["cnonce"]}),
        # boundaries of the lifetime; other address; equivalent address
        _case(now=4000 + 4 * LIFE + 3), _case(now=4000 + 4 * LIFE + 4),
        _case(host=["b", b"10.2.3.5".hex()]), _case(host=["b", b"10.2.3.4".hex()]),
        _case(issues=[{"t": 4000, "host": ["N"], "rnd": "aa" * 12}], host=["s", ""]),
        _case(client={"alg": "sha"}), _case(client={"alg": "md5-sess"}), _case(client={"alg": None, "qop": None}),
        _case(client={"alg": "MD5", "quotes": False, "clean": True}),
        _case(raw=b"username=x".hex(), client=None), _case(raw="-", client=None),
    ] + _corpus_audit()


def _corpus_audit():
    """Fixed members of the classes added after the mutation audit (harness/mutants/C48)."""
    two = [{"t": 4000, "host": ["s", "10.2.3.4"], "rnd": "000102030405060708090a0b"},
           {"t": 4000 + 4 * LIFE + 400, "host": ["s", "10.9.9.9"], "rnd": "aa0102030405060708090a0b"}]
    atk = dict(issues=two, now=two[1]["t"] + 40, host=["s", "10.9.9.9"])
    out = [
        # header grammar: tab / folded-with-tab separators, optional whitespace before the comma, trailing whitespace
        _case(client={"sep": b",\t".hex()}), _case(client={"sep": b",\r\n\t".hex()}),
        _case(client={"sep": b" , ".hex(), "quotes": False, "tail": b" ".hex()}),
        _case(client={"sep": b" ,".hex(), "quotes": False, "tail": b"\r\n".hex()}),
        _case(client={"sep": b" ,".hex()}), _case(client={"sep": b"\t,\t".hex()}),  # quoted: comma left to the next key (tie only)
        _case(client={"lead": b"Digest ".hex(), "tail": b",".hex()}),
        # empty and long values
        _case(client={"uri": "-"}), _case(client={"uri": (b"/" + b"seg/" * 275).hex()}),
        _case(client={"uri": (b"/" + b"a" * 4200).hex(), "quotes": False}), _case(client={"user": (b"u" * 1100).hex()}),
        # a response without its digest; a qop that is neither auth nor auth-int
        _case(client={"omit": ["response"]}), _case(client={"override": [["qop", b"auth,auth-int".hex()]]}),
        # forged opaque whose time field is a float spelling
        _case(client={"opaque_mut": [{"kind": "forge_now", "time": b"inf".hex(), "realpk": False, "pk": "00" * 12}]}),
        _case(client={"opaque_mut": [{"kind": "forge_now", "time": b"1e999".hex(), "realpk": False, "pk": "00" * 12}]}),
        _case(client={"opaque_mut": [{"kind": "forge_now", "time": b"1000.0".hex(), "realpk": True, "pk": "00" * 12}]}, insider=True),
        # one more '=' after the opaque; upper-cased digest part
        _case(client={"opaque_mut": [{"kind": "append", "b": b"=".hex()}]}),
        _case(client={"opaque_mut": [{"kind": "digest", "m": {"kind": "upper", "pos": 0}}]}),
        # the same response presented to one factory again: in time twice; in time, then expired; then from elsewhere
        _case(pre=[{"now": 4004, "host": ["s", "10.2.3.4"]}]),
        _case(pre=[{"now": 4004, "host": ["s", "10.2.3.4"]}], now=4000 + 4 * LIFE + 4),
        _case(pre=[{"now": 4004, "host": ["b", b"10.2.3.4".hex()]}], host=["s", "10.2.3.5"]),
        _case(pre=[{"now": 4000 + 4 * LIFE + 4, "host": ["s", "10.2.3.4"]}, {"now": 4004, "host": ["s", "10.2.3.5"]}]),
        # through twisted.web's wrapper factory
        _case(via="web"), _case(via="web", host=["s", "10.2.3.5"]), _case(via="web", pre=[{"now": 4004, "host": ["s", "10.2.3.4"]}]),
    ]
    # a captured response (challenge 0: expired, issued to 10.2.3.4) in a header that also carries the attacker's own live
    # nonce and opaque (challenge 1), first / last, same / another capitalisation
    for pos in (0, -1):
        for n, o in ((b"nonce", b"opaque"), (b"Nonce", b"Opaque"), (b"NONCE", b"opaque")):
            out.append(_case(client={"dup": [[pos, n.hex(), ["n", 1]], [pos, o.hex(), ["o", 1]]]}, **atk))
    out.append(_case(client={"dup": [[0, b"nonce".hex(), ["n", 1]], [0, b"opaque".hex(), ["o", 1]]], "omit": ["opaque"]}, **atk))
    out.append(_case(client={"dup": [[-1, b"Nonce".hex(), ["n", 0]], [3, b"response".hex(), ["r"]]]}))
    return out


VAL = [bytes([b]) for b in b"abcxyzABZ019/:=-_.~%+"] + [b" ", b"\xc3\xa9", b"\xff"]


def _val(rng, lo=1, hi=10, unquoted=False):
    n = rng.randint(lo, hi)
    out = b"".join(rng.choice(VAL) for _ in range(n))
    out = out.strip() or b"v"
    return out


def _host(rng):
    r = rng.random()
    if r < 0.12:
        return ["N"]
    if r < 0.2:
        return ["s", ""]
    if r < 0.26:
        return ["b", "-"]
    ip = rng.choice(["10.2.3.4", "10.2.3.5", "::1", "192.168.0.1", "a"])
    return ["s", ip] if rng.random() < 0.6 else ["b", ip.encode().hex()]


def _equiv_host(rng, h):
    n = host_norm(h)
    if not n:
        return rng.choice([["N"], ["s", ""], ["b", "-"]])
    return rng.choice([["s", n.decode()], ["b", n.hex()]])


def _bmut(rng):
    k = rng.choice(["flip", "del", "ins", "trunc", "append", "padbits", "upper"])
    m = {"kind": k, "pos": rng.randint(0, 80)}
    if k == "flip":
        m["x"] = rng.choice([1, 2, 0x20, 0x80, 0xFF])
    if k in ("ins", "append"):
        m["b"] = rng.choice([b"=", b"!", b"\n", b" ", b"-", b",", b"A", b"\x00", b"==", b"=zz", b"\xff", b"Q"]).hex()
    return m


def _opaque_mut(rng, nissues, pk_known, nowint=1000):
    r = rng.random()
    if r < 0.3:
        return {"kind": "b64", "m": _bmut(rng)}
    if r < 0.4:
        return {"kind": "digest", "m": _bmut(rng)}
    if r < 0.55:
        return _bmut(rng)
    if r < 0.65:
        return {"kind": rng.choice(["other", "swapdigest"]), "i": rng.randint(0, max(0, nissues - 1))}
    if r < 0.72:
        key = b",".join([rng.choice([b"00", b"abc"]), rng.choice([b"", b"10.2.3.4"]), str(rng.randint(0, 3000)).encode()])
        return {"kind": "rekey", "key": key.hex()}
    n = str(nowint - rng.choice([0, 0, 5, LIFE, LIFE + 1, -3])).encode()
    us = b"_".join(n[i:i + 1] for i in range(len(n))) if not n.startswith(b"-") else n
    tf = rng.choice([n, b"+" + n, b" " + n + b" ", us, n[:1] + b"__" + n[1:], b"_" + n, n + b"_", b"-5", b"", b"x", n + b".0", b"0x10",
                     b"\t" + n + b"\n", n + b"\x00", b"0" * (4300 - len(n)) + n, b"0" * (4301 - len(n)) + n, b"9" * 4300, b"9" * 4301,
                     b"1" + b"_0" * 4300, b"99999999999", n + b",7", b"\x1c" + n, b"\x0b\x0c\r" + n, b"+ " + n, b"-" + n, b"--" + n,
                     # spellings other numeric parsers take: floats, infinities, exponents, radix prefixes, non-ASCII digits
                     b"inf", b"-inf", b"Infinity", b"nan", b"1e999", b"-1e999", n + b"e0", n + b"e400", n + b".5", b"1e3", b"0b1", b"0o17",
                     b"\xd9\xa1\xd9\xa2", b"\xef\xbc\x91", n + b"L", n + b"j", b"1" + b"0" * 308, b"1" + b"0" * 309, b"9" * 400, b"True"])
    m = {"kind": "forge_now", "time": tf.hex(), "realpk": pk_known, "pk": "00" * 12}
    if rng.random() < 0.3:
        m["b64mut"] = _bmut(rng)
    return m


def _structured(rng, tier="quick"):
    nis = rng.choice([1, 1, 2, 3])
    issues = []
    t = rng.randint(0, 8000)
    for _ in range(nis):
        issues.append({"t": t, "host": _host(rng), "rnd": bytes(rng.randrange(256) for _ in range(12)).hex()})
        t += rng.choice([0, 1, 3, 40, 4 * LIFE, 9000])
    use = rng.randrange(nis)
    it = issues[use]
    # time relation
    r = rng.random()
    base = (it["t"] // 4) * 4
    if r < 0.45:
        now = it["t"] + rng.randint(0, 4 * LIFE - 8)
    elif r < 0.75:
        now = base + 4 * LIFE + rng.choice([-4, -1, 0, 1, 3, 4, 5, 7, 8])
    elif r < 0.9:
        now = it["t"] + rng.randint(4 * LIFE, 40 * LIFE)
    else:
        now = it["t"] - rng.randint(1, 4000)
    # address relation
    r = rng.random()
    host = it["host"] if r < 0.5 else (_equiv_host(rng, it["host"]) if r < 0.8 else _host(rng))
    alg = rng.choice(["md5", "md5", "MD5", "sha", "SHA", "md5-sess", "MD5-sess", None])
    qop = rng.choice(["auth", "auth", "auth", None])
    if alg and alg.lower() == "md5-sess" and qop is None:
        qop = "auth"
    quotes = rng.random() < 0.7
    pw = _val(rng, 0, 8) if rng.random() < 0.9 else b""
    pw = rng.choice([pw, pw, b"pass:word", b"\x00\xff"])
    user, uri = _val(rng).replace(b",", b""), b"/" + _val(rng, 0, 8)
    r = rng.random()
    if r < 0.05:
        uri = b""  # legal in a quoted string
    elif r < 0.10:  # sizes: a long request-uri / user name (a header line may be up to 16 kB in twisted.web)
        n = rng.choice([200, 600, 1000, 1100, 2100, 2100, 4200] * 3 + ([9000, 15000] if tier == "thorough" else []))
        uri = (b"/" + b"".join(rng.choice(VAL[:21]) for _ in range(7)) * (n // 7 + 1))[:n].rstrip() + b"z"
    elif r < 0.12:
        user = (b"".join(rng.choice(VAL[:12]) for _ in range(5)) * 300)[:rng.choice([300, 1100, 2500])]
    sep = b", " if rng.random() < 0.45 else rng.choice([b",", b",\r\n "] + SEPS_CLEAN + SEPS_BARE_ONLY)
    cl = {"use": use, "user": user.hex(), "pw": pw.hex(), "uri": uri.hex() or "-", "alg": alg,
          "qop": qop, "nc": b"%08x" % rng.randint(1, 9), "cnonce": hexlify(bytes(rng.randrange(256) for _ in range(4))).hex(),
          "quotes": quotes, "sep": sep.hex(), "clean": True,
          "rot": rng.randint(0, 9)}
    cl["nc"] = cl["nc"].hex()
    if rng.random() < 0.25:
        cl["tail"] = rng.choice(TAILS).hex()
    if rng.random() < 0.08:
        cl["lead"] = rng.choice([b" ", b"\t", b"Digest "]).hex()
    insider = False
    r = rng.random()
    if r < 0.35:
        pass
    elif r < 0.75:
        pk_known = rng.random() < 0.45
        muts = [_opaque_mut(rng, nis, pk_known, _int_time(now)) for _ in range(rng.choice([1, 1, 2]))]
        cl["opaque_mut"] = muts
        insider = any(m.get("realpk") for m in muts)
    elif r < 0.9:
        cl["nonce_mut"] = [rng.choice([_bmut(rng), {"kind": "other", "i": rng.randint(0, nis - 1)}])]
    else:
        cl["nonce_mut"] = [{"kind": "other", "i": rng.randint(0, nis - 1)}]
        cl["opaque_mut"] = [{"kind": "other", "i": rng.randint(0, nis - 1)}]
    # malformed stream
    r = rng.random()
    if r < 0.08:
        cl["omit"] = rng.sample(["username", "nonce", "opaque", "uri", "response", "cnonce", "nc", "realm", "qop", "algorithm"],
                                rng.choice([1, 1, 2]))
    elif r < 0.16:
        cl["override"] = [rng.choice([["algorithm", b"bogus".hex()], ["algorithm", b"sha-256".hex()], ["algorithm", "-"],
                                      ["qop", b"auth-int".hex()], ["qop", b"AUTH".hex()], ["username", "-"],
                                      ["algorithm", b"MD5-SESS".hex()], ["nc", "-"], ["cnonce", "-"], ["uri", "-"]])]
    elif r < 0.24:
        cl["extra"] = [[rng.randint(0, 12), rng.choice([b"\xffk", b"k\xc3\xa9", b"nonce", b"opaque", b"username", b"\tk", b"algorithm",
                                                         b"x,y", b"\"q"]).hex(),
                        rng.choice([b"v", b"", b"md5", b"\xff", b"a b"]).hex()]]
    elif r < 0.32:
        cl["header_mut"] = [_bmut(rng) for _ in range(rng.choice([1, 2, 4]))]
        for m in cl["header_mut"]:
            m["pos"] = rng.randint(0, 400)
            if m["kind"] in ("trunc", "upper", "padbits"):
                m["kind"] = "flip"
                m["x"] = rng.choice([1, 0x80, 0x10])
    pws = [cl["pw"], (pw + b"x").hex(), (pw[:-1]).hex() if pw else "78", rng.choice([b"", b"secret", b"\xff"]).hex()]
    pws = list(dict.fromkeys(pws))
    c = {"pk": bytes(rng.randrange(256) for _ in range(rng.choice([12, 12, 0, 3]))).hex() or "-",
         "realm": rng.choice([b"test realm", b"r", b"", b"a:b"]).hex() or "-", "falg": rng.choice(["md5", "sha"]),
         "issues": issues, "now": now, "host": host,
         "method": rng.choice([b"GET", b"GET", b"POST", b"", b"get", b"M-SEARCH", b"REGISTER"]).hex() or "-",
         "raw": None, "client": cl, "pws": pws, "insider": insider}
    r = rng.random()
    if r < 0.10 and nis > 1:
        _replay(rng, c)
    elif r < 0.14:  # a field of the same challenge sent twice (same / another capitalisation)
        f = rng.choice(["nonce", "opaque", "response"])
        cl["dup"] = [[rng.choice([0, -1, rng.randint(0, 9)]), _capital(rng, f).hex(), [f[0], use]]]
    if rng.random() < 0.3:
        _history(rng, c)
    if rng.random() < 0.15:
        _through_web(c)
    return c


def _capital(rng, name):
    return rng.choice([name, name, name.capitalize(), name.upper()]).encode()


def _replay(rng, c):
    """The victim's captured response (challenge `use`, by now expired and / or issued to another address) inside a header
    that ALSO carries the nonce and opaque of the attacker's own live challenge `j`, before or after it, in the same or
    another capitalisation; presented from the attacker's address within the lifetime of `j`."""
    cl, issues = c["client"], c["issues"]
    use = cl["use"]
    j = rng.choice([i for i in range(len(issues)) if i != use])
    if rng.random() < 0.6:
        issues[j]["host"] = rng.choice([["s", "10.9.9.9"], ["b", b"10.9.9.9".hex()], ["N"]])
    if rng.random() < 0.6:
        issues[j]["t"] = issues[use]["t"] + 4 * LIFE + rng.randint(4, 9000)
    c["host"] = issues[j]["host"]
    c["now"] = issues[j]["t"] + rng.randint(0, 4 * LIFE - 8)
    for k in ("opaque_mut", "nonce_mut", "omit", "override", "extra", "header_mut"):
        cl.pop(k, None)
    c["insider"] = False
    pos = rng.choice([0, 0, -1, -1, rng.randint(0, 9)])
    what = rng.choice(["no", "no", "n", "o"])
    cl["dup"] = [[pos, _capital(rng, f).hex(), [f[0], j]] for f in ("nonce", "opaque") if f[0] in what]
    if rng.random() < 0.25:
        cl["omit"] = ["opaque"]  # only the attacker's opaque is in the header


def _history(rng, c):
    """Earlier presentations of the same response to the same factory, at other clock values / from other addresses."""
    cl, issues = c["client"], c["issues"]
    it = issues[cl["use"] % len(issues)] if cl else issues[0]
    pre = []
    for _ in range(rng.choice([1, 1, 2])):
        r = rng.random()
        if r < 0.55:  # where the challenge is valid
            e = {"now": it["t"] + rng.choice([0, 1, 40, rng.randint(0, 4 * LIFE - 8)]),
                 "host": it["host"] if rng.random() < 0.7 else _equiv_host(rng, it["host"])}
        elif r < 0.75:
            e = {"now": c["now"], "host": c["host"]}
        else:
            e = {"now": it["t"] + rng.choice([-40, 4 * LIFE + 8, rng.randint(0, 8 * LIFE)]), "host": _host(rng)}
        pre.append(e)
    c["pre"] = pre


def _through_web(c):
    """The same history through twisted.web's wrapper factory and request objects: addresses become the str hosts of
    IPv4Address / IPv6Address (no-address channels become one fixed address)."""
    def conv(h):
        n = host_norm(h)
        return ["s", n.decode("ascii") if n else "0.0.0.0"]
    for i in c["issues"]:
        i["host"] = conv(i["host"])
    for e in c.get("pre") or []:
        e["host"] = conv(e["host"])
    c["host"] = conv(c["host"])
    c["via"] = "web"


RAWTOK = [b"username", b"nonce", b"opaque", b"uri", b"response", b"=", b"=", b'"', b'"', b",", b" ", b"a", b"b-Yg==", b"\r\n",
          b"\n", b"\xff", b"\t", b"Digest ", b"x", b"=\"", b"\",", b"-", b"QQ==", b"algorithm=zz"]


def _raw(rng, tier="quick"):
    c = _structured(rng, tier)
    c["client"] = None
    c["insider"] = False
    c["raw"] = b"".join(rng.choice(RAWTOK) for _ in range(rng.randint(0, 14))).hex() or "-"
    return c


def generate(rng, tier):
    n = 1500 if tier == "quick" else 30000
    for i in range(n):
        yield _raw(rng, tier) if rng.random() < 0.08 else _structured(rng, tier)


def search(rng, tier, disagreeing):
    for c in disagreeing[:20]:
        yield c
    for i in range(3000 if tier == "quick" else 20000):
        yield _structured(rng)


def shrink(c):
    c = json.loads(json.dumps(c))
    cl = c.get("client")
    if c.get("via"):
        d = json.loads(json.dumps(c))
        del d["via"]
        yield d
    for i in range(len(c.get("pre") or [])):
        d = json.loads(json.dumps(c))
        del d["pre"][i]
        yield d
    if cl:
        for k in ("tail", "lead"):
            if cl.get(k):
                d = json.loads(json.dumps(c))
                del d["client"][k]
                yield d
        if len(unhx(cl["uri"])) > 20:
            for n in (len(unhx(cl["uri"])) // 2, len(unhx(cl["uri"])) - 1):
                d = json.loads(json.dumps(c))
                d["client"]["uri"] = unhx(cl["uri"])[:n].hex()
                yield d
        for k in ("opaque_mut", "nonce_mut", "header_mut", "extra", "omit", "override", "dup"):
            v = cl.get(k)
            if v:
                for i in range(len(v)):
                    d = json.loads(json.dumps(c))
                    d["client"][k] = v[:i] + v[i + 1:]
                    yield d
        if len(c["issues"]) > 1:
            for i in range(len(c["issues"])):
                if i != cl["use"] % len(c["issues"]):
                    d = json.loads(json.dumps(c))
                    del d["issues"][i]
                    d["client"]["use"] = 0 if len(d["issues"]) == 1 else (cl["use"] % len(c["issues"])) - (1 if i < cl["use"] % len(c["issues"]) else 0)
                    yield d
        for k, v in (("rot", 0), ("sep", b", ".hex()), ("quotes", True), ("alg", "md5"), ("qop", "auth")):
            if cl.get(k) != v:
                d = json.loads(json.dumps(c))
                d["client"][k] = v
                yield d
    elif c.get("raw") not in (None, "-"):
        raw = unhx(c["raw"])
        for i in range(len(raw)):
            d = json.loads(json.dumps(c))
            d["raw"] = (raw[:i] + raw[i + 1:]).hex() or "-"
            yield d
    if len(c["pws"]) > 1:
        for i in range(len(c["pws"])):
            d = json.loads(json.dumps(c))
            del d["pws"][i]
            yield d


def tag(c, out):
    R = _execute(c)
    cl = c.get("client")
    if not cl:
        return f"raw:{R['dec']}"
    ch = R["chals"][cl["use"] % len(R["chals"])]
    now = _int_time(c["now"])
    d = now - _int_time(ch["t"])
    trel = "before" if d < 0 else "in" if d < LIFE else "edge" if d == LIFE else "edge+1" if d == LIFE + 1 else "late"
    hrel = "same" if c["host"] == ch["host"] else "equiv" if host_norm(c["host"]) == host_norm(ch["host"]) else "other"
    om = "+".join(sorted({m["kind"] + ("/" + m["m"]["kind"] if "m" in m else "") for m in cl.get("opaque_mut") or []}))
    nm = "+".join(sorted({m["kind"] for m in cl.get("nonce_mut") or []}))
    mal = "+".join(k for k in ("omit", "override", "extra", "header_mut") if cl.get(k))
    pw = "".join("!" if exc else str(int(b)) for e, b, exc in R["pw"])
    sep = unhx(cl["sep"])
    form = ("std" if sep in (b", ", b",", b",\r\n ") else "bareonly" if sep in SEPS_BARE_ONLY else "tab" if b"\t" in sep else "ows")
    form += ("+tail" if cl.get("tail") else "") + ("+lead" if cl.get("lead") else "")
    size = "long" if len(R["header"]) > 1000 else "empty-uri" if cl["uri"] == "-" else ""
    dup = "+".join(sorted({unhx(k).decode() + ("" if src[0] in "vr" else "=own" if src[1] % len(R["chals"]) == cl["use"] % len(R["chals"]) else "=other")
                           for _, k, src in cl.get("dup") or []}))
    hist = ";".join(E["dec"][:3] + "".join(str(int(b)) for e, b, exc in E["pw"]) for E in R["events"][:-1])
    return (f"{R['dec']}|o:{om}|n:{nm}|{hrel}|{trel}|{(cl['alg'] or '-').lower()}|{cl['qop'] or '-'}|{mal}|{pw}"
            f"|{form}|{size}|d:{dup}|h:{hist}|{'web' if _via_web(c) else ''}")
