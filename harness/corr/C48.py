"""C48 — HTTP Digest credentials: real DigestCredentialFactory / DigestedCredentials vs the Lean model,
plus the property oracle (exactly-the-right-responses, only LoginFailed) on the real code.

A case is one history: a factory (private key, realm), challenges issued at chosen clock values to chosen
client addresses (the real getChallenge with secureRandom patched to the case's bytes), then ONE response
(built by an RFC 2617 client written here with hashlib, optionally tampered; or a raw header) decoded at a
chosen clock value from a chosen address, then checkPassword for a list of passwords.
"""
import base64
import hashlib
import json
from binascii import hexlify

from twisted.cred import _digest, credentials
from twisted.cred.error import LoginFailed

HEADLINE = "TwistedProps.C48.accepts_iff_right_password_unaltered_challenge_same_client_within_lifetime"
RULE = ("histories: 1..3 challenges issued at clock values (quarter seconds) to None/''/b''/str/bytes hosts; one response "
        "from an RFC 2617 client (md5/MD5/sha/md5-sess/absent algorithm, qop auth or absent, quoted or bare values, three "
        "separators) over the issued or a tampered nonce and opaque (byte flip/insert/delete/truncate, junk inside and after "
        "the base64, non-canonical padding bits, parts swapped between challenges, forged with a wrong key, forged with the "
        "real key for the tie only), from the same / an equivalent / another address, at issue time, at lifetime-1/+0/+1 s, "
        "far beyond, before; malformed stream: omitted fields, unknown algorithm, auth-int, md5-sess without cnonce, "
        "non-ASCII field names, duplicate fields, byte-level mutations of the whole header, raw junk. "
        "distinct = (decode outcome, tamper kinds, address relation, time relation, algorithm, qop, password pattern)")
ASSUMES = [
    "hash functions are modelled symbolically: theorems assume H injective (MD5/SHA-1 collisions are outside the model) and "
    "that a client who does not know privateKey can present only digests it was issued (Dolev-Yao); nonce unpredictability is not modelled",
    "the clock is read through _getTime; lifetime is measured on the integer seconds the code embeds in the opaque",
    "client addresses are None, ASCII str or bytes without ',' (IP literals); sys.get_int_max_str_digits() is the default 4300",
    "the 'challenge' of the statement is its nonce and opaque (the dimensions the statement lists); the response's own "
    "algorithm/qop/uri fields are the client's to choose, as in the code",
]
TRUSTED = ["hashlib md5/sha1 (digests are handed to the Lean model as a table recorded from the same run)",
           "CPython base64/binascii/re/int semantics as transcribed in TwistedModel/Cred/Digest.lean (differentially tied)"]
MANIFEST = {
    "text": "Lean theorems (TwistedProps/C48.lean) over the model of DigestCredentialFactory/DigestedCredentials for all "
            "byte strings, clocks and addresses: decode fails only with LoginFailed and checkPassword never raises; an issued "
            "opaque verifies iff presented with its nonce from its address within the lifetime; under injective H and the "
            "Dolev-Yao hypothesis on the opaque digest an accepted response carries byte-for-byte an issued nonce/opaque, from "
            "that address, in time, and the password is accepted iff it is the one the response was computed with. Model tied "
            "to credentials.py/_digest.py by differential runs of whole histories with the real hashlib digests.",
    "note": "trusts Lean kernel, the hand-written model (differentially tied), symbolic hash idealisation, CPython base64/re/int",
    "technique": "Lean 4 proof (base64 round trip, split/join, decimal round trip, injectivity chains) + differential tie",
    "design_ref": "DESIGN.md §7.6 C48",
}

LIFE = 15 * 60


def hx(b):
    return b.hex() if b else "-"


def unhx(s):
    return b"" if s == "-" else bytes.fromhex(s)


def host_obj(h):
    if h[0] == "N":
        return None
    if h[0] == "s":
        return h[1]
    return unhx(h[1])


def host_norm(h):
    o = host_obj(h)
    if not o:
        return b""
    return o.encode("ascii") if isinstance(o, str) else o


def host_tok(h):
    if h[0] == "N":
        return "N"
    return hx(host_norm(h)) if h[0] == "s" else h[1]


# ------------------------------------------------------------------------------------------------
# an RFC 2617 client, independent of twisted.cred._digest

def _H(alg, data):
    return hexlify((hashlib.sha1 if alg == "sha" else hashlib.md5)(data).digest())


def client_response(alg, user, realm, pw, method, uri, nonce, qop, nc, cnonce):
    a = (alg or "md5").lower()
    ha1 = _H(a, user + b":" + realm + b":" + pw)
    if a == "md5-sess":
        ha1 = _H(a, ha1 + b":" + nonce + b":" + cnonce)
    ha2 = _H(a, method + b":" + uri)
    if qop is not None:
        return _H(a, b":".join([ha1, nonce, nc, cnonce, qop.encode(), ha2]))
    return _H(a, b":".join([ha1, nonce, ha2]))


def mutate_bytes(b, m):
    k = m["kind"]
    if k == "flip":
        if not b:
            return b"\x01"
        p = m["pos"] % len(b)
        return b[:p] + bytes([b[p] ^ m["x"]]) + b[p + 1:]
    if k == "del":
        if not b:
            return b
        p = m["pos"] % len(b)
        return b[:p] + b[p + 1:]
    if k == "ins":
        p = m["pos"] % (len(b) + 1)
        return b[:p] + unhx(m["b"]) + b[p:]
    if k == "trunc":
        return b[: m["pos"] % (len(b) + 1)]
    if k == "append":
        return b + unhx(m["b"])
    if k == "set":
        return unhx(m["b"])
    if k == "upper":
        return b.upper()
    if k == "padbits":  # change the unused low bits of the last sextet before '='
        i = len(b) - 1
        while i >= 0 and b[i:i + 1] == b"=":
            i -= 1
        if i < 0 or i == len(b) - 1:
            return b
        abc = b"ABCDEFGHIJKLMNOPQRSTUVWXYZabcdefghijklmnopqrstuvwxyz0123456789+/"
        v = abc.find(b[i:i + 1])
        if v < 0:
            return b
        return b[:i] + abc[v ^ 1:(v ^ 1) + 1] + b[i + 1:]
    return b


def make_opaque(pk, keybytes, b64mut=None):
    dig = hexlify(hashlib.md5(keybytes + pk).digest())
    e = base64.b64encode(keybytes)
    if b64mut:
        e = mutate_bytes(e, b64mut)
    return dig + b"-" + e


def _two(opaque):
    d, _, e = opaque.partition(b"-")
    return d, e


def build_header(case, chals):
    """→ (header bytes, sent nonce, sent opaque) for a structured client; raw cases return the raw bytes."""
    if case.get("raw") is not None:
        return unhx(case["raw"]), None, None
    cl = case["client"]
    pk = unhx(case["pk"])
    ch = chals[cl["use"] % len(chals)] if chals else {"nonce": b"00", "opaque": b"0-0"}
    nonce, opaque = ch["nonce"], ch["opaque"]
    for m in cl.get("nonce_mut") or []:
        if m["kind"] == "other":
            nonce = chals[m["i"] % len(chals)]["nonce"]
        else:
            nonce = mutate_bytes(nonce, m)
    for m in cl.get("opaque_mut") or []:
        k = m["kind"]
        if k == "other":
            opaque = chals[m["i"] % len(chals)]["opaque"]
        elif k == "swapdigest":  # digest of another challenge, base64 of this one
            o2 = chals[m["i"] % len(chals)]["opaque"]
            opaque = o2.split(b"-")[0] + b"-" + _two(opaque)[1]
        elif k == "b64":  # mutate only the base64 part
            d, e = _two(opaque)
            opaque = d + b"-" + mutate_bytes(e, m["m"])
        elif k == "digest":
            d, e = _two(opaque)
            opaque = mutate_bytes(d, m["m"]) + b"-" + e
        elif k == "rekey":  # keep the digest, re-encode an altered key
            d, e = _two(opaque)
            opaque = d + b"-" + base64.b64encode(unhx(m["key"]))
        elif k == "forge":  # a whole new opaque under key m["pk"] (the real one iff case["insider"])
            fpk = pk if m.get("realpk") else unhx(m["pk"])
            opaque = make_opaque(fpk, unhx(m["key"]), m.get("b64mut"))
        elif k == "forge_now":  # forged key nonce,ip,<timefield> under the real key: exercises int() parsing
            fpk = pk if m.get("realpk") else unhx(m["pk"])
            keyb = b",".join([nonce, host_norm(case["host"]), unhx(m["time"])])
            opaque = make_opaque(fpk, keyb, m.get("b64mut"))
        else:
            opaque = mutate_bytes(opaque, m)
    realm = unhx(case["realm"])
    user, pw, uri = unhx(cl["user"]), unhx(cl["pw"]), unhx(cl["uri"])
    nc, cnonce = unhx(cl["nc"]), unhx(cl["cnonce"])
    resp = client_response(cl["alg"], user, realm, pw, unhx(case["method"]), uri, nonce, cl["qop"], nc, cnonce)
    fields = [(b"username", user), (b"realm", realm), (b"nonce", nonce), (b"uri", uri), (b"response", resp)]
    if cl["alg"] is not None:
        fields.append((b"algorithm", cl["alg"].encode()))
    if cl["qop"] is not None:
        fields += [(b"qop", cl["qop"].encode()), (b"nc", nc), (b"cnonce", cnonce)]
    fields.append((b"opaque", opaque))
    omit = set(cl.get("omit") or [])
    fields = [(k, v) for k, v in fields if k.decode() not in omit]
    for k, v in cl.get("override") or []:  # replace a field's value (e.g. algorithm=bogus, qop=auth-int)
        fields = [(fk, unhx(v) if fk == k.encode() else fv) for fk, fv in fields]
    for pos, k, v in cl.get("extra") or []:
        p = pos % (len(fields) + 1)
        fields = fields[:p] + [(unhx(k), unhx(v))] + fields[p:]
    rot = cl.get("rot", 0) % max(1, len(fields))
    fields = fields[rot:] + fields[:rot]
    q = b'"' if cl["quotes"] else b""
    header = unhx(cl["sep"]).join(k + b"=" + q + v + q for k, v in fields)
    for m in cl.get("header_mut") or []:
        header = mutate_bytes(header, m)
    return header, nonce, opaque


# ------------------------------------------------------------------------------------------------
# running the real code

_memo = {}


class _Rec:
    """hashlib-like object around the real constructor that records (kind, input, digest)."""

    def __init__(self, kind, real, table, data=b""):
        self._kind, self._table = kind, table
        self._h = real(data)
        self._data = bytes(data)

    def update(self, d):
        self._h.update(d)
        self._data += bytes(d)

    def digest(self):
        out = self._h.digest()
        self._table.append((self._kind, self._data, out))
        return out


def _execute(case):
    key = json.dumps(case, sort_keys=True)
    if key in _memo:
        return _memo[key]
    if len(_memo) > 4000:
        _memo.clear()
    table = []
    real_md5, real_sha1 = hashlib.md5, hashlib.sha1

    def mk(kind, real):
        return lambda data=b"": _Rec(kind, real, table, data)

    rnd = []
    expected = []
    real_calc = credentials.calcResponse

    def calc(*a, **kw):
        r = real_calc(*a, **kw)
        expected.append(r)
        return r

    saved = (credentials.md5, credentials.secureRandom, credentials.calcResponse, dict(_digest.algorithms))
    credentials.md5 = mk("m", real_md5)
    credentials.secureRandom = lambda n: rnd.pop(0) if rnd else b"\x00" * n
    credentials.calcResponse = calc
    _digest.algorithms[b"md5"] = mk("m", real_md5)
    _digest.algorithms[b"md5-sess"] = mk("m", real_md5)
    _digest.algorithms[b"sha"] = mk("s", real_sha1)
    R = {"chals": [], "dec": None, "user": None, "fields": None, "pw": [], "header": b""}
    try:
        f = credentials.DigestCredentialFactory(case["falg"].encode(), unhx(case["realm"]))
        f.privateKey = unhx(case["pk"])
        clock = [0.0]
        f._getTime = lambda: clock[0]
        for iss in case["issues"]:
            clock[0] = iss["t"] / 4.0
            rnd.append(unhx(iss["rnd"]))
            ch = f.getChallenge(host_obj(iss["host"]))
            R["chals"].append({"nonce": ch["nonce"], "opaque": ch["opaque"], "t": iss["t"], "host": iss["host"]})
        header, sn, so = build_header(case, R["chals"])
        R["header"], R["sent_nonce"], R["sent_opaque"] = header, sn, so
        clock[0] = case["now"] / 4.0
        creds = None
        try:
            creds = f.decode(header, unhx(case["method"]), host_obj(case["host"]))
            R["dec"] = "ok"
        except LoginFailed:
            R["dec"] = "!LoginFailed"
        except Exception as e:  # noqa: BLE001 - the class is the observable
            R["dec"] = "!" + type(e).__name__
        if creds is not None:
            R["user"] = creds.username
            R["fields"] = {k.encode("ascii"): v for k, v in creds.fields.items()}
            for p in case["pws"]:
                del expected[:]
                try:
                    b = creds.checkPassword(unhx(p))
                    R["pw"].append(((hx(expected[-1]) if expected else "x"), bool(b), None))
                except Exception as e:  # noqa: BLE001
                    R["pw"].append(("x", False, type(e).__name__))
    finally:
        credentials.md5, credentials.secureRandom, credentials.calcResponse = saved[0], saved[1], saved[2]
        _digest.algorithms.clear()
        _digest.algorithms.update(saved[3])
    R["table"] = table
    _memo[key] = R
    return R


def run_impl(case):
    R = _execute(case)
    ch = ";".join(hx(c["opaque"]) for c in R["chals"]) or "_"
    if R["dec"] != "ok":
        return f"ch={ch} dec={R['dec']}"
    fields = ",".join(hx(k) + ":" + hx(v) for k, v in sorted(R["fields"].items())) or "_"
    pw = ",".join(("!" + exc) if exc else f"{e}:{int(b)}" for e, b, exc in R["pw"]) or "_"
    return f"ch={ch} dec=ok user={hx(R['user'])} fields={fields} pw={pw}"


def model_line(case):
    R = _execute(case)
    issues = ";".join(f"{c['t']}:{host_tok(c['host'])}:{hx(c['nonce'])}" for c in R["chals"]) or "_"
    seen, ent = set(), []
    for k, i, o in R["table"]:
        if (k, i) not in seen:
            seen.add((k, i))
            ent.append(f"{k}:{hx(i)}:{hx(o)}")
    return " ".join(["run", case["pk"], case["realm"], issues, str(case["now"]), host_tok(case["host"]),
                     case["method"], hx(R["header"]), ",".join(case["pws"]) or "_", ";".join(ent) or "_"])


# ------------------------------------------------------------------------------------------------
# the property on the implementation

def _int_time(ticks):
    return int(ticks / 4.0)


def _clean(case):
    """A well-formed rendering: every value survives the header grammar verbatim (quoted-string without '"', or a
    non-empty token without ',' / leading '"'; no surrounding whitespace, no line breaks) and nothing was malformed."""
    cl = case.get("client")
    if not cl or case.get("raw") is not None or not cl.get("clean", False):
        return False
    if any(cl.get(k) for k in ("omit", "override", "extra", "header_mut")):
        return False
    vals = [unhx(cl["user"]), unhx(case["realm"]), unhx(cl["uri"])]
    if cl["qop"] is not None:
        vals += [unhx(cl["nc"]), unhx(cl["cnonce"])]
        if not unhx(cl["nc"]) or not unhx(cl["cnonce"]):
            return False
    if not unhx(cl["user"]):
        return False
    for v in vals:
        if v != v.strip() or b"\r" in v or b"\n" in v:
            return False
        if cl["quotes"]:
            if b'"' in v:
                return False
        elif not v or b"," in v or v.startswith(b'"'):
            return False
    return True


def oracle(case, impl_out):
    R = _execute(case)
    # (1) nothing but the documented login failure
    if R["dec"] not in ("ok", "!LoginFailed"):
        return {"key": "decode-raises-" + R["dec"][1:],
                "detail": f"decode({R['header']!r}) raised {R['dec'][1:]} instead of LoginFailed"}
    for (e, b, exc), p in zip(R["pw"], case["pws"]):
        if exc:
            return {"key": "checkPassword-raises-" + exc,
                    "detail": f"decode({R['header']!r}) succeeded and checkPassword({unhx(p)!r}) raised {exc}"}
    accepted = [p for (e, b, exc), p in zip(R["pw"], case["pws"]) if b]
    now = _int_time(case["now"])
    here = host_norm(case["host"])
    # (2) only if: an accepted response carries an issued challenge unaltered, from its address, in its lifetime
    if accepted and not case.get("insider"):
        fn, fo = R["fields"].get(b"nonce"), R["fields"].get(b"opaque")
        same = [c for c in R["chals"] if c["nonce"] == fn and c["opaque"] == fo]
        if not same:
            noncanon = False
            for c in R["chals"]:
                try:
                    if (c["nonce"] == fn and fo.split(b"-")[0] == c["opaque"].split(b"-")[0]
                            and base64.b64decode(fo.split(b"-")[1]) == base64.b64decode(c["opaque"].split(b"-")[1])):
                        noncanon = True
                except Exception:  # noqa: BLE001
                    pass
            return {"key": "accepted-altered-opaque-same-content" if noncanon else "accepted-altered-challenge",
                    "detail": f"password accepted although nonce={fn!r} opaque={fo!r} is not a challenge that was issued "
                              f"(issued: {[(c['nonce'], c['opaque']) for c in R['chals']]!r})"}
        if not any(host_norm(c["host"]) == here for c in same):
            return {"key": "accepted-other-client", "detail": f"challenge issued to {same[0]['host']} accepted from {case['host']}"}
        if not any(host_norm(c["host"]) == here and now - _int_time(c["t"]) <= LIFE for c in same):
            return {"key": "accepted-expired", "detail": f"challenge issued at {same[0]['t']/4}s accepted at {case['now']/4}s"}
    # (3) if: a clean response to an unaltered challenge from its address in its lifetime is accepted with the password
    #     it was computed with, and only with that one
    if _clean(case):
        cl = case["client"]
        c = R["chals"][cl["use"] % len(R["chals"])]
        valid = (R["sent_nonce"] == c["nonce"] and R["sent_opaque"] == c["opaque"]
                 and host_norm(c["host"]) == here and now - _int_time(c["t"]) <= LIFE)
        if valid:
            if R["dec"] != "ok":
                return {"key": "rejected-valid", "detail": f"valid response {R['header']!r} refused by decode"}
            for (e, b, exc), p in zip(R["pw"], case["pws"]):
                if b != (p == cl["pw"]):
                    return {"key": "right-password-rejected" if p == cl["pw"] else "wrong-password-accepted",
                            "detail": f"response computed with {unhx(cl['pw'])!r}: checkPassword({unhx(p)!r}) = {b}"}
    return None


# ------------------------------------------------------------------------------------------------
# cases

def _case(**kw):
    c = {"pk": "6b65796b65796b65796b6579", "realm": b"test realm".hex(), "falg": "md5",
         "issues": [{"t": 4000, "host": ["s", "10.2.3.4"], "rnd": "000102030405060708090a0b"}],
         "now": 4040, "host": ["s", "10.2.3.4"], "method": b"GET".hex(), "raw": None, "pws": [b"secret".hex(), b"wrong".hex()],
         "client": {"use": 0, "user": b"foobar".hex(), "pw": b"secret".hex(), "uri": b"/write/".hex(), "alg": "md5",
                    "qop": "auth", "nc": b"00000001".hex(), "cnonce": b"29fc54aa1641c6fa0e151419361c8f23".hex(),
                    "quotes": True, "sep": b", ".hex(), "clean": True}}
    cl = kw.pop("client", {})
    c.update(kw)
    c["client"] = dict(c["client"], **cl) if cl is not None else None
    return c


def corpus():
    return [
        _case(),
        # the hand-found defect: tampered opaque whose base64 part no longer decodes
        _case(client={"opaque_mut": [{"kind": "b64", "m": {"kind": "trunc", "pos": 5}}]}),
        _case(client={"opaque_mut": [{"kind": "set", "b": b"abc-Q".hex()}]}),
        # non-ASCII field name
        _case(client={"extra": [[0, "ff6b", b"v".hex()]]}),
        # junk inside / after the base64 part, non-canonical pad bits: same content, altered opaque
        _case(client={"opaque_mut": [{"kind": "b64", "m": {"kind": "ins", "pos": 3, "b": "21"}}]}),
        _case(client={"opaque_mut": [{"kind": "append", "b": b"=zz".hex()}]}),
        # responses whose digest cannot be computed
        _case(client={"override": [["algorithm", b"bogus".hex()]]}),
        _case(client={"omit": ["uri"]}),
        _case(client={"override": [["qop", b"auth-int".hex()]]}),
        _case(client={"alg": "md5-sess", "omit": ["cnonce"]}),
        # boundaries of the lifetime; other address; equivalent address
        _case(now=4000 + 4 * LIFE + 3), _case(now=4000 + 4 * LIFE + 4),
        _case(host=["b", b"10.2.3.5".hex()]), _case(host=["b", b"10.2.3.4".hex()]),
        _case(issues=[{"t": 4000, "host": ["N"], "rnd": "aa" * 12}], host=["s", ""]),
        _case(client={"alg": "sha"}), _case(client={"alg": "md5-sess"}), _case(client={"alg": None, "qop": None}),
        _case(client={"alg": "MD5", "quotes": False, "clean": True}),
        _case(raw=b"username=x".hex(), client=None), _case(raw="-", client=None),
    ]


VAL = [bytes([b]) for b in b"abcxyzABZ019/:=-_.~%+"] + [b" ", b"\xc3\xa9", b"\xff"]


def _val(rng, lo=1, hi=10, unquoted=False):
    n = rng.randint(lo, hi)
    out = b"".join(rng.choice(VAL) for _ in range(n))
    out = out.strip() or b"v"
    return out


def _host(rng):
    r = rng.random()
    if r < 0.12:
        return ["N"]
    if r < 0.2:
        return ["s", ""]
    if r < 0.26:
        return ["b", "-"]
    ip = rng.choice(["10.2.3.4", "10.2.3.5", "::1", "192.168.0.1", "a"])
    return ["s", ip] if rng.random() < 0.6 else ["b", ip.encode().hex()]


def _equiv_host(rng, h):
    n = host_norm(h)
    if not n:
        return rng.choice([["N"], ["s", ""], ["b", "-"]])
    return rng.choice([["s", n.decode()], ["b", n.hex()]])


def _bmut(rng):
    k = rng.choice(["flip", "del", "ins", "trunc", "append", "padbits", "upper"])
    m = {"kind": k, "pos": rng.randint(0, 80)}
    if k == "flip":
        m["x"] = rng.choice([1, 2, 0x20, 0x80, 0xFF])
    if k in ("ins", "append"):
        m["b"] = rng.choice([b"=", b"!", b"\n", b" ", b"-", b",", b"A", b"\x00", b"==", b"=zz", b"\xff", b"Q"]).hex()
    return m


def _opaque_mut(rng, nissues, pk_known, nowint=1000):
    r = rng.random()
    if r < 0.3:
        return {"kind": "b64", "m": _bmut(rng)}
    if r < 0.4:
        return {"kind": "digest", "m": _bmut(rng)}
    if r < 0.55:
        return _bmut(rng)
    if r < 0.65:
        return {"kind": rng.choice(["other", "swapdigest"]), "i": rng.randint(0, max(0, nissues - 1))}
    if r < 0.72:
        key = b",".join([rng.choice([b"00", b"abc"]), rng.choice([b"", b"10.2.3.4"]), str(rng.randint(0, 3000)).encode()])
        return {"kind": "rekey", "key": key.hex()}
    n = str(nowint - rng.choice([0, 0, 5, LIFE, LIFE + 1, -3])).encode()
    us = b"_".join(n[i:i + 1] for i in range(len(n))) if not n.startswith(b"-") else n
    tf = rng.choice([n, b"+" + n, b" " + n + b" ", us, n[:1] + b"__" + n[1:], b"_" + n, n + b"_", b"-5", b"", b"x", n + b".0", b"0x10",
                     b"\t" + n + b"\n", n + b"\x00", b"0" * (4300 - len(n)) + n, b"0" * (4301 - len(n)) + n, b"9" * 4300, b"9" * 4301,
                     b"1" + b"_0" * 4300, b"99999999999", n + b",7", b"\x1c" + n, b"\x0b\x0c\r" + n, b"+ " + n, b"-" + n, b"--" + n])
    m = {"kind": "forge_now", "time": tf.hex(), "realpk": pk_known, "pk": "00" * 12}
    if rng.random() < 0.3:
        m["b64mut"] = _bmut(rng)
    return m


def _structured(rng):
    nis = rng.choice([1, 1, 2, 3])
    issues = []
    t = rng.randint(0, 8000)
    for _ in range(nis):
        issues.append({"t": t, "host": _host(rng), "rnd": bytes(rng.randrange(256) for _ in range(12)).hex()})
        t += rng.choice([0, 1, 3, 40, 4 * LIFE, 9000])
    use = rng.randrange(nis)
    it = issues[use]
    # time relation
    r = rng.random()
    base = (it["t"] // 4) * 4
    if r < 0.45:
        now = it["t"] + rng.randint(0, 4 * LIFE - 8)
    elif r < 0.75:
        now = base + 4 * LIFE + rng.choice([-4, -1, 0, 1, 3, 4, 5, 7, 8])
    elif r < 0.9:
        now = it["t"] + rng.randint(4 * LIFE, 40 * LIFE)
    else:
        now = it["t"] - rng.randint(1, 4000)
    # address relation
    r = rng.random()
    host = it["host"] if r < 0.5 else (_equiv_host(rng, it["host"]) if r < 0.8 else _host(rng))
    alg = rng.choice(["md5", "md5", "MD5", "sha", "SHA", "md5-sess", "MD5-sess", None])
    qop = rng.choice(["auth", "auth", "auth", None])
    if alg and alg.lower() == "md5-sess" and qop is None:
        qop = "auth"
    quotes = rng.random() < 0.7
    pw = _val(rng, 0, 8) if rng.random() < 0.9 else b""
    pw = rng.choice([pw, pw, b"pass:word", b"\x00\xff"])
    cl = {"use": use, "user": _val(rng).replace(b",", b"").hex(), "pw": pw.hex(), "uri": (b"/" + _val(rng, 0, 8)).hex(), "alg": alg,
          "qop": qop, "nc": b"%08x" % rng.randint(1, 9), "cnonce": hexlify(bytes(rng.randrange(256) for _ in range(4))).hex(),
          "quotes": quotes, "sep": rng.choice([b", ", b",", b",\r\n ", b", "]).hex(), "clean": True,
          "rot": rng.randint(0, 9)}
    cl["nc"] = cl["nc"].hex()
    insider = False
    r = rng.random()
    if r < 0.35:
        pass
    elif r < 0.75:
        pk_known = rng.random() < 0.45
        muts = [_opaque_mut(rng, nis, pk_known, _int_time(now)) for _ in range(rng.choice([1, 1, 2]))]
        cl["opaque_mut"] = muts
        insider = any(m.get("realpk") for m in muts)
    elif r < 0.9:
        cl["nonce_mut"] = [rng.choice([_bmut(rng), {"kind": "other", "i": rng.randint(0, nis - 1)}])]
    else:
        cl["nonce_mut"] = [{"kind": "other", "i": rng.randint(0, nis - 1)}]
        cl["opaque_mut"] = [{"kind": "other", "i": rng.randint(0, nis - 1)}]
    # malformed stream
    r = rng.random()
    if r < 0.08:
        cl["omit"] = rng.sample(["username", "nonce", "opaque", "uri", "response", "cnonce", "nc", "realm", "qop", "algorithm"],
                                rng.choice([1, 1, 2]))
    elif r < 0.16:
        cl["override"] = [rng.choice([["algorithm", b"bogus".hex()], ["algorithm", b"sha-256".hex()], ["algorithm", "-"],
                                      ["qop", b"auth-int".hex()], ["qop", b"AUTH".hex()], ["username", "-"],
                                      ["algorithm", b"MD5-SESS".hex()], ["nc", "-"], ["cnonce", "-"], ["uri", "-"]])]
    elif r < 0.24:
        cl["extra"] = [[rng.randint(0, 12), rng.choice([b"\xffk", b"k\xc3\xa9", b"nonce", b"opaque", b"username", b"\tk", b"algorithm",
                                                         b"x,y", b"\"q"]).hex(),
                        rng.choice([b"v", b"", b"md5", b"\xff", b"a b"]).hex()]]
    elif r < 0.32:
        cl["header_mut"] = [_bmut(rng) for _ in range(rng.choice([1, 2, 4]))]
        for m in cl["header_mut"]:
            m["pos"] = rng.randint(0, 400)
            if m["kind"] in ("trunc", "upper", "padbits"):
                m["kind"] = "flip"
                m["x"] = rng.choice([1, 0x80, 0x10])
    pws = [cl["pw"], (pw + b"x").hex(), (pw[:-1]).hex() if pw else "78", rng.choice([b"", b"secret", b"\xff"]).hex()]
    pws = list(dict.fromkeys(pws))
    return {"pk": bytes(rng.randrange(256) for _ in range(rng.choice([12, 12, 0, 3]))).hex() or "-",
            "realm": rng.choice([b"test realm", b"r", b"", b"a:b"]).hex() or "-", "falg": rng.choice(["md5", "sha"]),
            "issues": issues, "now": now, "host": host, "method": rng.choice([b"GET", b"POST", b""]).hex() or "-",
            "raw": None, "client": cl, "pws": pws, "insider": insider}


RAWTOK = [b"username", b"nonce", b"opaque", b"uri", b"response", b"=", b"=", b'"', b'"', b",", b" ", b"a", b"b-Yg==", b"\r\n",
          b"\n", b"\xff", b"\t", b"Digest ", b"x", b"=\"", b"\",", b"-", b"QQ==", b"algorithm=zz"]


def _raw(rng):
    c = _structured(rng)
    c["client"] = None
    c["insider"] = False
    c["raw"] = b"".join(rng.choice(RAWTOK) for _ in range(rng.randint(0, 14))).hex() or "-"
    return c


def generate(rng, tier):
    n = 1500 if tier == "quick" else 30000
    for i in range(n):
        yield _raw(rng) if rng.random() < 0.08 else _structured(rng)


def search(rng, tier, disagreeing):
    for c in disagreeing[:20]:
        yield c
    for i in range(3000 if tier == "quick" else 20000):
        yield _structured(rng)


def shrink(c):
    c = json.loads(json.dumps(c))
    cl = c.get("client")
    if cl:
        for k in ("opaque_mut", "nonce_mut", "header_mut", "extra", "omit", "override"):
            v = cl.get(k)
            if v:
                for i in range(len(v)):
                    d = json.loads(json.dumps(c))
                    d["client"][k] = v[:i] + v[i + 1:]
                    yield d
        if len(c["issues"]) > 1:
            for i in range(len(c["issues"])):
                if i != cl["use"] % len(c["issues"]):
                    d = json.loads(json.dumps(c))
                    del d["issues"][i]
                    d["client"]["use"] = 0 if len(d["issues"]) == 1 else (cl["use"] % len(c["issues"])) - (1 if i < cl["use"] % len(c["issues"]) else 0)
                    yield d
        for k, v in (("rot", 0), ("sep", b", ".hex()), ("quotes", True), ("alg", "md5"), ("qop", "auth")):
            if cl.get(k) != v:
                d = json.loads(json.dumps(c))
                d["client"][k] = v
                yield d
    elif c.get("raw") not in (None, "-"):
        raw = unhx(c["raw"])
        for i in range(len(raw)):
            d = json.loads(json.dumps(c))
            d["raw"] = (raw[:i] + raw[i + 1:]).hex() or "-"
            yield d
    if len(c["pws"]) > 1:
        for i in range(len(c["pws"])):
            d = json.loads(json.dumps(c))
            del d["pws"][i]
            yield d


def tag(c, out):
    R = _execute(c)
    cl = c.get("client")
    if not cl:
        return f"raw:{R['dec']}"
    ch = R["chals"][cl["use"] % len(R["chals"])]
    now = _int_time(c["now"])
    d = now - _int_time(ch["t"])
    trel = "before" if d < 0 else "in" if d < LIFE else "edge" if d == LIFE else "edge+1" if d == LIFE + 1 else "late"
    hrel = "same" if c["host"] == ch["host"] else "equiv" if host_norm(c["host"]) == host_norm(ch["host"]) else "other"
    om = "+".join(sorted({m["kind"] + ("/" + m["m"]["kind"] if "m" in m else "") for m in cl.get("opaque_mut") or []}))
    nm = "+".join(sorted({m["kind"] for m in cl.get("nonce_mut") or []}))
    mal = "+".join(k for k in ("omit", "override", "extra", "header_mut") if cl.get(k))
    pw = "".join("!" if exc else str(int(b)) for e, b, exc in R["pw"])
    return f"{R['dec']}|o:{om}|n:{nm}|{hrel}|{trel}|{(cl['alg'] or '-').lower()}|{cl['qop'] or '-'}|{mal}|{pw}"
