"""C41 — mail text codecs: real imap4 "imap4-utf-7" codec and smtp xtext codec vs the Lean model, + oracle.

Cases are {"op": ..., "cps": [code points]} for text inputs and {"op": ..., "hex": "…"} for byte inputs;
{"op": "u7seq", "seq": [[code points], …]} / {"op": "xseq", "seq": ["hex", …]} are HISTORIES: several round trips made
one after the other in the same interpreter (state left over by an earlier call is part of the case).  An optional
"via" says through which door the real codec is entered ("codec" = str.encode/bytes.decode through the codec registry
(default), "direct" = the module functions with their default `errors`, "ba" = the encoded value handed to the decoder
as a bytearray / the xtext input as a bytearray); the model has one door, so the driver line does not mention it.
"""
import base64
import binascii
import codecs
import re
import unicodedata

import twisted.mail.imap4 as imap4  # registers "imap4-utf-7"
from twisted.mail import smtp

HEADLINE = "TwistedProps.C41.utf7_decode_encode / xtext_decode_encode"
RULE = ("texts over all code points weighted to C0 controls (TAB/LF/CR separately), DEL, '&', '+', '-', ',', '=', "
        "Latin-1, BMP, surrogate-adjacent and astral code points, run lengths 0..9 so that every base64 phase "
        "(16n mod 6) and every boundary printable/&/non-printable occurs; byte strings over all 256 values weighted "
        "to '+', '=', hex digits, 32/33/126/127; decoders additionally on mutated encoder output and random bytes; "
        "CPython's own utf-7/utf-16-be/base64 against the model's transcription of them. "
        "Added by the white-box mutation audit (harness/mutants/C41): LONG texts/byte strings (13..300, lengths at 28/29 "
        "UTF-16 units = one 57-byte base64 line, 57/58, 64/65, 72, 76, 128, 256; thorough every run length 1..300 and "
        "512..8193) as one homogeneous or mixed run, framed, printable-only or segmented; UNICODE-SPECIAL strings taken from "
        "this interpreter's unicodedata (decomposed sequences, NFC/NFKC-unstable code points, precomposed letters, "
        "case-mapped letters, Unicode white space/format characters, combining marks after a base letter, numerics) "
        "plus a hand list (Hangul jamo, flags, ZWJ, CRLF, noncharacters, private use); LOOK-ALIKES: texts that are "
        "themselves an encoding ('&AOk-', 'R&D-lab', '+AOk-', '&' + base64 letters + '-', double encodings) and byte "
        "strings that look like an escape of another syntax ('%41', '=41', '+41', '\\x41', double encodings), also fed "
        "straight to the decoders in encoded form; HISTORIES (u7seq/xseq): 2..4 round trips in one interpreter, "
        "texts that end inside a base64 run, the same value again, the same value in the other case; SWEEPS in both tiers: "
        "every printable ASCII character alone and between two runs, every C0/C1/Latin-1 code point, every byte value "
        "followed by two hex digits; other DOORS into the codec (module functions with default errors, codecs.encode/"
        "decode, bytearray arguments). "
        "distinct = (op, character classes present, +long/+uni/+look, door, outcome class)")
ASSUMES = [
    "a Python str is a sequence of code points < 0x110000; 'no lone surrogates' = no code point in D800..DFFF",
    "xtext: the argument of xtext_encode is a bytes object (the statement's domain); the decoded value is a str whose "
    "code points are compared with the byte values (xtext_decode returns str by design, see test_smtp.testXtextEncoding)",
    "'the codec' = the functions registered with the codec registry (imap4.encoder/decoder reached by str.encode / "
    "bytes.decode / bytearray.decode or called directly; smtp.xtext_encode/xtext_decode called directly, through "
    "codecs.encode/decode, or with a bytearray); the stateless StreamReader/StreamWriter wrappers are not exercised "
    "(observed while auditing: imap4.StreamReader.readline() splits its input in 72-byte chunks and decodes each on its own, "
    "so a shift sequence straddling a chunk boundary raises; codecs.getreader/getwriter('xtext') raise AttributeError "
    "because xtext_codec returns a plain tuple — neither is reachable from twisted itself)",
    "a history (u7seq/xseq) is a sequence of calls in ONE interpreter; every call in it is judged by the statement on its own",
]
TRUSTED = [
    "CPython's utf-7 decoder, utf-16-be encoder and binascii.b2a_base64 as transcribed in TwistedModel/Mail/Utf7.lean "
    "(pyDec, utf16be, b64nopad) — each is also run against the model on this run's cases (ops pydec/pyenc/u16/b64)",
    "Python int(bytes, 16) on slices of at most two bytes as transcribed in TwistedModel/Mail/Xtext.lean (pyIntHex; "
    "exhaustively compared in the thorough tier)",
    "harness/py2lean.py (translator: smtp.xtext_encode is regenerated into lean/Generated/Xtext.lean on every run — the for-loop "
    "over iterbytes(s) as List.foldl of the generated loop body, ord(ch) as the byte value (< 256), the +/=/<33/>126 test "
    "literally, networkString(f'+{o:02X}') as 43 :: two upper-case hex digits (pyFmt02X), b''.join(r) as flatten; "
    "translator-regenerated kernel proved equal to the model: TwistedProps.C41.gen_xtextEncode; round trip and RFC 3461 form "
    "restated over the regenerated encoder: gen_xtext_decode_encode, gen_xtext_output_rfc3461)",
]
MANIFEST = {
    "text": "Lean theorems (TwistedProps/C41.lean): for every str without surrogate code points the model of imap4.encoder "
            "produces printable ASCII that is a rendering of an RFC 3501 token list meaning exactly that str, and the model "
            "of imap4.decoder (incl. CPython's utf-7 decoder at bit level) maps it back; for every byte string the model of "
            "smtp.xtext_encode produces RFC 3461 xtext and xtext_decode maps it back; xtext_encode is regenerated from smtp.py by the "
            "translator on every run and proved equal to the model's (gen_xtextEncode). Models tied to imap4.py/smtp.py and "
            "to CPython's codecs by differential runs (incl. long inputs up to 8193, Unicode-special strings, texts/byte "
            "strings that look like encodings, and histories of calls: utf7_history_decode_encode / "
            "xtext_history_decode_encode state that in the model no call's answer depends on an earlier one).",
    "note": "trusts Lean kernel, the hand-written models (differentially tied on every run), CPython codecs as transcribed",
    "technique": "Lean 4 proof (bit-stream base64/UTF-16 inversion, induction over the encoder loop) + differential tie + "
                 "translator-regenerated kernel (xtext_encode) proved equal to the model",
    "design_ref": "DESIGN.md §7 C41",
}

# ---------------------------------------------------------------------------------------
# wire helpers

def enc_text(cps):
    return ",".join(str(c) for c in cps) if cps else "-"


def enc_bytes(b):
    return b.hex() if b else "-"


def to_str(cps):
    return "".join(chr(c) for c in cps)


def cps_of(s):
    return [ord(c) for c in s]


def _exc(e):
    return "!raised " + type(e).__name__


# ---------------------------------------------------------------------------------------
# generators

CTRL = list(range(0, 32)) + [127]
WS = [9, 10, 13]
SPECIAL = [0x26, 0x2B, 0x2D, 0x2C, 0x2F, 0x3D, 0x7E, 0x5C, 0x20]
PRINT = [0x41, 0x61, 0x30, 0x7A, 0x21, 0x25, 0x27, 0x7D]
LATIN = [0x80, 0xA0, 0xE9, 0xFF]
BMP = [0x100, 0x3B1, 0x20AC, 0x65E5, 0xD7FF, 0xE000, 0xFFFD, 0xFFFF, 0xFEFF]
ASTRAL = [0x10000, 0x1F600, 0x10FFFF, 0x103FF, 0x10400, 0xFFFFF]
SURR = [0xD800, 0xDBFF, 0xDC00, 0xDFFF]


def _cp(rng, surrogates=False):
    r = rng.random()
    if r < 0.12:
        return rng.choice(WS)
    if r < 0.24:
        return rng.choice(CTRL)
    if r < 0.40:
        return rng.choice(SPECIAL)
    if r < 0.50:
        return rng.choice(PRINT)
    if r < 0.58:
        return rng.choice(LATIN)
    if r < 0.70:
        return rng.choice(BMP)
    if r < 0.82:
        return rng.choice(ASTRAL)
    if r < 0.86:
        return rng.randrange(0x20, 0x7F)
    if r < 0.90 and surrogates:
        return rng.choice(SURR)
    while True:
        c = rng.randrange(0x110000)
        if surrogates or not (0xD800 <= c <= 0xDFFF):
            return c


def _text(rng, surrogates=False):
    n = rng.choice([0, 1, 1, 2, 2, 3, 3, 4, 5, 6, 7, 9, 12])
    return [_cp(rng, surrogates) for _ in range(n)]


BVALS = [0x2B, 0x3D, 0x20, 0x21, 0x7E, 0x7F, 0x00, 0x0A, 0x30, 0x34, 0x31, 0x41, 0x46, 0x61, 0x66, 0x47, 0x80, 0xFF, 0x2D, 0x5F]


def _bytes(rng):
    n = rng.choice([0, 1, 1, 2, 3, 4, 5, 8, 12])
    return bytes(rng.choice(BVALS) if rng.random() < 0.7 else rng.randrange(256) for _ in range(n))


U7ALPHA = b"&-+,/AQgw09Zz=~ \t\n\x00\x7f\x80\xff"


def _mutate(rng, b, alpha):
    b = bytearray(b)
    for _ in range(rng.choice([1, 1, 2, 3])):
        r = rng.random()
        pos = rng.randrange(len(b) + 1)
        if r < 0.4 or not b:
            b.insert(pos, rng.choice(alpha))
        elif r < 0.7:
            del b[min(pos, len(b) - 1)]
        else:
            b[min(pos, len(b) - 1)] = rng.choice(alpha)
    return bytes(b)


def _u7_bytes(rng):
    r = rng.random()
    if r < 0.5:
        try:
            e = imap4.encoder(to_str(_text(rng, True)))[0]
        except Exception:
            e = b"&AOk-"
        return _mutate(rng, e, U7ALPHA)
    n = rng.choice([0, 1, 2, 3, 4, 5, 6, 8, 11])
    return bytes(rng.choice(U7ALPHA) if rng.random() < 0.8 else rng.randrange(256) for _ in range(n))


XALPHA = b"+=04AFafGg -_x\t\n\x00\x7f\x80\xff!~"


def _x_bytes(rng):
    r = rng.random()
    if r < 0.4:
        return _mutate(rng, smtp.xtext_encode(_bytes(rng))[0], XALPHA)
    n = rng.choice([0, 1, 2, 3, 4, 5, 7])
    return bytes(rng.choice(XALPHA) if rng.random() < 0.85 else rng.randrange(256) for _ in range(n))


# ---------------------------------------------------------------------------------------
# enlarged input classes (white-box mutation audit, harness/mutants/C41/README.md)

# Lengths at the boundaries codec code is written around: 57 bytes = one 76-column base64 line = 28.5 UTF-16 units,
# 72 (codecs.StreamReader chunk), 76/78 (MIME line), powers of two, 255/256; thorough: 512 … 8193.
LONG_Q = [13, 14, 15, 16, 19, 24, 28, 29, 30, 31, 32, 33, 38, 39, 48, 57, 58, 63, 64, 65, 66, 72, 73, 76, 77, 78, 96, 100,
          127, 128, 129, 192, 255, 256, 257]
LONG_T = [511, 512, 513, 1000, 1023, 1024, 1025, 2048, 4095, 4096, 4097, 8191, 8192, 8193]


def _long_n(rng, tier):
    r = rng.random()
    if tier == "thorough" and r < 0.01:
        return rng.choice(LONG_T)
    if r < 0.65:
        return rng.choice(LONG_Q)
    return rng.randrange(13, 300)


def _np(rng):
    """a code point the encoder has to put into a base64 run (not printable ASCII, not a surrogate)"""
    r = rng.random()
    if r < 0.12:
        return rng.choice(WS)
    if r < 0.26:
        return rng.choice(CTRL)
    if r < 0.40:
        return rng.choice(LATIN)
    if r < 0.65:
        return rng.choice(BMP)
    if r < 0.85:
        return rng.choice(ASTRAL)
    while True:
        c = _uni_atom(rng)[-1]
        if c > 0x7E:
            return c


def _pr(rng):
    return rng.randrange(0x20, 0x7F)


def _long_text(rng, tier):
    n = _long_n(rng, tier)
    shape = rng.random()
    if shape < 0.40:            # ONE run of n characters (homogeneous or mixed), bare or framed by printable text
        run = [_np(rng)] * n if rng.random() < 0.5 else [_np(rng) for _ in range(n)]
        pre = [_pr(rng) for _ in range(rng.choice([0, 0, 1, 3]))]
        post = [_pr(rng) for _ in range(rng.choice([0, 0, 1, 3]))]
        return pre + run + post
    if shape < 0.55:            # n printable characters with a few '&' / one-character runs inside
        t = [_pr(rng) for _ in range(n)]
        for _ in range(rng.choice([0, 1, 2, 5])):
            t[rng.randrange(n)] = rng.choice([0x26, 0xE9, 10, 0x1F600, 0x2D])
        return t
    t = []                      # segments: runs and printable stretches of boundary lengths
    while len(t) < n:
        k = rng.choice([1, 2, 3, 5, 8, 13, 29, 33, 65])
        if rng.random() < 0.55:
            t += [_np(rng)] * k if rng.random() < 0.3 else [_np(rng) for _ in range(k)]
        else:
            t += [_pr(rng) for _ in range(k)]
    return t[:n]


def _long_bytes(rng, tier):
    n = _long_n(rng, tier)
    shape = rng.random()
    if shape < 0.2:
        return bytes([rng.choice(BVALS)]) * n
    if shape < 0.5:
        return bytes(rng.choice(BVALS) if rng.random() < 0.7 else rng.randrange(256) for _ in range(n))
    if shape < 0.8:             # an address-like value: xchars with a few bytes that need escaping
        t = bytearray(rng.randrange(0x21, 0x7F) for _ in range(n))
        for _ in range(rng.choice([0, 1, 2, 5])):
            t[rng.randrange(n)] = rng.choice([0x2B, 0x3D, 0x20, 0x0A, 0x7F, 0xFF, 0x00])
        return bytes(t)
    return bytes(rng.randrange(256) for _ in range(n))


# --- strings that Unicode-aware str methods treat specially (normalisation, case mapping, whitespace, format characters …)
UNI_SEQ = [[0x65, 0x301], [0x41, 0x30A], [0x6F, 0x308], [0x63, 0x327], [0x1100, 0x1161], [0x1100, 0x1161, 0x11A8],
           [0x304B, 0x3099], [0x61, 0x307, 0x323], [0x61, 0x323, 0x307], [0x3C9, 0x301], [0x73, 0x323, 0x307],
           [0x1F1E9, 0x1F1EA], [0x1F468, 0x200D, 0x1F469], [0x2764, 0xFE0F], [0x0D, 0x0A], [0x0A, 0x0D]]
UNI_CP = [0x212B, 0x2126, 0x212A, 0x340, 0x341, 0x343, 0x374, 0x37E, 0x387, 0x1F71, 0x2000, 0x2001, 0x2329, 0xF900, 0xFB1D,
          0x958, 0x2F800, 0x1D15E, 0x1E69, 0xAC00, 0x304C, 0xFB01, 0xB5, 0x2460, 0xFF21, 0xAA, 0x2122, 0xDF, 0x130, 0x131,
          0x17F, 0x3A3, 0x3C3, 0x3C2, 0x1E9E, 0x10400, 0x10428, 0x85, 0xA0, 0x1680, 0x2002, 0x200A, 0x2028, 0x2029, 0x202F,
          0x205F, 0x3000, 0x180E, 0x200B, 0x1C, 0x1D, 0x1E, 0x1F, 0x0B, 0x0C, 0xAD, 0x200E, 0x200F, 0x202A, 0x202E, 0x2060,
          0x2066, 0xFEFF, 0xFFF9, 0xE0001, 0xE0100, 0xFDD0, 0xFFFE, 0xFFFF, 0x1FFFE, 0x10FFFE, 0x10FFFF, 0x378, 0xE000,
          0xF8FF, 0xF0000, 0x660, 0xFF10, 0x966, 0xB2, 0x2155, 0x3002, 0x80, 0x9F, 0xD7, 0xF7]
_UNI = None


def _uni_pools():
    """Code points this interpreter's Unicode database treats specially, by kind (computed once per process)."""
    global _UNI
    if _UNI is None:
        pools = {k: [] for k in ("nfc", "nfd", "nfkc", "case", "space", "comb", "digit")}
        ranges = [(0x80, 0x3400), (0xA000, 0xAC80), (0xD780, 0xD7A4), (0xF900, 0x10000), (0x10000, 0x12000),
                  (0x16E00, 0x17000), (0x1D000, 0x1F300), (0x2F800, 0x2FA1E), (0xE0000, 0xE0200)]
        for lo, hi in ranges:
            for c in range(lo, hi):
                if 0xD800 <= c <= 0xDFFF:
                    continue
                ch = chr(c)
                nfc = unicodedata.normalize("NFC", ch) != ch
                if nfc:
                    pools["nfc"].append(c)
                if unicodedata.normalize("NFD", ch) != ch:
                    pools["nfd"].append(c)
                if not nfc and unicodedata.normalize("NFKC", ch) != ch:
                    pools["nfkc"].append(c)
                if ch.lower() != ch or ch.upper() != ch or ch.casefold() != ch:
                    pools["case"].append(c)
                if ch.isspace() or unicodedata.category(ch) in ("Zs", "Zl", "Zp", "Cf"):
                    pools["space"].append(c)
                if unicodedata.combining(ch):
                    pools["comb"].append(c)
                if ch.isnumeric():
                    pools["digit"].append(c)
        _UNI = pools
    return _UNI


def _uni_atom(rng):
    u = _uni_pools()
    r = rng.random()
    if r < 0.22:        # a decomposed sequence (NFC/NFKC change it)
        return cps_of(unicodedata.normalize("NFD", chr(rng.choice(u["nfd"]))))
    if r < 0.34:
        return [rng.choice(u["nfc"])]
    if r < 0.42:
        return [rng.choice(u["nfd"])]
    if r < 0.50:
        return [rng.choice(u["nfkc"])]
    if r < 0.58:
        return [rng.choice(u["case"])]
    if r < 0.66:
        return [rng.choice(u["space"])]
    if r < 0.72:
        return [rng.choice([0x65, 0x61, 0x41, 0x6F, 0x3B1]), rng.choice(u["comb"])]
    if r < 0.76:
        return [rng.choice(u["digit"])]
    if r < 0.88:
        return list(rng.choice(UNI_SEQ))
    return [rng.choice(UNI_CP)]


def _uni_text(rng):
    t = []
    for _ in range(rng.choice([1, 1, 2, 2, 3, 4, 6])):
        r = rng.random()
        if r < 0.70:
            t += _uni_atom(rng)
        elif r < 0.85:
            t.append(rng.choice([0x65, 0x61, 0x41, 0x20, 0x26, 0x2D, 0x6F]))
        else:
            t.append(_cp(rng))
    return t


# --- look-alikes: the INPUT contains what another layer would take for an escape (the text is itself an encoding)
B64CH = "ABCDEFGHIJKLMNOPQRSTUVWXYZabcdefghijklmnopqrstuvwxyz0123456789+,"
U7_LOOK = ["&", "-", "&-", "+", "+-", "&AOk-", "+AOk-", "&AOk", "AOk-", "&-AOk-", ",", "/", "=", "&amp;", "&#233;", "%26",
           "=26", "\\u00e9", "=?utf-7?Q?", "R&D-", "&,-", "&+-", "&AAA-", "&AAAA-", "é", "\n", " ", "a", "~", "--", "&&"]
X_LOOK = [b"+41", b"%41", b"=41", b"+2B", b"+3D", b"+", b"=", b"+4", b"4", b"1", b"+2b", b"%2B", b"%", b"%%", b"\\x41",
          b"&#65;", b"=3D", b"+zz", b"+-1", b"+ 4", b" ", b"\n", b"\xff", b"A", b"%0A", b"%zz", b"+0A", b"_", b"1_0"]


def _ref_u7(s):
    """RFC 3501 §5.1.3 writer built from the stdlib only (used to GENERATE texts that look like encodings)."""
    out, run = [], []

    def flush():
        if run:
            raw = "".join(run).encode("utf-16-be", "surrogatepass")
            out.append(b"&" + base64.b64encode(raw).rstrip(b"=").replace(b"/", b",") + b"-")
            del run[:]
    for ch in s:
        if ch == "&":
            flush()
            out.append(b"&-")
        elif " " <= ch <= "~":
            flush()
            out.append(ch.encode("ascii"))
        else:
            run.append(ch)
    flush()
    return b"".join(out)


def _ref_xtext(b):
    return re.sub(rb"[^!-*,-<>-~]", lambda m: b"+%02X" % m.group()[0], b)


def _u7_lookalike(rng):
    if rng.random() < 0.3:      # double encoding: the text is the encoding of another text
        return cps_of(_ref_u7(to_str(_text(rng))).decode("ascii"))
    atoms = []
    for _ in range(rng.choice([1, 2, 2, 3, 4, 5])):
        if rng.random() < 0.3:
            atoms.append("&" + "".join(rng.choice(B64CH) for _ in range(rng.choice([1, 2, 3, 4, 8])))
                         + rng.choice(["-", "-", ""]))
        else:
            atoms.append(rng.choice(U7_LOOK))
    return cps_of("".join(atoms))


def _x_lookalike(rng):
    if rng.random() < 0.3:
        return _ref_xtext(_bytes(rng))
    atoms = []
    for _ in range(rng.choice([1, 2, 2, 3, 4, 5])):
        r = rng.random()
        if r < 0.35:            # any xchar (or '+', '=') followed by two hex digits
            atoms.append(bytes([rng.randrange(0x21, 0x7F)]) + bytes(rng.choice(b"0123456789ABCDEFabcdef") for _ in range(2)))
        else:
            atoms.append(rng.choice(X_LOOK))
    return b"".join(atoms)


# --- histories: several round trips one after the other (state left behind by an earlier call)
def _open_ended(rng):
    """a text that ends inside a base64 run (what a scratch buffer would still hold after the call)"""
    return _text(rng) + [_np(rng) for _ in range(rng.choice([1, 1, 2, 3]))]


def _u7_seq(rng):
    items = []
    for _ in range(rng.choice([2, 2, 3, 4])):
        r = rng.random()
        items.append(_open_ended(rng) if r < 0.5 else _text(rng) if r < 0.8 else _uni_text(rng))
    r = rng.random()
    if r < 0.2:
        items[-1] = list(items[0])                              # the same value again (a cache hit)
    elif r < 0.4:
        items[-1] = cps_of(to_str(items[0]).swapcase())         # equal under case folding, not equal
    return items


def _x_seq(rng):
    items = [(_bytes(rng) if rng.random() < 0.7 else _x_lookalike(rng)) for _ in range(rng.choice([2, 2, 3, 4]))]
    r = rng.random()
    if r < 0.2:
        items[-1] = items[0]
    elif r < 0.4:
        items[-1] = items[0].swapcase()
    return [b.hex() for b in items]


def _via(rng, choices):
    return rng.choice(choices) if rng.random() < 0.12 else None


def _with_via(case, via):
    if via:
        case["via"] = via
    return case


def _sweeps():
    """Deterministic, run in BOTH tiers: every printable ASCII character alone and between two runs, every C0/C1/Latin-1
    code point, every byte value through xtext followed by two hex digits (`%41`, `=41`, `+41`, `\\41` …)."""
    for p in range(0x20, 0x7F):
        yield {"op": "u7rt", "cps": [p]}
        yield {"op": "u7rt", "cps": [0xE9, p, 0x10000, p, p]}
    for c in range(0x20):
        yield {"op": "u7rt", "cps": [0x41, c, 0xE9]}
    for c in range(0x7F, 0x100):
        yield {"op": "u7rt", "cps": [c]}
    for b in range(256):
        yield {"op": "xrt", "hex": bytes([b, 0x34, 0x31, b]).hex()}


def corpus():
    out = [
        # xtext witnesses
        {"op": "xrt", "hex": b"a+41".hex()},
        {"op": "xrt", "hex": b"+".hex()},
        {"op": "xrt", "hex": b"=".hex()},
        {"op": "xrt", "hex": b"Hello+world e=mc2 \x00\xff".hex()},
        {"op": "xdec", "hex": b"+".hex()},
        {"op": "xdec", "hex": b"+4".hex()},
        {"op": "xdec", "hex": b"+zz".hex()},
        {"op": "xdec", "hex": b"+-0+ 4+4 +-1".hex()},
        {"op": "xdec", "hex": b"a\x80".hex()},
        # utf-7 witnesses / boundaries
        {"op": "u7rt", "cps": [10]},
        {"op": "u7rt", "cps": [9]},
        {"op": "u7rt", "cps": [13]},
        {"op": "u7rt", "cps": [0xE9, 10]},
        {"op": "u7rt", "cps": [10, 0xE9]},
        {"op": "u7rt", "cps": [0xE9, 9, 0xE9]},
        {"op": "u7rt", "cps": cps_of("Hello & wörld~\\+-,/")},
        {"op": "u7rt", "cps": [0x1F600, 0x26, 0, 0x7F, 0x10FFFF, 0x2D]},
        {"op": "u7rt", "cps": [0xE9, 0x2D, 0xE9, 0x41, 0x26, 0x26]},
        {"op": "u7rt", "cps": []},
        {"op": "u7rt", "cps": [0xD800]},
        {"op": "u7rt", "cps": [0xD800, 0xDC00]},
        {"op": "u7dec", "hex": b"&".hex()},
        {"op": "u7dec", "hex": b"&AOk".hex()},
        {"op": "u7dec", "hex": b"&AOk-&-&AOl-".hex()},
        {"op": "u7dec", "hex": b"&A-".hex()},
        {"op": "u7dec", "hex": b"&2D3eAA-&2D0-&3gA-x".hex()},
        {"op": "u7dec", "hex": b"&+AOk-a\x80".hex()},
        {"op": "pydec", "hex": b"+AOk-+-+".hex()},
        {"op": "pydec", "hex": b"+2D0+3gA-".hex()},
        {"op": "pyenc", "cps": [0xE9, 0x41, 0xE9, 0x21, 0x2B, 9, 0]},
        # witnesses of the white-box mutants (harness/mutants/C41): long runs (base64 line length, run-length thresholds) …
        {"op": "u7rt", "cps": [0xE9] * 29},
        {"op": "u7rt", "cps": [0x1F600] * 15},
        {"op": "u7rt", "cps": [0xE9] * 65},
        {"op": "u7rt", "cps": [0x41] + [0x65E5] * 129 + [0x2D]},
        {"op": "b64", "hex": (b"\x00\xe9" * 29).hex()},
        {"op": "xrt", "hex": (b"a+\n" * 22).hex()},
        {"op": "xrt", "hex": (b"user=name+tag@example.org " * 11).hex()},
        # … Unicode normalisation / case / whitespace, a printable character an IMAP parser finds special …
        {"op": "u7rt", "cps": [0x65, 0x301]},
        {"op": "u7rt", "cps": [0x212B, 0x20, 0xC5, 0x20, 0x41, 0x30A]},
        {"op": "u7rt", "cps": [0x1100, 0x1161, 0x11A8, 0xAC01]},
        {"op": "u7rt", "cps": [0x20, 0x3000, 0x2028, 0x85, 0xA0, 0x20]},
        {"op": "u7rt", "cps": cps_of('a"b*c%d\\e(f)g{h}')},
        # … texts that look like an encoding, values that look like an escape of another syntax …
        {"op": "u7rt", "cps": cps_of("R&D-lab")},
        {"op": "u7rt", "cps": cps_of("&AOk-")},
        {"op": "u7rt", "cps": cps_of("+AOk- &- &&- é&AOk-")},
        {"op": "xrt", "hex": b"100%41".hex()},
        {"op": "xrt", "hex": b"=41 +41 %2B \\x41 +2B41".hex()},
        {"op": "xrt", "hex": bytes([0xA4, 0xA6, 0xA8, 0xB4, 0xB8, 0xBC, 0xBD, 0xBE, 0x80, 0x9F]).hex()},
        # … histories (a scratch buffer or a cache surviving the call), other doors into the codec
        {"op": "u7seq", "seq": [[0xE9], cps_of("abc"), [0xE9]]},
        {"op": "u7seq", "seq": [cps_of("INBOX"), cps_of("inbox"), cps_of("INBOX")]},
        {"op": "xseq", "seq": [b"a+".hex(), b"A+".hex(), b"a+".hex(), ""]},
        {"op": "u7rt", "cps": cps_of("Entwürfe & mehr"), "via": "direct"},
        {"op": "u7rt", "cps": cps_of("Entwürfe & mehr"), "via": "ba"},
        {"op": "xrt", "hex": b"a+b=c \xff".hex(), "via": "codec"},
        {"op": "xrt", "hex": b"a+b=c \xff".hex(), "via": "ba"},
    ]
    return out


def generate(rng, tier):
    yield from _sweeps()
    n = 2500 if tier == "quick" else 60000
    for _ in range(n):
        r = rng.random()
        if r < 0.20:
            yield _with_via({"op": "u7rt", "cps": _text(rng)}, _via(rng, ["direct", "ba"]))
        elif r < 0.24:
            yield {"op": "u7rt", "cps": _text(rng, True)}
        elif r < 0.29:
            yield {"op": "u7rt", "cps": _long_text(rng, tier)}
        elif r < 0.35:
            yield _with_via({"op": "u7rt", "cps": _uni_text(rng)}, _via(rng, ["direct", "ba"]))
        elif r < 0.40:
            yield _with_via({"op": "u7rt", "cps": _u7_lookalike(rng)}, _via(rng, ["direct", "ba"]))
        elif r < 0.43:
            yield {"op": "u7seq", "seq": _u7_seq(rng)}
        elif r < 0.55:
            if rng.random() < 0.15:     # well-formed input straight to the decoder: the encoding of a look-alike text
                yield {"op": "u7dec", "hex": _ref_u7(to_str(_u7_lookalike(rng))).hex()}
            else:
                yield {"op": "u7dec", "hex": _u7_bytes(rng).hex()}
        elif r < 0.60:
            yield {"op": "pydec", "hex": _u7_bytes(rng).replace(b"&", b"+").replace(b",", b"/").hex()}
        elif r < 0.63:
            yield {"op": "pyenc", "cps": _text(rng, True) if rng.random() < 0.8 else _long_text(rng, "quick")}
        elif r < 0.65:
            yield {"op": "u16", "cps": _text(rng, True) if rng.random() < 0.8 else _long_text(rng, "quick")}
        elif r < 0.67:
            yield {"op": "b64", "hex": (_bytes(rng) if rng.random() < 0.7 else _long_bytes(rng, "quick")).hex()}
        elif r < 0.79:
            yield _with_via({"op": "xrt", "hex": _bytes(rng).hex()}, _via(rng, ["codec", "ba"]))
        elif r < 0.83:
            yield {"op": "xrt", "hex": _long_bytes(rng, tier).hex()}
        elif r < 0.88:
            yield _with_via({"op": "xrt", "hex": _x_lookalike(rng).hex()}, _via(rng, ["codec", "ba"]))
        elif r < 0.90:
            yield {"op": "xseq", "seq": _x_seq(rng)}
        else:
            if rng.random() < 0.15:
                yield {"op": "xdec", "hex": _ref_xtext(_x_lookalike(rng)).hex()}
            else:
                yield {"op": "xdec", "hex": _x_bytes(rng).hex()}
    if tier == "thorough":
        # every single byte through xtext; every `+ab`; every single code point class boundary
        for b in range(256):
            yield {"op": "xrt", "hex": bytes([b]).hex()}
            yield {"op": "xdec", "hex": bytes([0x2B, b]).hex()}
        for a in range(256):
            for b in range(256):
                yield {"op": "xdec", "hex": bytes([0x2B, a, b]).hex()}
        for c in list(range(0, 0x180)) + list(range(0xD7F0, 0xE010)) + list(range(0xFFF0, 0x10010)) + [0x10FFFE, 0x10FFFF]:
            yield {"op": "u7rt", "cps": [c]}
            yield {"op": "u7rt", "cps": [0x41, c, c, 0x26]}
        # every run length up to 300 (homogeneous BMP and astral runs, bare and framed), every xtext length up to 300
        for k in range(1, 301):
            yield {"op": "u7rt", "cps": [0xE9] * k}
            yield {"op": "u7rt", "cps": [0x41] + [0x1F600] * k + [0x2D]}
            yield {"op": "xrt", "hex": (b"a+\n=" * k)[:k].hex()}
        # every code point the Unicode database singles out, alone and after a base letter
        u = _uni_pools()
        for c in sorted(set(u["nfc"]) | set(u["nfkc"]) | set(u["space"]) | set(u["comb"])):
            yield {"op": "u7rt", "cps": [0x65, c, 0x41]}
        for c in u["nfd"][::7]:
            yield {"op": "u7rt", "cps": cps_of(unicodedata.normalize("NFD", chr(c)))}


def model_line(c):
    if c["op"] == "u7seq":
        return "u7seq " + ";".join(enc_text(t) for t in c["seq"])
    if c["op"] == "xseq":
        return "xseq " + ";".join(h or "-" for h in c["seq"])
    if "cps" in c:
        return f"{c['op']} {enc_text(c['cps'])}"
    return f"{c['op']} {c['hex'] or '-'}"


# ---------------------------------------------------------------------------------------
# the real code

def _u7dec(b, via=None):
    try:
        if via == "direct":
            t = imap4.decoder(b)[0]
        elif via == "ba":
            t = bytearray(b).decode("imap4-utf-7")
        else:
            t = b.decode("imap4-utf-7")
    except UnicodeDecodeError as e:
        return _exc(e)
    return enc_text(cps_of(t))


def _xdec(b, via=None):
    try:
        if via == "codec":
            t = codecs.decode(b, "xtext")
        elif via == "ba":
            t = smtp.xtext_decode(bytearray(b))[0]
        else:
            t = smtp.xtext_decode(b)[0]
    except (TypeError, UnicodeDecodeError) as e:
        return _exc(e)
    return enc_text(cps_of(t))


def _u7rt(cps, via=None):
    s = to_str(cps)
    e = imap4.encoder(s)[0] if via == "direct" else s.encode("imap4-utf-7")
    return f"enc={enc_bytes(bytes(e))} dec={_u7dec(e, via)}"


def _xrt(b, via=None):
    if via == "codec":
        e = codecs.encode(b, "xtext")
    elif via == "ba":
        e = smtp.xtext_encode(bytearray(b))[0]
    else:
        e = smtp.xtext_encode(b)[0]
    return f"enc={enc_bytes(bytes(e))} dec={_xdec(e, via)}"


def run_impl(c):
    op = c["op"]
    if op == "u7enc":
        return enc_bytes(to_str(c["cps"]).encode("imap4-utf-7"))
    if op == "u7rt":
        return _u7rt(c["cps"], c.get("via"))
    if op == "u7seq":
        return ";".join(_u7rt(t) for t in c["seq"])
    if op == "u7dec":
        return _u7dec(bytes.fromhex(c["hex"]))
    if op == "pyenc":
        return enc_bytes(to_str(c["cps"]).encode("utf-7"))
    if op == "pydec":
        try:
            return enc_text(cps_of(bytes.fromhex(c["hex"]).decode("utf-7")))
        except UnicodeDecodeError as e:
            return _exc(e)
    if op == "u16":
        return enc_bytes(to_str(c["cps"]).encode("utf-16-be", "surrogatepass"))
    if op == "b64":
        return enc_bytes(binascii.b2a_base64(bytes.fromhex(c["hex"])).rstrip(b"\n="))
    if op == "xenc":
        return enc_bytes(smtp.xtext_encode(bytes.fromhex(c["hex"]))[0])
    if op == "xrt":
        return _xrt(bytes.fromhex(c["hex"]), c.get("via"))
    if op == "xseq":
        return ";".join(_xrt(bytes.fromhex(h)) for h in c["seq"])
    if op == "xdec":
        return _xdec(bytes.fromhex(c["hex"]))
    raise ValueError(op)


# ---------------------------------------------------------------------------------------
# the property, evaluated on the implementation's output, independently of the model

_U7_TOKEN = re.compile(rb"[\x20-\x25\x27-\x7e]|&-|&([A-Za-z0-9+,]+)-")
_XTEXT = re.compile(rb"(?:[!-*,-<>-~]|\+[0-9A-F]{2})*\Z")


def rfc3501_meaning(e):
    """Independent RFC 3501 §5.1.3 reader (stdlib base64 + utf-16-be): → (text, None) or (None, why)."""
    pos, out, prev_b64 = 0, [], False
    while pos < len(e):
        m = _U7_TOKEN.match(e, pos)
        if not m:
            return None, f"byte {e[pos]:#04x} at {pos} is not printable ASCII / not a well-formed '&' shift"
        sec = m.group(1)
        if sec is None:
            out.append("&" if m.group(0) == b"&-" else chr(m.group(0)[0]))
            prev_b64 = False
        else:
            if prev_b64:
                return None, f"superfluous shift: two adjacent base64 sections at {pos}"
            if len(sec) % 4 == 1:
                return None, f"base64 section {sec!r} has an impossible length"
            raw = base64.b64decode(sec.replace(b",", b"/") + b"=" * (-len(sec) % 4))
            if len(raw) % 2:
                return None, f"base64 section {sec!r} is not a whole number of UTF-16 units"
            if binascii.b2a_base64(raw).rstrip(b"\n=").replace(b"/", b",") != sec:
                return None, f"base64 section {sec!r} has non-zero padding bits or is over-long"
            try:
                t = raw.decode("utf-16-be")
            except UnicodeDecodeError:
                return None, f"base64 section {sec!r} is not valid UTF-16"
            if any(0x20 <= ord(ch) <= 0x7E for ch in t):
                return None, f"base64 section {sec!r} encodes printable ASCII"
            out.append(t)
            prev_b64 = True
        pos = m.end()
    return "".join(out), None


def _split_rt(out):
    m = re.fullmatch(r"enc=(\S+) dec=(.*)", out)
    if not m:
        return None, None
    e = b"" if m.group(1) == "-" else bytes.fromhex(m.group(1))
    return e, m.group(2)


def _classes(cps):
    s = set()
    for c in cps:
        if c in (9, 10, 13):
            s.add("ws")
        elif c < 32 or c == 127:
            s.add("ctl")
        elif c == 0x26:
            s.add("amp")
        elif c < 127:
            s.add("asc")
        elif 0xD800 <= c <= 0xDFFF:
            s.add("sur")
        elif c < 0x10000:
            s.add("bmp")
        else:
            s.add("ast")
    return s


def _judge_u7(cps, piece, sfx=""):
    if any(0xD800 <= x <= 0xDFFF for x in cps):
        return None     # outside the statement
    s = to_str(cps)
    e, dec = _split_rt(piece)
    if e is None:
        return {"key": "utf7-encode-raises" + sfx, "detail": f"{_short(s)}: {piece[:200]}"}
    ws = "-ws" if _classes(cps) & {"ws"} else ""
    meaning, why = rfc3501_meaning(e)
    if meaning is None:
        return {"key": "utf7-form" + ws + sfx, "detail": f"{_short(s)} encodes to {_short(e)}: {why}"}
    if meaning != s:
        return {"key": "utf7-meaning" + ws + sfx,
                "detail": f"{_short(s)} encodes to {_short(e)} which RFC 3501 reads as {_short(meaning)}"}
    if dec != enc_text(cps):
        return {"key": "utf7-roundtrip" + ws + sfx, "detail": f"{_short(s)} encodes to {_short(e)} which decodes to {dec[:200]}"}
    return None


def _judge_x(b, piece, sfx=""):
    e, dec = _split_rt(piece)
    if e is None:
        return {"key": "xtext-encode-raises" + sfx, "detail": f"{_short(b)}: {piece[:200]}"}
    pe = "-plus-equals" if (b"+" in b or b"=" in b) else ""
    if not _XTEXT.match(e):
        return {"key": "xtext-form" + pe + sfx, "detail": f"{_short(b)} encodes to {_short(e)}: not *(xchar / hexchar) of RFC 3461"}
    if dec != enc_text(list(b)):
        return {"key": "xtext-roundtrip" + pe + sfx, "detail": f"{_short(b)} encodes to {_short(e)} which decodes to {dec[:200]}"}
    return None


def _short(v):
    r = repr(v)
    return r if len(r) <= 240 else f"{r[:150]}…{r[-60:]} (len {len(v)})"


def oracle(c, out):
    op = c["op"]
    if op == "u7rt":
        return _judge_u7(c["cps"], out)
    if op == "xrt":
        return _judge_x(bytes.fromhex(c["hex"]), out)
    if op in ("u7seq", "xseq"):
        # a history: EVERY round trip in it has to satisfy the statement, whatever was encoded before it
        pieces = out.split(";")
        if len(pieces) != len(c["seq"]):
            return {"key": ("utf7" if op == "u7seq" else "xtext") + "-encode-raises-seq", "detail": f"{c['seq']}: {out[:200]}"}
        for k, (item, piece) in enumerate(zip(c["seq"], pieces)):
            r = _judge_u7(item, piece, "-seq") if op == "u7seq" else _judge_x(bytes.fromhex(item), piece, "-seq")
            if r:
                r["detail"] = f"call {k + 1} of {len(pieces)}: " + r["detail"]
                return r
        return None
    return None


def _chunks_removed(x):
    """x with a half / quarter / eighth cut out (long inputs shrink in O(log n) steps before the one-by-one pass)"""
    n = len(x)
    for parts in (2, 4, 8):
        size = n // parts
        if size < 2:
            break
        for k in range(parts):
            yield x[:k * size] + x[(k + 1) * size:]


def shrink(c):
    via = {"via": c["via"]} if c.get("via") else {}
    if via:
        yield {k: v for k, v in c.items() if k != "via"}
    if c["op"] in ("u7seq", "xseq"):
        seq = c["seq"]
        for i in range(len(seq)):
            if len(seq) > 1:
                yield {"op": c["op"], "seq": seq[:i] + seq[i + 1:]}
        if len(seq) == 1:
            yield ({"op": "u7rt", "cps": seq[0]} if c["op"] == "u7seq" else {"op": "xrt", "hex": seq[0]})
        for i, item in enumerate(seq):
            inner = {"op": "u7rt", "cps": item} if c["op"] == "u7seq" else {"op": "xrt", "hex": item}
            for sm in shrink(inner):
                yield {"op": c["op"], "seq": seq[:i] + [sm.get("cps", sm.get("hex"))] + seq[i + 1:]}
        return
    if "cps" in c:
        x = c["cps"]
        if len(x) > 12:
            for y in _chunks_removed(x):
                yield {"op": c["op"], "cps": y, **via}
        for i in range(len(x)):
            yield {"op": c["op"], "cps": x[:i] + x[i + 1:], **via}
        for i, v in enumerate(x):
            for w in (0x41, 10, 0xE9):
                if v != w and v > w:
                    yield {"op": c["op"], "cps": x[:i] + [w] + x[i + 1:], **via}
    else:
        b = bytes.fromhex(c["hex"])
        if len(b) > 12:
            for y in _chunks_removed(b):
                yield {"op": c["op"], "hex": y.hex(), **via}
        for i in range(len(b)):
            yield {"op": c["op"], "hex": (b[:i] + b[i + 1:]).hex(), **via}


def _text_tag(cps):
    cl = "".join(sorted(_classes(cps)))
    if len(cps) > 12:
        cl += "+long"
    if any(c > 0x7F and (unicodedata.combining(chr(c)) or unicodedata.normalize("NFKC", chr(c)) != chr(c)) for c in cps[:64]
           if not 0xD800 <= c <= 0xDFFF):
        cl += "+uni"
    if 0x26 in cps and 0x2D in cps[cps.index(0x26):]:
        cl += "+look"
    return cl


def _bytes_tag(b):
    cl = "".join(sorted({"p" if x in (0x2B, 0x3D) else "a" if 33 <= x <= 126 else "h" if x >= 128 else "c" for x in b}))
    if len(b) > 12:
        cl += "+long"
    if re.search(rb"[!-~][0-9A-Fa-f]{2}", b):
        cl += "+look"
    return cl


def tag(c, out):
    if c["op"] == "u7seq":
        cl = f"seq{len(c['seq'])}:" + _text_tag([x for t in c["seq"] for x in t])
    elif c["op"] == "xseq":
        cl = f"seq{len(c['seq'])}:" + _bytes_tag(b"".join(bytes.fromhex(h) for h in c["seq"]))
    elif "cps" in c:
        cl = _text_tag(c["cps"])
    else:
        cl = _bytes_tag(bytes.fromhex(c["hex"]))
    if c.get("via"):
        cl += "/" + c["via"]
    if "!raised" in out:
        oc = out[out.index("!raised"):][:40]
    else:
        oc = "ok"
    return f"{c['op']}:{cl}:{oc}"


def search(rng, tier, disagreeing):
    """Property-directed: every single code point / byte, every pair of classes, every run length and every look-alike
    through the round trip."""
    for b in range(256):
        yield {"op": "xrt", "hex": bytes([b]).hex()}
        yield {"op": "xrt", "hex": bytes([0x61, b, 0x34, 0x31]).hex()}
    reps = [9, 10, 13, 0, 0x1F, 0x7F, 0x26, 0x2B, 0x2D, 0x41, 0xE9, 0x20AC, 0xFFFF, 0x10000, 0x10FFFF]
    for a in reps:
        yield {"op": "u7rt", "cps": [a]}
        for b in reps:
            yield {"op": "u7rt", "cps": [a, b]}
            for d in reps:
                yield {"op": "u7rt", "cps": [a, b, d]}
    for k in range(13, 140):
        yield {"op": "u7rt", "cps": [0xE9] * k}
        yield {"op": "u7rt", "cps": [0x41] + [0x1F600] * k + [0x2D]}
        yield {"op": "xrt", "hex": (b"a+\n=" * k)[:k].hex()}
    for a in U7_LOOK:
        for b in U7_LOOK:
            yield {"op": "u7rt", "cps": cps_of(a + b)}
    for a in X_LOOK:
        for b in X_LOOK:
            yield {"op": "xrt", "hex": (a + b).hex()}
    for c in UNI_CP:
        yield {"op": "u7rt", "cps": [0x65, c, 0x41]}
    for t in UNI_SEQ:
        yield {"op": "u7rt", "cps": list(t)}
    for c in disagreeing:
        if "cps" in c:
            yield {"op": "u7rt", "cps": [x for x in c["cps"] if not 0xD800 <= x <= 0xDFFF]}
        elif c["op"] == "u7seq":
            for t in c["seq"]:
                yield {"op": "u7rt", "cps": [x for x in t if not 0xD800 <= x <= 0xDFFF]}
        elif c["op"] == "xseq":
            for h in c["seq"]:
                yield {"op": "xrt", "hex": h}
    yield from generate(rng, "quick")
