"""C41 — mail text codecs: real imap4 "imap4-utf-7" codec and smtp xtext codec vs the Lean model, + oracle.

Cases are {"op": ..., "cps": [code points]} for text inputs and {"op": ..., "hex": "…"} for byte inputs.
"""
import base64
import binascii
import re

import twisted.mail.imap4 as imap4  # registers "imap4-utf-7"
from twisted.mail import smtp

HEADLINE = "TwistedProps.C41.utf7_decode_encode / xtext_decode_encode"
RULE = ("texts over all code points weighted to C0 controls (TAB/LF/CR separately), DEL, '&', '+', '-', ',', '=', "
        "Latin-1, BMP, surrogate-adjacent and astral code points, run lengths 0..9 so that every base64 phase "
        "(16n mod 6) and every boundary printable/&/non-printable occurs; byte strings over all 256 values weighted "
        "to '+', '=', hex digits, 32/33/126/127; decoders additionally on mutated encoder output and random bytes; "
        "CPython's own utf-7/utf-16-be/base64 against the model's transcription of them; "
        "distinct = (op, character classes present, outcome class)")
ASSUMES = [
    "a Python str is a sequence of code points < 0x110000; 'no lone surrogates' = no code point in D800..DFFF",
    "xtext: the argument of xtext_encode is a bytes object (the statement's domain); the decoded value is a str whose "
    "code points are compared with the byte values (xtext_decode returns str by design, see test_smtp.testXtextEncoding)",
]
TRUSTED = [
    "CPython's utf-7 decoder, utf-16-be encoder and binascii.b2a_base64 as transcribed in TwistedModel/Mail/Utf7.lean "
    "(pyDec, utf16be, b64nopad) — each is also run against the model on this run's cases (ops pydec/pyenc/u16/b64)",
    "Python int(bytes, 16) on slices of at most two bytes as transcribed in TwistedModel/Mail/Xtext.lean (pyIntHex; "
    "exhaustively compared in the thorough tier)",
    "harness/py2lean.py (translator: smtp.xtext_encode is regenerated into lean/Generated/Xtext.lean on every run — the for-loop "
    "over iterbytes(s) as List.foldl of the generated loop body, ord(ch) as the byte value (< 256), the +/=/<33/>126 test "
    "literally, networkString(f'+{o:02X}') as 43 :: two upper-case hex digits (pyFmt02X), b''.join(r) as flatten; "
    "translator-regenerated kernel proved equal to the model: TwistedProps.C41.gen_xtextEncode; round trip and RFC 3461 form "
    "restated over the regenerated encoder: gen_xtext_decode_encode, gen_xtext_output_rfc3461)",
]
MANIFEST = {
    "text": "Lean theorems (TwistedProps/C41.lean): for every str without surrogate code points the model of imap4.encoder "
            "produces printable ASCII that is a rendering of an RFC 3501 token list meaning exactly that str, and the model "
            "of imap4.decoder (incl. CPython's utf-7 decoder at bit level) maps it back; for every byte string the model of "
            "smtp.xtext_encode produces RFC 3461 xtext and xtext_decode maps it back; xtext_encode is regenerated from smtp.py by the "
            "translator on every run and proved equal to the model's (gen_xtextEncode). Models tied to imap4.py/smtp.py and "
            "to CPython's codecs by differential runs.",
    "note": "trusts Lean kernel, the hand-written models (differentially tied on every run), CPython codecs as transcribed",
    "technique": "Lean 4 proof (bit-stream base64/UTF-16 inversion, induction over the encoder loop) + differential tie + "
                 "translator-regenerated kernel (xtext_encode) proved equal to the model",
    "design_ref": "DESIGN.md §7 C41",
}

# ---------------------------------------------------------------------------------------
# wire helpers

def enc_text(cps):
    return ",".join(str(c) for c in cps) if cps else "-"


def enc_bytes(b):
    return b.hex() if b else "-"


def to_str(cps):
    return "".join(chr(c) for c in cps)


def cps_of(s):
    return [ord(c) for c in s]


def _exc(e):
    return "!raised " + type(e).__name__


# ---------------------------------------------------------------------------------------
# generators

CTRL = list(range(0, 32)) + [127]
WS = [9, 10, 13]
SPECIAL = [0x26, 0x2B, 0x2D, 0x2C, 0x2F, 0x3D, 0x7E, 0x5C, 0x20]
PRINT = [0x41, 0x61, 0x30, 0x7A, 0x21, 0x25, 0x27, 0x7D]
LATIN = [0x80, 0xA0, 0xE9, 0xFF]
BMP = [0x100, 0x3B1, 0x20AC, 0x65E5, 0xD7FF, 0xE000, 0xFFFD, 0xFFFF, 0xFEFF]
ASTRAL = [0x10000, 0x1F600, 0x10FFFF, 0x103FF, 0x10400, 0xFFFFF]
SURR = [0xD800, 0xDBFF, 0xDC00, 0xDFFF]


def _cp(rng, surrogates=False):
    r = rng.random()
    if r < 0.12:
        return rng.choice(WS)
    if r < 0.24:
        return rng.choice(CTRL)
    if r < 0.40:
        return rng.choice(SPECIAL)
    if r < 0.50:
        return rng.choice(PRINT)
    if r < 0.58:
        return rng.choice(LATIN)
    if r < 0.70:
        return rng.choice(BMP)
    if r < 0.82:
        return rng.choice(ASTRAL)
    if r < 0.86:
        return rng.randrange(0x20, 0x7F)
    if r < 0.90 and surrogates:
        return rng.choice(SURR)
    while True:
        c = rng.randrange(0x110000)
        if surrogates or not (0xD800 <= c <= 0xDFFF):
            return c


def _text(rng, surrogates=False):
    n = rng.choice([0, 1, 1, 2, 2, 3, 3, 4, 5, 6, 7, 9, 12])
    return [_cp(rng, surrogates) for _ in range(n)]


BVALS = [0x2B, 0x3D, 0x20, 0x21, 0x7E, 0x7F, 0x00, 0x0A, 0x30, 0x34, 0x31, 0x41, 0x46, 0x61, 0x66, 0x47, 0x80, 0xFF, 0x2D, 0x5F]


def _bytes(rng):
    n = rng.choice([0, 1, 1, 2, 3, 4, 5, 8, 12])
    return bytes(rng.choice(BVALS) if rng.random() < 0.7 else rng.randrange(256) for _ in range(n))


U7ALPHA = b"&-+,/AQgw09Zz=~ \t\n\x00\x7f\x80\xff"


def _mutate(rng, b, alpha):
    b = bytearray(b)
    for _ in range(rng.choice([1, 1, 2, 3])):
        r = rng.random()
        pos = rng.randrange(len(b) + 1)
        if r < 0.4 or not b:
            b.insert(pos, rng.choice(alpha))
        elif r < 0.7:
            del b[min(pos, len(b) - 1)]
        else:
            b[min(pos, len(b) - 1)] = rng.choice(alpha)
    return bytes(b)


def _u7_bytes(rng):
    r = rng.random()
    if r < 0.5:
        try:
            e = imap4.encoder(to_str(_text(rng, True)))[0]
        except Exception:
            e = b"&AOk-"
        return _mutate(rng, e, U7ALPHA)
    n = rng.choice([0, 1, 2, 3, 4, 5, 6, 8, 11])
    return bytes(rng.choice(U7ALPHA) if rng.random() < 0.8 else rng.randrange(256) for _ in range(n))


XALPHA = b"+=04AFafGg -_x\t\n\x00\x7f\x80\xff!~"


def _x_bytes(rng):
    r = rng.random()
    if r < 0.4:
        return _mutate(rng, smtp.xtext_encode(_bytes(rng))[0], XALPHA)
    n = rng.choice([0, 1, 2, 3, 4, 5, 7])
    return bytes(rng.choice(XALPHA) if rng.random() < 0.85 else rng.randrange(256) for _ in range(n))


def corpus():
    out = [
        # xtext witnesses
        {"op": "xrt", "hex": b"a+41".hex()},
        {"op": "xrt", "hex": b"+".hex()},
        {"op": "xrt", "hex": b"=".hex()},
        {"op": "xrt", "hex": b"Hello+world e=mc2 \x00\xff".hex()},
        {"op": "xdec", "hex": b"+".hex()},
        {"op": "xdec", "hex": b"+4".hex()},
        {"op": "xdec", "hex": b"+zz".hex()},
        {"op": "xdec", "hex": b"+-0+ 4+4 +-1".hex()},
        {"op": "xdec", "hex": b"a\x80".hex()},
        # utf-7 witnesses / boundaries
        {"op": "u7rt", "cps": [10]},
        {"op": "u7rt", "cps": [9]},
        {"op": "u7rt", "cps": [13]},
        {"op": "u7rt", "cps": [0xE9, 10]},
        {"op": "u7rt", "cps": [10, 0xE9]},
        {"op": "u7rt", "cps": [0xE9, 9, 0xE9]},
        {"op": "u7rt", "cps": cps_of("Hello & wörld~\\+-,/")},
        {"op": "u7rt", "cps": [0x1F600, 0x26, 0, 0x7F, 0x10FFFF, 0x2D]},
        {"op": "u7rt", "cps": [0xE9, 0x2D, 0xE9, 0x41, 0x26, 0x26]},
        {"op": "u7rt", "cps": []},
        {"op": "u7rt", "cps": [0xD800]},
        {"op": "u7rt", "cps": [0xD800, 0xDC00]},
        {"op": "u7dec", "hex": b"&".hex()},
        {"op": "u7dec", "hex": b"&AOk".hex()},
        {"op": "u7dec", "hex": b"&AOk-&-&AOl-".hex()},
        {"op": "u7dec", "hex": b"&A-".hex()},
        {"op": "u7dec", "hex": b"&2D3eAA-&2D0-&3gA-x".hex()},
        {"op": "u7dec", "hex": b"&+AOk-a\x80".hex()},
        {"op": "pydec", "hex": b"+AOk-+-+".hex()},
        {"op": "pydec", "hex": b"+2D0+3gA-".hex()},
        {"op": "pyenc", "cps": [0xE9, 0x41, 0xE9, 0x21, 0x2B, 9, 0]},
    ]
    return out


def generate(rng, tier):
    n = 2500 if tier == "quick" else 60000
    for _ in range(n):
        r = rng.random()
        if r < 0.30:
            yield {"op": "u7rt", "cps": _text(rng)}
        elif r < 0.36:
            yield {"op": "u7rt", "cps": _text(rng, True)}
        elif r < 0.50:
            yield {"op": "u7dec", "hex": _u7_bytes(rng).hex()}
        elif r < 0.56:
            yield {"op": "pydec", "hex": _u7_bytes(rng).replace(b"&", b"+").replace(b",", b"/").hex()}
        elif r < 0.60:
            yield {"op": "pyenc", "cps": _text(rng, True)}
        elif r < 0.63:
            yield {"op": "u16", "cps": _text(rng, True)}
        elif r < 0.66:
            yield {"op": "b64", "hex": _bytes(rng).hex()}
        elif r < 0.86:
            yield {"op": "xrt", "hex": _bytes(rng).hex()}
        else:
            yield {"op": "xdec", "hex": _x_bytes(rng).hex()}
    if tier == "thorough":
        # every single byte through xtext; every `+ab`; every single code point class boundary
        for b in range(256):
            yield {"op": "xrt", "hex": bytes([b]).hex()}
            yield {"op": "xdec", "hex": bytes([0x2B, b]).hex()}
        for a in range(256):
            for b in range(256):
                yield {"op": "xdec", "hex": bytes([0x2B, a, b]).hex()}
        for c in list(range(0, 0x180)) + list(range(0xD7F0, 0xE010)) + list(range(0xFFF0, 0x10010)) + [0x10FFFE, 0x10FFFF]:
            yield {"op": "u7rt", "cps": [c]}
            yield {"op": "u7rt", "cps": [0x41, c, c, 0x26]}


def model_line(c):
    if "cps" in c:
        return f"{c['op']} {enc_text(c['cps'])}"
    return f"{c['op']} {c['hex'] or '-'}"


# ---------------------------------------------------------------------------------------
# the real code

def _u7dec(b):
    try:
        t = b.decode("imap4-utf-7")
    except UnicodeDecodeError as e:
        return _exc(e)
    return enc_text(cps_of(t))


def _xdec(b):
    try:
        t = smtp.xtext_decode(b)[0]
    except (TypeError, UnicodeDecodeError) as e:
        return _exc(e)
    return enc_text(cps_of(t))


def run_impl(c):
    op = c["op"]
    if op == "u7enc":
        return enc_bytes(to_str(c["cps"]).encode("imap4-utf-7"))
    if op == "u7rt":
        e = to_str(c["cps"]).encode("imap4-utf-7")
        return f"enc={enc_bytes(e)} dec={_u7dec(e)}"
    if op == "u7dec":
        return _u7dec(bytes.fromhex(c["hex"]))
    if op == "pyenc":
        return enc_bytes(to_str(c["cps"]).encode("utf-7"))
    if op == "pydec":
        try:
            return enc_text(cps_of(bytes.fromhex(c["hex"]).decode("utf-7")))
        except UnicodeDecodeError as e:
            return _exc(e)
    if op == "u16":
        return enc_bytes(to_str(c["cps"]).encode("utf-16-be", "surrogatepass"))
    if op == "b64":
        return enc_bytes(binascii.b2a_base64(bytes.fromhex(c["hex"])).rstrip(b"\n="))
    if op == "xenc":
        return enc_bytes(smtp.xtext_encode(bytes.fromhex(c["hex"]))[0])
    if op == "xrt":
        e = smtp.xtext_encode(bytes.fromhex(c["hex"]))[0]
        return f"enc={enc_bytes(e)} dec={_xdec(e)}"
    if op == "xdec":
        return _xdec(bytes.fromhex(c["hex"]))
    raise ValueError(op)


# ---------------------------------------------------------------------------------------
# the property, evaluated on the implementation's output, independently of the model

_U7_TOKEN = re.compile(rb"[\x20-\x25\x27-\x7e]|&-|&([A-Za-z0-9+,]+)-")
_XTEXT = re.compile(rb"(?:[!-*,-<>-~]|\+[0-9A-F]{2})*\Z")


def rfc3501_meaning(e):
    """Independent RFC 3501 §5.1.3 reader (stdlib base64 + utf-16-be): → (text, None) or (None, why)."""
    pos, out, prev_b64 = 0, [], False
    while pos < len(e):
        m = _U7_TOKEN.match(e, pos)
        if not m:
            return None, f"byte {e[pos]:#04x} at {pos} is not printable ASCII / not a well-formed '&' shift"
        sec = m.group(1)
        if sec is None:
            out.append("&" if m.group(0) == b"&-" else chr(m.group(0)[0]))
            prev_b64 = False
        else:
            if prev_b64:
                return None, f"superfluous shift: two adjacent base64 sections at {pos}"
            if len(sec) % 4 == 1:
                return None, f"base64 section {sec!r} has an impossible length"
            raw = base64.b64decode(sec.replace(b",", b"/") + b"=" * (-len(sec) % 4))
            if len(raw) % 2:
                return None, f"base64 section {sec!r} is not a whole number of UTF-16 units"
            if binascii.b2a_base64(raw).rstrip(b"\n=").replace(b"/", b",") != sec:
                return None, f"base64 section {sec!r} has non-zero padding bits or is over-long"
            try:
                t = raw.decode("utf-16-be")
            except UnicodeDecodeError:
                return None, f"base64 section {sec!r} is not valid UTF-16"
            if any(0x20 <= ord(ch) <= 0x7E for ch in t):
                return None, f"base64 section {sec!r} encodes printable ASCII"
            out.append(t)
            prev_b64 = True
        pos = m.end()
    return "".join(out), None


def _split_rt(out):
    m = re.fullmatch(r"enc=(\S+) dec=(.*)", out)
    if not m:
        return None, None
    e = b"" if m.group(1) == "-" else bytes.fromhex(m.group(1))
    return e, m.group(2)


def _classes(cps):
    s = set()
    for c in cps:
        if c in (9, 10, 13):
            s.add("ws")
        elif c < 32 or c == 127:
            s.add("ctl")
        elif c == 0x26:
            s.add("amp")
        elif c < 127:
            s.add("asc")
        elif 0xD800 <= c <= 0xDFFF:
            s.add("sur")
        elif c < 0x10000:
            s.add("bmp")
        else:
            s.add("ast")
    return s


def oracle(c, out):
    op = c["op"]
    if op == "u7rt":
        cps = c["cps"]
        if any(0xD800 <= x <= 0xDFFF for x in cps):
            return None     # outside the statement
        s = to_str(cps)
        e, dec = _split_rt(out)
        if e is None:
            return {"key": "utf7-encode-raises", "detail": f"{s!r}: {out}"}
        ws = "-ws" if _classes(cps) & {"ws"} else ""
        meaning, why = rfc3501_meaning(e)
        if meaning is None:
            return {"key": "utf7-form" + ws, "detail": f"{s!r} encodes to {e!r}: {why}"}
        if meaning != s:
            return {"key": "utf7-meaning" + ws, "detail": f"{s!r} encodes to {e!r} which RFC 3501 reads as {meaning!r}"}
        if dec != enc_text(cps):
            return {"key": "utf7-roundtrip" + ws, "detail": f"{s!r} encodes to {e!r} which decodes to {dec}"}
        return None
    if op == "xrt":
        b = bytes.fromhex(c["hex"])
        e, dec = _split_rt(out)
        if e is None:
            return {"key": "xtext-encode-raises", "detail": f"{b!r}: {out}"}
        pe = "-plus-equals" if (b"+" in b or b"=" in b) else ""
        if not _XTEXT.match(e):
            return {"key": "xtext-form" + pe, "detail": f"{b!r} encodes to {e!r}: not *(xchar / hexchar) of RFC 3461"}
        if dec != enc_text(list(b)):
            return {"key": "xtext-roundtrip" + pe, "detail": f"{b!r} encodes to {e!r} which decodes to {dec}"}
        return None
    return None


def shrink(c):
    if "cps" in c:
        x = c["cps"]
        for i in range(len(x)):
            yield {"op": c["op"], "cps": x[:i] + x[i + 1:]}
        for i, v in enumerate(x):
            for w in (0x41, 10, 0xE9):
                if v != w and v > w:
                    yield {"op": c["op"], "cps": x[:i] + [w] + x[i + 1:]}
    else:
        b = bytes.fromhex(c["hex"])
        for i in range(len(b)):
            yield {"op": c["op"], "hex": (b[:i] + b[i + 1:]).hex()}


def tag(c, out):
    if "cps" in c:
        cl = "".join(sorted(_classes(c["cps"])))
    else:
        b = bytes.fromhex(c["hex"])
        cl = "".join(sorted({"p" if x in (0x2B, 0x3D) else "a" if 33 <= x <= 126 else "h" if x >= 128 else "c" for x in b}))
    if "!raised" in out:
        oc = out[out.index("!raised"):]
    else:
        oc = "ok"
    return f"{c['op']}:{cl}:{oc}"


def search(rng, tier, disagreeing):
    """Property-directed: every single code point / byte, and every pair of classes, through the round trip."""
    for b in range(256):
        yield {"op": "xrt", "hex": bytes([b]).hex()}
        yield {"op": "xrt", "hex": bytes([0x61, b, 0x34, 0x31]).hex()}
    reps = [9, 10, 13, 0, 0x1F, 0x7F, 0x26, 0x2B, 0x2D, 0x41, 0xE9, 0x20AC, 0xFFFF, 0x10000, 0x10FFFF]
    for a in reps:
        yield {"op": "u7rt", "cps": [a]}
        for b in reps:
            yield {"op": "u7rt", "cps": [a, b]}
            for d in reps:
                yield {"op": "u7rt", "cps": [a, b, d]}
    for c in disagreeing:
        if "cps" in c:
            yield {"op": "u7rt", "cps": [x for x in c["cps"] if not 0xD800 <= x <= 0xDFFF]}
    yield from generate(rng, "quick")
