"""C55 — log formatting never raises: real twisted.logger._format on hostile events vs Lean model + oracle.

Scripted cases: an event *shape* (format-string AST, which standard keys are present and whether their
values are None / genuine text / hostile) plus a *tape* of outcomes.  Every special method of every hostile
object (`__repr__`, `__str__`, `__format__`, `__getattr__`, `__getitem__`, `__call__`, `getTraceback`, the
`formatTime` callable) pops the next outcome from the shared tape: return a text, return None, return
another hostile object, raise an exception (Exception or BaseException-only classes; the exception's own
`str()` may itself raise or return a non-str).  The Lean model consumes the same tape; the tie compares
result kind, the exact text (generic fallback texts and timestamps canonicalised to markers) and the order
of oracle calls.  Wild cases (oracle only): realistic objects (real Failure, LogLevel, floats, containers,
raw garbage format strings) — only "returns text, never raises" is checked.

Legacy scripted cases (entry "leg"): twisted.python.log.textFromEventDict on a legacy event dict — message tuple,
isError, failure, why, a %-format AST (literals with %%, %(key)<width>{s,r,a,d,unsupported}, key-less items that
receive the whole dict, a trailing lone %), str / bytes / None / hostile `format` — with the same tape of outcomes;
tied to Twisted.Log.Format.Legacy (result kind, exact text with the fallback families and repr(eventDict)
canonicalised to markers, order of hostile calls).

Variants of every scripted case (mutation audit M55):
  "hk"  — typed hostile values: the hostile event values are instances of subclasses of str / bytes / Failure / Exception
          (classes HS, HB, HF, HE; a kind string is cycled over the values in creation order) with the same tape-driven
          special methods.  Model-compared: the model has one hostile value, so the tie checks that no code path keys on
          the nominal type of a value (`isinstance(f, Failure)` fast paths, "repr of a str cannot fail", …).
  "y" / "B" — the bytes object b"\\xff" as an event value (log_system, log_level, log_namespace, log_failure, log_time, extras,
          flattened values, legacy message / failure / why / extras) and as what a hostile method returns.  Model-compared
          (`Val.bytes`, `Outcome.bytes`): str() = repr() = "b'\\xff'", format with a non-empty spec / attribute / index / call fail.
  "res" — result variants, oracle only: "sub" = every text (text values, and texts returned by str / repr / format /
          getattr / getTraceback / formatTime) is an instance of a str subclass whose own format / str / repr raise;
          "bytes" = undecodable bytes stand where a text or None was expected (getTraceback / str results, `why`, …).
Wild values also include genuine Failures that cannot render themselves (a Failure subclass, `Failure.__new__`, Failures
rebuilt by twisted.logger._json.failureFromJSON from a damaged record) and objects whose getTraceback returns bytes.
"""
import json
import linecache
import re
import traceback as _tbmod

from twisted.logger import _format as F
from twisted.logger import LogLevel
from twisted.python import log as legacylog
from twisted.python.failure import Failure

HEADLINE = "TwistedProps.C55.eventAsText_total"
RULE = ("scripted events: format-string ASTs (literals, fields with .attr/.attr()/[idx] chains, key() calls, "
        "!r/!s/!a/bad conversions, plain/nested/too-deep specs, lone '}', positional fields), str/bytes/undecodable/"
        "hostile/None/absent log_format, flattened events, log_time/log_system/log_level/log_namespace/log_failure "
        "each absent/None/text/bytes b'\\xff'/hostile, custom formatTime callables, and a tape of hostile outcomes (text/None/object/"
        "returns the bytes b'\\xff'/raise of 9 classes incl. KeyboardInterrupt, SystemExit, GeneratorExit, BaseException subclass; exceptions "
        "whose str() raises); wild events with real Failure/LogLevel/float/garbage formats; scripted legacy event dicts for "
        "twisted.python.log.textFromEventDict (message tuple, isError/failure/why, %-format ASTs with keyed/key-less items, "
        "widths, s/r/a/number/unsupported conversions, lone '%', str/bytes/None/hostile format; same tapes) tied to the model, "
        "plus wild legacy dicts with realistic objects (oracle only); "
        "30 % of the scripted cases with typed hostile values (instances of str / bytes / Failure / Exception subclasses, "
        "12 kind strings cycled over the values; still model-compared), 12 % with result variants (oracle only): texts as "
        "str-subclass instances whose format/str/repr raise, or undecodable bytes where a text / None was expected; wild "
        "values incl. Failure subclasses / attribute-less Failures / Failures rebuilt from damaged JSON whose getTraceback "
        "raises and getTraceback returning bytes; "
        "distinct = (entry point, result kind, fallback family, sites touched, branch/conversions, raised classes on the tape)")
ASSUMES = [
    "the event is a real dict with str keys (LogEvent); hostile behaviour lives in the values and in what their methods return "
    "(a method that mutates the event being formatted, e.g. a __repr__ adding a key while formatUnformattableEvent iterates "
    "event.items(), is outside the statement's 'raise or return non-text')",
    "typed hostile values (hk) keep a plain H at log_format, log_time and the legacy format, where the code legitimately "
    "branches on str / bytes / float; objects returned by hostile methods ('O' outcomes) are plain H; the str / bytes content "
    "of HS / HB is non-empty (truthy like a plain object) and HB's bytes are undecodable (reflect.safe_str falls through to str())",
    "result variants (res) are judged by the oracle only (returns text / never raises): the model has no str-subclass text, "
    "and its one bytes value is b'\\xff' (value code 'y', outcome 'B': model-compared in the ordinary cases; undecodable, so "
    "reflect.safe_str falls through to str(); Python runs without -b, so str(bytes) is its repr)",
    "texts on the tape / in values come from an alphabet without quote characters, digits and format-spec characters, so "
    "repr(str) and str.__format__ are as transcribed (strRepr, strFormat); checked by the tie on every run",
    "twisted.python.reflect.safe_repr/safe_str, Failure() and str(Failure) do not raise (they catch BaseException); "
    "exercised on every unformattable case by the oracle",
    "dict order of the event is log_format, log_time, log_system, log_level, log_namespace, log_failure, extras, log_flattened",
    "MemoryError/RecursionError raised by the interpreter inside an except-handler are out of scope",
    "legacy events (twisted.python.log.textFromEventDict) have a 'message' tuple and an int 'isError' key (documented as "
    "required); truthiness of message/isError/why is that of genuine values — a `why` whose __bool__ raises escapes `if why:`, "
    "which is outside the str/repr/format behaviours the statement lists; format keys name failure/why/further keys or a "
    "missing key (not message/isError/format); %-items are %(k)<width>c, key-less %<width>c, %% and a trailing lone % "
    "(precision/flags/'*' only in the oracle-only wild cases); a format object defines no __mod__",
    "_safeFormat's deliberate re-raise of KeyboardInterrupt is a recorded finding: it is the explicit exception in "
    "textFromEventDict_total (hypothesis: the first `fmtString % fmtDict` does not end in KeyboardInterrupt), "
    "textFromEventDict_raises_iff shows nothing else escapes, textFromEventDict_counterexample is the witness",
]
TRUSTED = ["CPython string.Formatter.parse as the reader of the rendered format-string AST (self-checked per case)"]
MANIFEST = {
    "text": "Lean theorems (TwistedProps/C55.lean): for every event shape, every flag/formatTime choice and EVERY tape of hostile "
            "outcomes (any stateful behaviour of str/repr/format/getattr/getitem/call/getTraceback/formatTime, raising any "
            "exception class incl. BaseException-only ones), formatEvent, eventAsText, formatEventAsClassicLogText and "
            "formatUnformattableEvent return a text (classic: text or None) and never raise; the classic line is None or exactly "
            "timeStamp + ' [' + system + '] ' + text, newlines indented, final newline, with timeStamp '-' or the formatted time "
            "under the default formatTime and system str(log_system) / namespace#level / UNFORMATTABLE "
            "(formatEventAsClassicLogText_structure, formatSystem_cases); the legacy "
            "twisted.python.log.textFromEventDict/_safeFormat (message join, isError/failure/why branch, %-formatting with its "
            "three nested fallbacks) returns a text or None and never raises EXCEPT the recorded finding: it raises iff the "
            "event reaches _safeFormat and the first `fmtString % fmtDict` raises KeyboardInterrupt, which `except "
            "KeyboardInterrupt: raise` lets through (textFromEventDict_raises_iff, _total, _total_of_noKI_tape, "
            "_counterexample); exception-flow model tied to _format.py and python/log.py by differential runs comparing "
            "result, text and the order of hostile calls — also when the hostile values are instances of str / bytes / Failure / "
            "Exception subclasses (the model's single hostile value stands for every nominal type).  Oracle-only on the real code: "
            "texts that are str-subclass instances with raising format/str/repr, undecodable bytes where text or None is expected, "
            "genuine Failures whose getTraceback raises.",
    "note": "trusts Lean kernel, the hand-written exception-flow model (differentially tied incl. call order), CPython str.format "
            "internals as transcribed from string.Formatter, reflect.safe_repr/safe_str and Failure.__str__ being total",
    "technique": "Lean 4 proof (exception-monad model, every oracle call universally quantified via a tape) + differential tie",
    "design_ref": "DESIGN.md §7.8 C55",
}

UNABLE, LOST, TIME, SAFESTR = "\ue000", "\ue001", "\ue002", "\ue003"
ALPHA = ["a", "b", "é", "€", "\U0001F600", "\n", " ", ":", "{", "}", "#"]


class HostileError(Exception):
    pass


class HostileBase(BaseException):
    pass


CLASSES = [TypeError, ValueError, KeyError, AttributeError, IndexError, UnicodeDecodeError, OverflowError, OSError,
           HostileError, KeyboardInterrupt, SystemExit, GeneratorExit, HostileBase]
RAISABLE = [0, 1, 2, 3, 8, 9, 10, 11, 12]     # classes hostile objects raise (not UnicodeDecodeError/OSError: constructor shapes)
_SUB = {}


def make_exc(ci, strspec):
    """an instance of (a same-named subclass of) CLASSES[ci] whose str()/repr() behave as strspec says"""
    base = CLASSES[ci]
    key = ci
    if key not in _SUB:
        def __str__(self):
            sp = self._spec
            if sp[0] == "g":
                return sp[1]
            if sp[0] == "b":
                raise make_exc(sp[1], ["g", "str failed"])
            return 5  # non-str
        _SUB[key] = type(base.__name__, (base,), {"__str__": __str__, "__repr__": __str__, "__init__": lambda self: None})
    e = _SUB[key]()
    e._spec = strspec
    return e


class SubText(str):
    """a genuine text, but an instance of a str subclass whose own format / str / repr raise (result variant "sub")"""

    def __format__(self, spec):
        raise ValueError("SubText.__format__")

    def __str__(self):
        raise KeyError("SubText.__str__")

    def __repr__(self):
        raise HostileBase()


BYTES = b"\xff"      # the modelled bytes value (`Val.bytes` / `Outcome.bytes`): undecodable, str() == repr() == "b'\\xff'"


def as_bytes(t):
    """result variant "bytes": undecodable bytes where a text was expected"""
    return t.encode("utf-8") + b"\xff"


class Tape:
    def __init__(self, outcomes, kinds="o", res=None):
        self.o, self.i, self.trace = list(outcomes), 0, []
        self.kinds, self.made, self.res = kinds or "o", 0, res

    def ans(self, letter):
        self.trace.append(letter)
        if self.i < len(self.o):
            o = self.o[self.i]
            self.i += 1
        else:
            o = ["T", ""]
        if o[0] == "T":
            return self.text(o[1])
        if o[0] == "N":
            return b"\xfe" if self.res == "bytes" else None
        if o[0] == "O":
            return H(self)
        if o[0] == "B":
            return BYTES
        raise make_exc(o[1], o[2])

    def text(self, t):
        """a text value / a text returned by a hostile method, as the result variant of the case realises it"""
        return SubText(t) if self.res == "sub" else as_bytes(t) if self.res == "bytes" else t

    def hostile(self):
        """the next hostile event value: an instance of the class the case's kind string names (cycled)"""
        k = self.kinds[self.made % len(self.kinds)]
        self.made += 1
        return KINDS[k](self)


class H:
    """every special method consults the tape"""

    def __init__(self, tape):
        self._t = tape

    def __repr__(self):
        return self._t.ans("r")

    def __str__(self):
        return self._t.ans("s")

    def __format__(self, spec):
        return self._t.ans("f")

    def __getattr__(self, name):
        if name.startswith("_"):
            raise AttributeError(name)
        return self._t.ans("g")

    def __getitem__(self, k):
        return self._t.ans("i")

    def __call__(self):
        return self._t.ans("c")

    def getTraceback(self, *a, **kw):
        return self._t.ans("b")


# Typed hostile values: the same tape-driven special methods on an instance of a subclass of a type the
# formatting code (or a helper) might test for — str, bytes, Failure, Exception.  Every special method the
# code may use is H's (first in the MRO), the content of the str / bytes part is never looked at by correct
# code (non-empty, so truthiness is that of a plain object; the bytes are undecodable, so reflect.safe_str
# falls through to str()).  The Lean model has ONE hostile value (`Val.hostile`): the tie checks that the
# nominal type makes no difference.

class HS(H, str):
    def __new__(cls, tape):
        return str.__new__(cls, "hs")


class HB(H, bytes):
    def __new__(cls, tape):
        return bytes.__new__(cls, b"\xff")


class HF(H, Failure):
    pass


class HE(H, Exception):
    def __new__(cls, tape):
        return Exception.__new__(cls)


KINDS = {"o": H, "s": HS, "b": HB, "f": HF, "e": HE}


# ---------------------------------------------------------------------------------------- rendering

def enc(t):
    return ".".join(str(ord(c)) for c in t)


def esc_lit(t):
    return t.replace("{", "{{").replace("}", "}}")


def r_key(k):
    return "" if k[0] == "p" else k[1] + ("()" if k[0] == "c" else "")


def r_name(key, steps):
    s = r_key(key)
    for ch in steps:
        s += {"a": ".zq", "A": ".zq()", "i": "[k]"}[ch]
    return s


def r_conv(c):
    return "" if c == "-" else "!" + ("q" if c == "x" else c)


def r_sf(sf):
    key, steps, conv, spec = sf
    return "{" + r_name(key, steps) + r_conv(conv) + (":" + spec if spec else "") + "}"


def r_spec(sp):
    if sp[0] == "P":
        return sp[1]
    if sp[0] == "N":
        return sp[1] + r_sf(sp[2]) + sp[3]
    f, g = sp[1], sp[2]
    return "{" + r_name(f[0], f[1]) + r_conv(f[2]) + ":" + r_sf(g) + "}"


def render(segs):
    out = []
    for s in segs:
        if s[0] == "l":
            out.append(esc_lit(s[1]))
        elif s[0] == "!":
            out.append("}")
        else:
            _, key, steps, conv, spec = s
            sp = r_spec(spec)
            out.append("{" + r_name(key, steps) + r_conv(conv) + (":" + sp if sp else "") + "}")
    return "".join(out)


def field_triples(segs):
    """(fieldName, conversion, rawSpec) of every top-level field, in order — for the flattened keys"""
    res = []
    for s in segs:
        if s[0] == "f":
            _, key, steps, conv, spec = s
            res.append((r_name(key, steps), None if conv == "-" else ("q" if conv == "x" else conv), r_spec(spec)))
    return res


def m_val(v):
    return v if isinstance(v, str) else "t" + enc(v[1])


def m_exc(ci, sp):
    return f"{ci}/" + ("g" + enc(sp[1]) if sp[0] == "g" else "b" + str(sp[1]) if sp[0] == "b" else "x")


def m_outcome(o):
    return "T" + enc(o[1]) if o[0] == "T" else o[0] if o[0] in "NOB" else "R" + m_exc(o[1], o[2])


def m_key(k):
    return "p" if k[0] == "p" else k[0] + k[1]


def m_sf(sf):
    return "+".join([m_key(sf[0]), sf[1], sf[2], enc(sf[3])])


def m_spec(sp):
    if sp[0] == "P":
        return "P" + enc(sp[1])
    if sp[0] == "N":
        return "N" + enc(sp[1]) + "^" + m_sf(sp[2]) + "^" + enc(sp[3])
    return "D" + m_sf(sp[1]) + "^" + m_sf(sp[2])


def m_segs(segs):
    out = []
    for s in segs:
        if s[0] == "l":
            out.append("l" + enc(s[1]))
        elif s[0] == "!":
            out.append("!")
        else:
            out.append("f" + "~".join([m_key(s[1]), s[2], s[3], m_spec(s[4])]))
    return "|".join(out)


def norm(c):
    """the case with its format AST in canonical form (see canon_segs) — applied on both sides of the tie"""
    if not c.get("wild") and c["format"][0] in "sb":
        return {**c, "format": [c["format"][0], canon_segs(c["format"][1])]}
    return c


def model_line(c):
    if c.get("wild") or c.get("res"):
        return None         # result variants (str-subclass / bytes results and values): oracle only
    if c["entry"] == "leg":
        return leg_model_line(c)
    c = norm(c)
    f = c["format"]
    fs = f[0] + (m_segs(f[1]) if f[0] in "sb" else m_val(f[1]) if f[0] == "o" else "")
    t = c["time"]
    ts = t if isinstance(t, str) else "o" + m_val(t[1])
    d = c["flat"]
    ds = "_" if d == "_" else ("d" + ";".join(m_val(v) for v in d[1]) if d[0] == "d" else "o" + m_val(d[1]))
    parts = [c["entry"], c["flags"], c["fn"], "F=" + fs, "T=" + ts, "S=" + m_val(c["system"]), "L=" + m_val(c["level"]),
             "N=" + m_val(c["ns"]), "X=" + m_val(c["failure"]),
             "E=" + (";".join(k + "=" + m_val(v) for k, v in c["extras"]) or "-"),
             "D=" + ds, "P=" + (";".join(m_outcome(o) for o in c["tape"]) or "-")]
    if c["entry"] == "unf":
        parts.append("Q=" + m_exc(*c["exc"]))
    return " ".join(parts)


# ---------------------------------------------------------------------------------------- running the real code

def py_val(v, tape, typed=True):
    """typed=False: positions where the code legitimately branches on the type (log_format, log_time, legacy format)"""
    if v == "n":
        return None
    if v == "h":
        return tape.hostile() if typed else H(tape)
    if v == "y":
        return BYTES
    return tape.text(v[1])


def flat_keys(segs):
    seen, keys = {}, []
    for name, conv, spec in field_triples(segs):
        k = f"{name}!{conv or 's'}:{spec}"
        seen[k] = seen.get(k, 0) + 1
        if seen[k] != 1:
            k += "/" + str(seen[k])
        keys.append(k)
    return keys


def build_event(c, tape):
    ev = {}
    f = c["format"]
    if f[0] == "n":
        ev["log_format"] = None
    elif f[0] == "s":
        ev["log_format"] = render(f[1])
    elif f[0] == "b":
        ev["log_format"] = render(f[1]).encode("utf-8")
    elif f[0] == "B":
        ev["log_format"] = b"\xff{k0}"
    elif f[0] == "o":
        ev["log_format"] = py_val(f[1], tape, typed=False)
    t = c["time"]
    if t != "_":
        ev["log_time"] = {"n": None, "good": 1.5e9, "nan": float("nan"), "huge": 1e300, "big": 1e18}[t] \
            if isinstance(t, str) else py_val(t[1], tape, typed=False)
    for key, name in (("system", "log_system"), ("level", "log_level"), ("ns", "log_namespace"), ("failure", "log_failure")):
        if c[key] != "_":
            ev[name] = py_val(c[key], tape)
    for k, v in c["extras"]:
        ev[k] = py_val(v, tape)
    d = c["flat"]
    if d != "_":
        if d[0] == "o":
            ev["log_flattened"] = py_val(d[1], tape)
        else:
            segs = f[1] if f[0] in "sb" else []
            keys = flat_keys(segs)
            fd = {}
            for i, v in enumerate(d[1]):
                if v != "_":
                    fd[keys[i] if i < len(keys) else f"zz{i}"] = py_val(v, tape)
            ev["log_flattened"] = fd
    return ev


_SITES = ("eventAsText", "_formatSystem", "_formatTraceback", "_formatEvent", "formatUnformattableEvent",
          "formatEventAsClassicLogText", "formatEvent", "flatFormat", "textFromEventDict", "_safeFormat")


def site_of(exc):
    """which statement of the formatting code let the exception escape (innermost frame in the logger code)"""
    best = None
    for fr, lineno in _tbmod.walk_tb(exc.__traceback__):
        fn = fr.f_code.co_filename
        if (fn.endswith("logger/_format.py") or fn.endswith("logger/_flatten.py") or fn.endswith("python/log.py")) \
                and fr.f_code.co_name in _SITES:
            best = (fr.f_code.co_name, (linecache.getline(fn, lineno) or "").strip())
    if not best:
        return "outside"
    func, line = best
    if func == "eventAsText":
        what = "formatTime" if "formatTime" in line else "join-traceback" if ".join((eventText" in line else "other"
    elif func == "_formatSystem":
        what = "level.name" if "level.name" in line else "str(system)" if "str(system)" in line else "namespace-level-format"
    elif func == "_formatTraceback":
        what = "str(e)" if "str(e)" in line else "other"
    elif func == "_safeFormat":
        what = "reraise-KeyboardInterrupt" if isinstance(exc, KeyboardInterrupt) else "other"
    elif func == "textFromEventDict":
        what = "getTraceback" if "getTraceback" in line else "str(e)" if "str(e)" in line else "other"
    else:
        what = "other"
    return f"{func}/{what}"


_LAST = {}


def call_entry(c, ev, tape):
    kw = {}
    if c["fn"] == "c":
        kw["formatTime"] = lambda when: tape.ans("t")
    e = c["entry"]
    if e == "fe":
        return F.formatEvent(ev)
    if e == "eat":
        fl = c["flags"]
        return F.eventAsText(ev, includeTraceback=fl[0] == "1", includeTimestamp=fl[1] == "1", includeSystem=fl[2] == "1", **kw)
    if e == "cl":
        return F.formatEventAsClassicLogText(ev, **kw)
    if e == "unf":
        return F.formatUnformattableEvent(ev, make_exc(*c["exc"]))
    raise ValueError("entry")


def observe(c, patched):
    """→ (kind, value, trace, site)"""
    tape = Tape(c["tape"], c.get("hk"), c.get("res"))
    ev = build_event(c, tape)
    real = F.formatUnformattableEvent
    if patched:
        def wrapper(event, error):
            r = real(event, error)
            if isinstance(r, str) and r.startswith("Unable to format event "):
                return UNABLE
            if isinstance(r, str) and r.startswith("MESSAGE LOST: unformattable object logged: "):
                return LOST
            return r
        F.formatUnformattableEvent = wrapper
    try:
        try:
            r = call_entry(c, ev, tape)
        finally:
            F.formatUnformattableEvent = real
    except BaseException as e:  # noqa: the property is about exactly this
        if type(e).__name__ == "Timeout":
            raise
        return ("raised", type(e).__name__, "".join(tape.trace), site_of(e))
    if r is None:
        return ("none", None, "".join(tape.trace), None)
    if not isinstance(r, str):
        return ("nontext", type(r).__name__, "".join(tape.trace), None)
    return ("text", r, "".join(tape.trace), None)


_TS = re.compile(r"^\d{4}-\d\d-\d\dT\d\d:\d\d:\d\d[+-]\d{4} ")
# reflect.safe_str's description of an exception whose own str() failed; the traceback is the last part of the text
_SAFESTR = re.compile(r"(\(UNABLE TO OBTAIN TRACEBACK FROM EVENT\):)<\w+ instance at 0x[0-9a-f]+ with str error:.*>", re.S)


def run_scripted(c, key):
    raw = observe(c, patched=False)
    can = observe(c, patched=True) if c["entry"] != "unf" else raw
    if (raw[0], raw[2]) != (can[0], can[2]) or (raw[0] == "raised" and raw[1] != can[1]):
        return f"!inconsistent raw={raw[:3]!r} canonical={can[:3]!r}"
    kind, val, trace, site = can
    _LAST[key] = (raw, site)
    if kind == "raised":
        return f"!raised {val} @{trace}"
    if kind == "none":
        return f"none @{trace}"
    if kind == "nontext":
        return f"!nontext {val} @{trace}"
    if c["entry"] == "unf":
        val = UNABLE if val.startswith("Unable to format event ") else LOST if val.startswith("MESSAGE LOST: unformattable") else val
    val = _SAFESTR.sub(lambda m: m.group(1) + SAFESTR, val)
    if c["time"] == "good" and c["fn"] == "d" and _TS.match(val):
        val = TIME + " " + _TS.sub("", val, count=1)
    return f"text:{enc(val)} @{trace}"


def run_impl(c):
    if c.get("wild"):
        return run_wild(c)
    key = json.dumps(c, sort_keys=True)
    if c["entry"] == "leg":
        return run_leg(c, key)
    c = norm(c)
    if c["format"][0] in "sb" and "!" not in [s[0] for s in c["format"][1]]:
        # self-check of the renderer: CPython's parser reads back the fields we meant
        got = [(n, cv, sp) for _, n, sp, cv in F.aFormatter.parse(render(c["format"][1])) if n is not None]
        if got != field_triples(c["format"][1]):
            return f"!render-mismatch {got!r}"
    return run_scripted(c, key)


# ---------------------------------------------------------------------------------------- legacy scripted cases
# twisted.python.log.textFromEventDict on scripted legacy event dicts, tied to Twisted.Log.Format.Legacy

DICT, INVALID, LOSTFMT = "\ue004", "\ue005", "\ue006"
_PCONV = {"s": "s", "r": "r", "a": "a", "d": "d", "x": "q"}     # "q": an unsupported format character
LEG_ALPHA = ["a", "b", "é", "€", "\U0001F600", "\n", " ", ":", "{", "}", "#", "%", "(", ")"]


def canon_psegs(segs):
    """a lone '%' is only a lone '%' at the very end of the format string"""
    out = []
    for sg in segs:
        out.append(list(sg))
        if sg[0] == "!":
            break
    return out


def render_pct(segs):
    out = []
    for sg in canon_psegs(segs):
        if sg[0] == "l":
            out.append(sg[1].replace("%", "%%"))
        elif sg[0] == "k":
            out.append("%(" + sg[1] + ")" + (str(sg[2]) if sg[2] else "") + _PCONV[sg[3]])
        elif sg[0] == "p":
            out.append("%" + (str(sg[1]) if sg[1] else "") + _PCONV[sg[2]])
        else:
            out.append("%")
    return "".join(out)


def m_psegs(segs):
    out = []
    for sg in canon_psegs(segs):
        if sg[0] == "l":
            out.append("l" + enc(sg[1]))
        elif sg[0] == "k":
            out.append(f"k{sg[1]}~{sg[2]}~{sg[3]}")
        elif sg[0] == "p":
            out.append(f"p{sg[1]}~{sg[2]}")
        else:
            out.append("!")
    return "|".join(out)


def leg_model_line(c):
    f = c["lformat"]
    fs = "_" if f[0] == "_" else f[0] + (m_psegs(f[1]) if f[0] in "sb" else f[1])
    return " ".join(["leg", "M=" + (";".join(m_val(v) for v in c["message"]) or "-"), "I=" + str(c["isError"]), "F=" + fs,
                     "X=" + m_val(c["failure"]), "W=" + m_val(c["why"]),
                     "E=" + (";".join(k + "=" + m_val(v) for k, v in c["extras"]) or "-"),
                     "P=" + (";".join(m_outcome(o) for o in c["tape"]) or "-")])


class MarkDict(dict):
    """the event dict with its own repr canonicalised: every value is still repr'd, in order, by dict.__repr__"""

    def __repr__(self):
        dict.__repr__(self)
        return DICT


def build_legacy(c, tape, cls):
    ev = cls()
    ev["message"] = tuple(py_val(v, tape) for v in c["message"])
    ev["isError"] = c["isError"]
    f = c["lformat"]
    if f[0] == "s":
        ev["format"] = render_pct(f[1])
    elif f[0] == "b":
        ev["format"] = render_pct(f[1]).encode("utf-8")
    elif f[0] == "o":
        ev["format"] = py_val(f[1], tape, typed=False)
    for key in ("failure", "why"):
        if c[key] != "_":
            ev[key] = py_val(c[key], tape)
    for k, v in c["extras"]:
        ev[k] = py_val(v, tape)
    return ev


def observe_leg(c, cls):
    tape = Tape(c["tape"], c.get("hk"), c.get("res"))
    ev = build_legacy(c, tape, cls)
    try:
        r = legacylog.textFromEventDict(ev)
    except BaseException as e:  # noqa: the property is about exactly this
        if type(e).__name__ == "Timeout":
            raise
        return ("raised", type(e).__name__, "".join(tape.trace), site_of(e))
    if r is None:
        return ("none", None, "".join(tape.trace), None)
    if not isinstance(r, str):
        return ("nontext", type(r).__name__, "".join(tape.trace), None)
    return ("text", r, "".join(tape.trace), None)


# reflect.safe_str's description of an object whose str() failed: ends with the printed traceback and "\n>"
_SAFESTR_ANY = re.compile(r"<\w+ instance at 0x[0-9a-f]+ with str error:\n.*?\n>", re.S)


def run_leg(c, key):
    raw = observe_leg(c, dict)
    can = observe_leg(c, MarkDict)
    if (raw[0], raw[2]) != (can[0], can[2]) or (raw[0] != "text" and raw[1] != can[1]):
        return f"!inconsistent raw={raw[:3]!r} canonical={can[:3]!r}"
    kind, val, trace, site = can
    _LAST[key] = (raw, site)
    if kind == "raised":
        return f"!raised {val} @{trace}"
    if kind == "none":
        return f"none @{trace}"
    if kind == "nontext":
        return f"!nontext {val} @{trace}"
    if val.startswith("Invalid format string or unformattable object in log message: "):
        val = INVALID
    elif val.startswith("UNFORMATTABLE OBJECT WRITTEN TO LOG with fmt ") and val.endswith(", MESSAGE LOST"):
        val = LOSTFMT
    else:
        val = _SAFESTR_ANY.sub(SAFESTR, val)
    return f"text:{enc(val)} @{trace}"


# ---------------------------------------------------------------------------------------- wild (oracle-only) cases

class _Raiser:
    def __init__(self, cls, how):
        self.cls, self.how = cls, how

    def _go(self):
        if self.how == "raise":
            raise self.cls("wild")
        return 7 if self.how == "int" else b"bytes"

    __str__ = __repr__ = lambda self: self._go()

    def __format__(self, spec):
        return self._go()

    def __getattr__(self, name):
        if name.startswith("_"):
            raise AttributeError(name)
        return self._go()

    def __getitem__(self, k):
        return self._go()

    def __call__(self):
        return self._go()


class _BadStrExc(Exception):
    def __str__(self):
        raise KeyboardInterrupt("str of exception")
    __repr__ = __str__


class _BadTb:
    def getTraceback(self, *a, **kw):
        raise _BadStrExc()


class _BytesTb:
    def getTraceback(self, *a, **kw):
        return b"Traceback \xff\xfe"


class _SubStrResult:
    """str() / repr() / format() legitimately return text — an instance of a str subclass with hostile methods"""

    def __str__(self):
        return SubText("sub")

    __repr__ = __str__

    def __format__(self, spec):
        return SubText("sub")

    def getTraceback(self, *a, **kw):
        return SubText("sub tb")


class _FailureSub(Failure):
    """a genuine Failure (subclass) whose getTraceback raises"""

    def getTraceback(self, *a, **kw):
        raise _BadStrExc()


def _json_failure(frames):
    """a genuine Failure as twisted.logger's JSON loader rebuilds it from a (damaged) log file"""
    from twisted.logger._json import failureFromJSON
    return failureFromJSON({"type": {"__module__": "builtins", "__name__": "ValueError"}, "value": "v",
                            "parents": [], "frames": frames})


def wild_val(code):
    kind = code.split(":")
    k = kind[0]
    if k == "none":
        return None
    if k == "int":
        return 42
    if k == "str":
        return "plain é\n"
    if k == "bytes":
        return b"\xff\xfe"
    if k == "float":
        return 1234567890.25
    if k == "nan":
        return float("nan")
    if k == "inf":
        return float("inf")
    if k == "huge":
        return 1e300
    if k == "neg":
        return -1e18
    if k == "list":
        return [1, "x", _Raiser(ValueError, "raise")]
    if k == "dict":
        return {"a": 1, "b": _Raiser(KeyboardInterrupt, "raise")}
    if k == "self":
        d = {}
        d["me"] = d
        return d
    if k == "level":
        return LogLevel.warn
    if k == "fn":
        return lambda: "called"
    if k == "badfn":
        return lambda: 1 / 0
    if k == "raise":
        return _Raiser({c.__name__: c for c in CLASSES + [ZeroDivisionError, RecursionError, MemoryError, StopIteration]}[kind[1]], "raise")
    if k == "nontext":
        return _Raiser(None, kind[1])
    if k == "failure":
        try:
            1 / 0
        except ZeroDivisionError:
            return Failure()
    if k == "failure-badexc":
        try:
            raise _BadStrExc()
        except _BadStrExc:
            return Failure()
    if k == "failure-notb":
        return Failure(_BadStrExc())
    if k == "failure-str":
        return Failure("not an exception")
    if k == "tb-badstr":
        return _BadTb()
    if k == "tb-bytes":
        return _BytesTb()
    if k == "substr":
        return SubText("sub é")
    if k == "substr-result":
        return _SubStrResult()
    if k == "failure-sub":
        return _FailureSub(ValueError("x"))
    if k == "failure-blank":
        return Failure.__new__(Failure)          # no attribute at all
    if k == "failure-json":
        return _json_failure([["f", "file.py", 1, [], []]])
    if k == "failure-json-badframes":
        return _json_failure([[1]] if len(kind) > 1 else 3)
    raise ValueError(code)


def run_legacy(c):
    """twisted.python.log.textFromEventDict on a legacy event dict (message tuple / isError+failure+why / %-format)"""
    ev = {"message": tuple(wild_val(v) for v in c["message"]), "isError": c["isError"]}
    if c["fmt"] is not None:
        ev["format"] = c["fmt"]
    for name, code in c["vals"]:
        ev[name] = wild_val(code)
    try:
        r = legacylog.textFromEventDict(ev)
    except BaseException as ex:  # noqa
        if type(ex).__name__ == "Timeout":
            raise
        _LAST[json.dumps(c, sort_keys=True)] = (None, site_of(ex))
        return f"!raised {type(ex).__name__}"
    if r is None:
        return "none"
    return "text legacy" if isinstance(r, str) else f"!nontext {type(r).__name__}"


def run_wild(c):
    if c["entry"] == "legacy":
        return run_legacy(c)
    ev = {}
    if c["fmt"] is not None:
        ev["log_format"] = bytes.fromhex(c["fmt"][1]) if isinstance(c["fmt"], list) else c["fmt"]
    for name, code in c["vals"]:
        ev[name] = wild_val(code)
    try:
        e = c["entry"]
        if e == "fe":
            r = F.formatEvent(ev)
        elif e == "cl":
            r = F.formatEventAsClassicLogText(ev)
        elif e == "unf":
            r = F.formatUnformattableEvent(ev, wild_val(c["err"]) if c.get("err") else ValueError("x"))
        else:
            fl = c["flags"]
            r = F.eventAsText(ev, includeTraceback=fl[0] == "1", includeTimestamp=fl[1] == "1", includeSystem=fl[2] == "1")
    except BaseException as ex:  # noqa
        if type(ex).__name__ == "Timeout":
            raise
        _LAST[json.dumps(c, sort_keys=True)] = (None, site_of(ex))
        return f"!raised {type(ex).__name__}"
    if r is None:
        return "none" if c["entry"] == "cl" else "!nontext NoneType"
    if not isinstance(r, str):
        return f"!nontext {type(r).__name__}"
    fam = "unable" if "Unable to format event" in r else "lost" if "MESSAGE LOST" in r else "empty" if not r else "plain"
    return "text " + fam


# ---------------------------------------------------------------------------------------- the property

def oracle(c, out):
    """The property on the implementation: the call returned text (classic: text or None) and did not raise."""
    if out.startswith("!raised") or out.startswith("!nontext"):
        _, site = _LAST.get(json.dumps(c, sort_keys=True), (None, "unknown"))
        if out.startswith("!nontext"):
            return {"key": "nontext-result", "detail": f"{c['entry']} returned a non-text: {out}"}
        return {"key": "raises:" + str(site).replace(" ", ""),
                "detail": f"{c['entry']} raised {out.split()[1]} (escaped at {site}) for event {describe(c)}"}
    if out == "none" or out.startswith("none "):
        if c["entry"] not in ("cl", "legacy", "leg"):
            return {"key": "nontext-result", "detail": "returned None"}
    return None


def describe(c):
    if c.get("wild"):
        d = {"log_format": c["fmt"], **{k: v for k, v in c["vals"]}}
        if c["entry"] == "legacy":
            d = {"message": c["message"], "isError": c["isError"], "format": c["fmt"], **{k: v for k, v in c["vals"]}}
        return json.dumps(d, ensure_ascii=True)[:300]
    if c["entry"] == "leg":
        f = c["lformat"]
        d = {"message": c["message"], "isError": c["isError"],
             "format": None if f[0] == "_" else render_pct(f[1]) if f[0] in "sb" else f[1], "format_kind": f[0],
             **{k: c[k] for k in ("failure", "why") if c[k] != "_"}, **{k: v for k, v in c["extras"]}, "tape": c["tape"][:6],
             **{k: c[k] for k in ("hk", "res") if c.get(k)}}
        return json.dumps(d, ensure_ascii=True)[:400]
    d = {k: c[k] for k in ("time", "system", "level", "ns", "failure", "fn", "flags") if c[k] != "_"}
    if c["format"][0] in "sb":
        d["log_format"] = render(c["format"][1])
    d["tape"] = c["tape"][:6]
    d.update({k: c[k] for k in ("hk", "res") if c.get(k)})
    return json.dumps(d, ensure_ascii=True)[:400]


def tag(c, out):
    """class signature: entry point, result kind, fallback family, kinds of hostile calls made, which standard
    keys are hostile, whether a BaseException-only class / a bad-str exception is on the tape"""
    if c.get("wild"):
        return "wild:" + c["entry"] + ":" + out.split("@")[0].strip()
    kind = out.split(":")[0].split(" @")[0] if not out.startswith("!") else out.split(" @")[0]
    nums = out.split(":")[-1].split(" @")[0].split(".") if out.startswith("text:") else []
    fam = "".join(l for l, m in (("U", UNABLE), ("L", LOST), ("S", SAFESTR), ("T", TIME)) if str(ord(m)) in nums) or "-"
    sites = "".join(sorted(set(out.split("@")[-1])))
    if c["entry"] == "leg":
        fam = "".join(l for l, m in (("I", INVALID), ("F", LOSTFMT), ("S", SAFESTR), ("D", DICT)) if str(ord(m)) in nums) or "-"
        if out.startswith("text:" + enc("PATHOLOGICAL ERROR")):
            fam = "P"
        branch = "m" if c["message"] else "e" if c["isError"] and c["failure"] != "_" else "f" + c["lformat"][0]
        convs = "".join(sorted({sg[-1] for sg in c["lformat"][1] if sg[0] in "kp"})) if c["lformat"][0] in "sb" else ""
        base = "B" if any(o[0] == "R" and o[1] >= 9 for o in c["tape"]) else ""
        bad = "x" if any(o[0] == "R" and o[2][0] != "g" for o in c["tape"]) else ""
        return f"leg:{kind}:{fam}:{sites}:{branch}:{convs}:{base}{bad}{variant_tag(c)}"
    shape = c["format"][0] + ("F" if c["flat"] != "_" else "") + ("c" if c["fn"] == "c" else "")
    base = "B" if any(o[0] == "R" and o[1] >= 9 for o in c["tape"]) else ""
    bad = "x" if any(o[0] == "R" and o[2][0] != "g" for o in c["tape"]) else ""
    return f"{c['entry']}:{kind}:{fam}:{sites}:{shape}:{base}{bad}{variant_tag(c)}"


def variant_tag(c):
    return (":k" + "".join(sorted(set(c["hk"]))) if c.get("hk") else "") + (":" + c["res"] if c.get("res") else "")


# ---------------------------------------------------------------------------------------- generation

def base_case(**kw):
    c = {"entry": "eat", "flags": "111", "fn": "d", "format": ["s", [["l", "hello"]]], "time": "_", "system": "_",
         "level": "_", "ns": "_", "failure": "_", "extras": [], "flat": "_", "tape": []}
    c.update(kw)
    return c


def R(ci, sp=("g", "boom")):
    return ["R", ci, list(sp)]


def corpus():
    hello = ["s", [["l", "hello"]]]
    cs = [
        # the hand-found witnesses of DESIGN §0 (each an unguarded site of the unchanged tree)
        base_case(time=["o", ["t", "x"]]),                                  # log_time='x'
        base_case(time="nan"), base_case(time="huge"), base_case(time="big"),
        base_case(ns="h", tape=[R(1)]),                                     # namespace whose __format__ raises
        base_case(ns="h", tape=[["N"]]),                                    # … returns a non-str
        base_case(level=["t", "info"]),                                     # log_level without .name
        base_case(level="h", tape=[R(8)]),                                  # .name raises
        base_case(level="h", tape=[["O"], R(1)]),                           # .name's __format__ raises
        base_case(system="h", tape=[R(9)]),                                 # str(system) raises KeyboardInterrupt
        base_case(system="h", tape=[R(12)]),                                # … a BaseException subclass
        base_case(system="h", tape=[R(1)]),                                 # Exception: UNFORMATTABLE (fine)
        base_case(failure="h", tape=[R(1, ("b", 1))]),                      # getTraceback raises e, str(e) raises
        base_case(failure="h", tape=[["N"]]),                               # getTraceback returns None
        base_case(failure="h", tape=[["O"]]),                               # … returns an object
        base_case(failure="n"), base_case(failure=["t", "oops"]),
        base_case(fn="c", tape=[R(1)]), base_case(fn="c", tape=[["N"]]),    # caller-supplied formatTime raises / non-text
        base_case(entry="cl", time="good", system=["t", "sys"], failure="h", tape=[["T", "tb\nline2"]]),
        base_case(entry="cl", format=["_"]), base_case(entry="cl", format=["n"], failure="h", tape=[["T", "tb"]]),
        base_case(entry="fe", format=["s", [["l", "a"], ["f", ["k", "k0"], "", "-", ["P", ""]], ["!"]]],
                  extras=[["k0", "h"]], tape=[["T", "v"], R(9), R(10)]),
        base_case(entry="fe", format=["s", [["f", ["c", "k0"], "aAi", "r", ["N", ">", [["k", "k1"], "", "s", ""], "4"]]]],
                  extras=[["k0", "h"], ["k1", ["t", ""]]], tape=[["O"], ["O"], ["O"], ["O"], ["O"], ["T", "é"]]),
        base_case(entry="fe", format=["s", [["f", ["k", "k0"], "", "a", ["D", [["k", "k1"], "", "r", ""], [["k", "k0"], "", "s", ""]]]]],
                  extras=[["k0", "h"], ["k1", "h"]], tape=[["T", "€"], ["T", "r"], ["T", "s"]]),
        base_case(entry="fe", format=["B"]), base_case(entry="fe", format=["o", "h"], tape=[R(11)]),
        base_case(entry="fe", format=["b", [["l", "é{"], ["f", ["p"], "", "-", ["P", ""]]]]),
        base_case(entry="unf", exc=[1, ["b", 9]], extras=[["k0", "h"], ["k1", "h"]], tape=[["T", "ok"], R(12), R(9, ("x",)), ["N"]]),
        base_case(entry="unf", exc=[8, ["g", "msg"]], extras=[["k0", "h"]], tape=[["T", "ok"]]),
        base_case(entry="fe", format=["s", [["f", ["k", "k0"], "", "-", ["P", ""]], ["f", ["k", "k0"], "", "-", ["P", ""]]]],
                  extras=[["k0", "h"]], flat=["d", [["t", "one"], "h"]], tape=[R(9), ["T", "x"], R(12)]),
        base_case(entry="fe", flat=["o", "h"], format=["s", [["f", ["k", "k0"], "", "-", ["P", ""]]]], tape=[["O"], ["T", "flat"]]),
        base_case(entry="fe", flat=["d", []], format=["_"]),
    ]
    cs += [
        {"wild": 1, "entry": "eat", "flags": "111", "fmt": "{a} {b!r:>{w}} {c.real} {d()}", "vals":
            [["a", "raise:KeyboardInterrupt"], ["b", "str"], ["w", "int"], ["c", "int"], ["d", "badfn"],
             ["log_time", "float"], ["log_level", "level"], ["log_namespace", "str"], ["log_failure", "failure-badexc"]]},
        {"wild": 1, "entry": "cl", "flags": "111", "fmt": "x", "vals": [["log_time", "str"]]},
        {"wild": 1, "entry": "cl", "flags": "111", "fmt": "x", "vals": [["log_level", "str"]]},
        {"wild": 1, "entry": "eat", "flags": "111", "fmt": "x", "vals": [["log_namespace", "raise:ValueError"]]},
        {"wild": 1, "entry": "eat", "flags": "111", "fmt": "x", "vals": [["log_system", "raise:SystemExit"]]},
        # legacy twisted.python.log.textFromEventDict
        {"wild": 1, "entry": "legacy", "message": [], "isError": 1, "fmt": None, "vals": [["failure", "raise:SystemExit"]]},
        {"wild": 1, "entry": "legacy", "message": [], "isError": 1, "fmt": None, "vals": [["failure", "tb-badstr"], ["why", "str"]]},
        {"wild": 1, "entry": "legacy", "message": [], "isError": 0, "fmt": "%(a)s", "vals": [["a", "raise:KeyboardInterrupt"]]},
        {"wild": 1, "entry": "legacy", "message": [], "isError": 0, "fmt": "%(a)s %(b)r %", "vals": [["a", "raise:SystemExit"]]},
        {"wild": 1, "entry": "legacy", "message": ["raise:KeyboardInterrupt", "bytes", "nontext:int"], "isError": 0, "fmt": None, "vals": []},
        {"wild": 1, "entry": "legacy", "message": [], "isError": 1, "fmt": None, "vals": [["failure", "failure-badexc"], ["why", "raise:HostileBase"]]},
    ]
    K = lambda k, cv="s", w=0: ["k", k, w, cv]
    cs += [
        # legacy textFromEventDict, scripted (tied to Twisted.Log.Format.Legacy)
        leg_case(lformat=["s", [K("a")]], extras=[["a", "h"]], tape=[R(9)]),          # the recorded finding: KeyboardInterrupt re-raised
        leg_case(lformat=["s", [K("a", "r")]], extras=[["a", "h"]], tape=[R(9, ("b", 10))]),
        leg_case(lformat=["s", [K("a")]], extras=[["a", "h"]], tape=[R(10), R(9), R(9)]),   # SystemExit, then both fallbacks fail too
        leg_case(lformat=["s", [["p", 0, "s"]]], extras=[["a", "h"]], tape=[R(9)]),    # '%s' % dict: repr(a) raises KeyboardInterrupt
        leg_case(lformat=["b", [["p", 0, "r"]]], extras=[["a", "h"]], tape=[R(9)]),    # bytes '%r' % dict likewise
        leg_case(lformat=["s", [["l", "x%"], K("a", "s", 6), K("b", "r"), K("c", "a"), ["p", 0, "s"]]],
                 extras=[["a", ["t", "é"]], ["b", ["t", "q\n"]], ["c", "h"]], tape=[["T", "€"]]),
        leg_case(lformat=["s", [["p", 3, "s"], ["l", " "]]], extras=[["a", "h"], ["b", "n"]], why="h", tape=[["T", "w"], ["T", "r"]]),
        leg_case(lformat=["s", [["p", 0, "a"], ["p", 0, "s"]]]),
        leg_case(lformat=["s", [K("zz")]]), leg_case(lformat=["s", [K("a", "d")]], extras=[["a", "h"]]),
        leg_case(lformat=["s", [K("a", "x")]], extras=[["a", "h"]]), leg_case(lformat=["s", [["l", "a"], ["!"]]]),
        leg_case(lformat=["b", [["l", "x"]]]),                                         # bytes format: returned bytes before the repair
        leg_case(lformat=["b", [K("a")]], extras=[["a", "h"]]), leg_case(lformat=["b", [["p", 0, "s"]]]),
        leg_case(lformat=["b", [["p", 0, "a"]]], extras=[["a", "h"]], tape=[["T", "é"]]),
        leg_case(lformat=["o", "h"], tape=[["T", "F"], ["T", "F"]]), leg_case(lformat=["o", "h"], tape=[R(9), R(10), R(12)]),
        leg_case(lformat=["o", "h"], tape=[["T", "F"], R(1), ["N"]]), leg_case(lformat=["o", "n"], extras=[["a", "h"]], tape=[["O"]]),
        leg_case(), leg_case(isError=1), leg_case(isError=1, lformat=["s", [["l", "fmt"]]]),
        leg_case(isError=1, failure="h", tape=[["N"]]),                                # getTraceback returns None: TypeError before the repair
        leg_case(isError=1, failure="h", tape=[["O"]]), leg_case(isError=1, failure="h", tape=[["T", "tb\nl2"]]),
        leg_case(isError=1, failure="h", why="h", tape=[R(9), R(9, ("b", 10))]),
        leg_case(isError=1, failure="h", why="h", tape=[["N"], R(12, ("x",))]),
        leg_case(isError=1, failure="n", why=["t", ""]), leg_case(isError=1, failure=["t", "f"], why=["t", "because"]),
        leg_case(isError=1, failure="h", why="n", lformat=["s", [K("a")]], tape=[["T", "tb"]]),
        leg_case(isError=0, failure="h", lformat=["s", [K("failure"), K("why", "r")]], why="h", tape=[["T", "f"], ["T", "w"]]),
        leg_case(message=["h", ["t", "é"], "n", "h"], tape=[R(9), ["N"]]),
        leg_case(message=["h"], isError=1, failure="h", lformat=["s", [K("a")]], tape=[["T", "only message"]]),
        leg_case(message=[["t", ""]], tape=[]),
    ]
    cs += variant_corpus()
    return cs


def variant_corpus():
    """typed hostile values (model-compared), str-subclass / bytes results (oracle only), genuine Failures that cannot
    render themselves (wild) — every guarded site once with a value a type-keyed fast path would let through"""
    K = lambda k, cv="s", w=0: ["k", k, w, cv]
    fld = lambda k, conv="-": ["f", ["k", k], "", conv, ["P", ""]]
    cs = []
    for hk in "sbfe":
        cs += [
            base_case(failure="h", hk=hk, tape=[R(1)]), base_case(failure="h", hk=hk, tape=[R(9, ("b", 12))]),
            base_case(failure="h", hk=hk, tape=[["N"]]), base_case(entry="cl", failure="h", hk=hk, tape=[["T", "tb"]]),
            base_case(system="h", hk=hk, tape=[R(12)]), base_case(ns="h", level="h", hk=hk + "o", tape=[["O"], R(9), R(1)]),
            base_case(entry="fe", format=["s", [fld("k0"), fld("k1", "r")]], extras=[["k0", "h"], ["k1", "h"]], hk=hk,
                      tape=[R(1), R(10), R(12), R(9)]),      # both levels of formatUnformattableEvent, safe_repr of a typed value
            base_case(entry="fe", format=["s", [fld("k0", "s"), fld("k0", "a")]], extras=[["k0", "h"]], hk=hk,
                      tape=[["T", "é"], ["T", "€"]]),
            base_case(entry="unf", exc=[1, ["g", "m"]], extras=[["k0", "h"], ["k1", "h"]], hk=hk, tape=[R(1), R(9), R(12)]),
            base_case(entry="fe", format=["s", [fld("k0")]], extras=[["k0", "h"]], flat=["d", ["h"]], hk=hk, tape=[R(9), R(1), R(12)]),
            leg_case(isError=1, failure="h", hk=hk, tape=[R(1)]), leg_case(isError=1, failure="h", hk=hk, tape=[["N"]]),
            leg_case(isError=1, failure="h", why="h", hk=hk, tape=[R(12), R(10, ("b", 9))]),
            leg_case(message=["h", "h"], hk=hk + "o", tape=[R(9), ["T", "m"]]),
            leg_case(lformat=["s", [K("a"), K("b", "r")]], extras=[["a", "h"], ["b", "h"]], hk=hk, tape=[["T", "x"], R(10), R(12), R(9)]),
            leg_case(lformat=["s", [["p", 0, "s"]]], extras=[["a", "h"]], hk=hk, tape=[R(12), R(12)]),
        ]
    cs += [   # the modelled bytes value "y" / outcome "B" (b"\xff" where a text was expected) at every site
        base_case(failure="h", tape=[["B"]]), base_case(failure="y"), base_case(entry="cl", failure="h", tape=[R(1, ("b", 9))]),
        base_case(system="y"), base_case(system="h", tape=[["B"]]), base_case(level="y"), base_case(ns="y"),
        base_case(level="h", ns="y", tape=[["B"]]), base_case(time=["o", "y"]), base_case(fn="c", tape=[["B"]]),
        base_case(entry="fe", format=["s", [fld("k0"), fld("k0", "r"), fld("k0", "a"), fld("k1", "s")]],
                  extras=[["k0", "y"], ["k1", "h"]], tape=[["B"]]),
        base_case(entry="fe", format=["s", [["f", ["k", "k0"], "", "-", ["P", ">12"]]]], extras=[["k0", "y"]]),
        base_case(entry="fe", format=["s", [["f", ["k", "k0"], "a", "-", ["P", ""]]]], extras=[["k0", "y"]]),
        base_case(entry="fe", format=["s", [["f", ["k", "k0"], "aiA", "-", ["P", ""]]]], extras=[["k0", "h"]], tape=[["B"]]),
        base_case(entry="fe", format=["s", [["f", ["c", "k0"], "", "r", ["N", "", [["k", "k1"], "", "-", ""], ""]]]],
                  extras=[["k0", "h"], ["k1", "y"]], tape=[["B"]]),
        base_case(entry="fe", format=["s", [fld("k0")]], extras=[["k0", "h"]], flat=["d", ["y"]]),
        base_case(entry="fe", format=["s", [fld("k0")]], extras=[["k0", "h"]], flat=["o", "y"]),
        base_case(entry="unf", exc=[1, ["g", "m"]], extras=[["k0", "y"], ["k1", "h"]], tape=[["B"], ["B"]]),
        leg_case(isError=1, failure="h", why="y", tape=[["B"]]), leg_case(isError=1, failure="y", why="h", tape=[["B"]]),
        leg_case(message=["y", "h", ["t", "m"]], tape=[["B"]]),
        leg_case(lformat=["s", [K("a"), K("a", "r", 9), K("a", "a"), K("b")]], extras=[["a", "y"], ["b", "h"]], tape=[["B"]]),
        leg_case(lformat=["s", [K("a", "d")]], extras=[["a", "y"]]), leg_case(lformat=["s", [["p", 0, "s"]]], extras=[["a", "y"]]),
        leg_case(lformat=["b", [["p", 0, "r"]]], extras=[["a", "y"], ["b", "h"]], tape=[["B"]]),
        leg_case(lformat=["o", "h"], extras=[["a", "y"]], tape=[["B"], ["B"]]),
    ]
    for res in ("sub", "bytes"):
        cs += [
            base_case(failure="h", res=res, tape=[["T", "tb"]]), base_case(entry="cl", failure="h", res=res, tape=[["N"]]),
            base_case(system="h", res=res, tape=[["T", "sys"]]), base_case(system=["t", "sys"], res=res),
            base_case(ns="h", level="h", res=res, tape=[["T", "name"], ["T", "ns"], ["T", "lv"]]),
            base_case(ns=["t", "ns"], level="h", res=res, tape=[["T", "name"]]),
            base_case(fn="c", res=res, tape=[["T", "now"]]), base_case(entry="cl", fn="c", time="good", res=res, tape=[["N"]]),
            base_case(time=["o", ["t", "x"]], res=res),
            base_case(entry="fe", format=["s", [fld("k0", "s"), fld("k1", "r"), fld("k2")]], res=res,
                      extras=[["k0", "h"], ["k1", "h"], ["k2", ["t", "v"]]], tape=[["T", "a"], ["T", "b"]]),
            base_case(entry="fe", format=["s", [fld("k0")]], extras=[["k0", "h"]], flat=["d", [["t", "flat"]]], res=res),
            base_case(entry="unf", exc=[1, ["g", "m"]], extras=[["k0", ["t", "v"]], ["k1", "h"]], res=res, tape=[["T", "r"]]),
            leg_case(isError=1, failure="h", why=["t", "because"], res=res, tape=[["T", "tb"]]),
            leg_case(isError=1, failure="h", why="h", res=res, tape=[["T", "why"], ["T", "tb"]]),
            leg_case(isError=1, failure=["t", "f"], why=["t", "because"], res=res),
            leg_case(message=["h", ["t", "m"]], res=res, tape=[["T", "s"]]),
            leg_case(lformat=["s", [K("a"), K("b", "r")]], extras=[["a", "h"], ["b", ["t", "v"]]], res=res, tape=[["T", "x"]]),
            leg_case(lformat=["s", [K("why")]], why=["t", "w"], res=res),
        ]
    for code in WILD_FAILURES + ["substr"]:
        cs += [
            {"wild": 1, "entry": "eat", "flags": "111", "fmt": "x", "vals": [["log_failure", code]]},
            {"wild": 1, "entry": "cl", "flags": "111", "fmt": "{log_failure}", "vals": [["log_failure", code], ["log_system", code]]},
            {"wild": 1, "entry": "legacy", "message": [], "isError": 1, "fmt": None, "vals": [["failure", code]]},
            {"wild": 1, "entry": "legacy", "message": [], "isError": 1, "fmt": None, "vals": [["failure", code], ["why", code]]},
            {"wild": 1, "entry": "legacy", "message": [code], "isError": 0, "fmt": None, "vals": []},
        ]
    cs += [{"wild": 1, "entry": "legacy", "message": [], "isError": 1, "fmt": None, "vals": [["failure", "failure"], ["why", w]]}
           for w in ("bytes", "substr", "nontext:bytes", "raise:SystemExit")]
    return cs


KEYS = ["k0", "k1", "k2", "k3", "log_system", "log_level", "log_namespace", "log_failure"]


def g_text(rng, n=None):
    n = rng.choice([0, 1, 1, 2, 3, 5]) if n is None else n
    return "".join(rng.choice(ALPHA) for _ in range(n))


def g_exc(rng):
    ci = rng.choice(RAISABLE)
    r = rng.random()
    sp = ["g", g_text(rng)] if r < 0.7 else ["b", rng.choice(RAISABLE)] if r < 0.9 else ["x"]
    return ci, sp


def g_outcome(rng, bias=None):
    r = rng.random() if bias is None else bias
    if r < 0.40:
        return ["T", g_text(rng)]
    if r < 0.47:
        return ["N"]
    if r < 0.52:
        return ["B"]
    if r < 0.70:
        return ["O"]
    ci, sp = g_exc(rng)
    return ["R", ci, sp]


def g_val(rng, p_h=0.5):
    r = rng.random()
    return "h" if r < p_h else "n" if r < p_h + 0.11 else "y" if r < p_h + 0.18 else ["t", g_text(rng)]


def g_oval(rng, p_abs=0.4, p_h=0.5):
    return "_" if rng.random() < p_abs else g_val(rng, p_h)


def g_key(rng):
    r = rng.random()
    if r < 0.04:
        return ["p"]
    return [("c" if rng.random() < 0.25 else "k"), rng.choice(KEYS + ["k0", "k1", "k4"])]


def g_steps(rng):
    return "".join(rng.choice("aAi") for _ in range(rng.choice([0, 0, 0, 1, 1, 2, 3])))


def g_conv(rng):
    return rng.choice(["-", "-", "-", "-", "r", "s", "a", "x"])


def g_ptext(rng):
    return rng.choice(["", "", "", ">5", ">1", ">12", ">05", ">", "q", "a:", ">a"])


def g_sf(rng):
    return [g_key(rng), g_steps(rng), g_conv(rng), g_ptext(rng)]


def g_spec(rng):
    r = rng.random()
    if r < 0.75:
        return ["P", g_ptext(rng)]
    if r < 0.93:
        return ["N", rng.choice(["", "", ">", "a"]), g_sf(rng), rng.choice(["", "", "4", "b"])]
    return ["D", g_sf(rng), g_sf(rng)]


def g_segs(rng):
    segs = []
    for _ in range(rng.choice([0, 1, 1, 2, 2, 3, 4, 6])):
        r = rng.random()
        if r < 0.35:
            segs.append(["l", g_text(rng) or "x"])
        elif r < 0.93:
            segs.append(["f", g_key(rng), g_steps(rng), g_conv(rng), g_spec(rng)])
        else:
            segs.append(["!"])
    return canon_segs(segs)


def canon_segs(segs):
    """adjacent literals are one literal to the parser; a lone '}' next to another '}' (a second lone one, or a
    literal's escaped '}}') would read as an escaped brace — keep the rendering unambiguous"""
    out = []
    for s in segs:
        if s[0] == "l" and out and out[-1][0] == "l":
            out[-1] = ["l", out[-1][1] + s[1]]
        elif s[0] == "!" and out and out[-1][0] == "!":
            continue
        else:
            out.append(list(s))
    for i, s in enumerate(out):
        if s[0] == "l":
            if i > 0 and out[i - 1][0] == "!" and s[1].startswith("}"):
                s[1] = "a" + s[1]
            if i + 1 < len(out) and out[i + 1][0] == "!" and s[1].endswith("}"):
                s[1] = s[1] + "a"
    return out


def g_case(rng):
    r = rng.random()
    fmt = (["s", g_segs(rng)] if r < 0.72 else ["b", g_segs(rng)] if r < 0.80 else ["B"] if r < 0.84
           else ["o", "h"] if r < 0.90 else ["n"] if r < 0.95 else ["_"])
    r = rng.random()
    time = "_" if r < 0.3 else "n" if r < 0.4 else "good" if r < 0.6 else rng.choice(["nan", "huge", "big"]) if r < 0.75 \
        else ["o", ["t", g_text(rng)]] if r < 0.86 else ["o", "y"] if r < 0.89 else ["o", "h"]
    extras = [[k, g_val(rng, 0.6)] for k in ["k0", "k1", "k2", "k3"] if rng.random() < 0.6]
    flat = "_"
    if rng.random() < 0.12:
        nf = sum(1 for s in (fmt[1] if fmt[0] in "sb" else []) if s[0] == "f")
        flat = ["d", [g_oval(rng, 0.15, 0.5) for _ in range(nf)]] if rng.random() < 0.8 else ["o", g_val(rng, 0.7)]
    entry = rng.choice(["eat", "eat", "eat", "cl", "cl", "fe", "fe", "unf"])
    c = {"entry": entry, "flags": "".join(rng.choice("01") if rng.random() < 0.3 else "1" for _ in range(3)),
         "fn": "c" if rng.random() < 0.15 else "d", "format": fmt, "time": time,
         "system": g_oval(rng, 0.5, 0.6), "level": g_oval(rng, 0.4, 0.6), "ns": g_oval(rng, 0.4, 0.5),
         "failure": g_oval(rng, 0.5, 0.7), "extras": extras, "flat": flat,
         "tape": [g_outcome(rng) for _ in range(rng.choice([0, 1, 2, 3, 4, 6, 8, 12]))]}
    if rng.random() < 0.35:   # benign tape prefix so that late sites (time/system/traceback) are reached often
        c["tape"] = [["T", g_text(rng)] if rng.random() < 0.7 else ["O"] for _ in range(rng.randint(1, 6))] + c["tape"]
    if entry == "unf":
        ci, sp = g_exc(rng)
        c["exc"] = [ci, sp]
    return g_variant(rng, c)


HK = ["s", "f", "b", "e", "sf", "fs", "sbfe", "fsbe", "efbs", "bsef", "os", "of"]


def g_variant(rng, c):
    """30 %: the hostile event values are instances of str / bytes / Failure / Exception subclasses (model-compared:
    the model's single hostile value stands for all of them); 12 %: texts are str-subclass instances with hostile
    methods, or undecodable bytes stand where a text / None was expected (oracle only)"""
    r = rng.random()
    if r < 0.30:
        c["hk"] = rng.choice(HK)
    elif r < 0.42:
        c["res"] = rng.choice(["sub", "bytes"])
        if rng.random() < 0.4:
            c["hk"] = rng.choice(HK)
    return c


WILD_VALS = ["none", "int", "str", "bytes", "float", "nan", "inf", "huge", "neg", "list", "dict", "self", "level", "fn", "badfn",
             "raise:ValueError", "raise:KeyboardInterrupt", "raise:SystemExit", "raise:GeneratorExit", "raise:HostileBase",
             "raise:RecursionError", "raise:MemoryError", "raise:StopIteration", "nontext:int", "nontext:bytes",
             "failure", "failure-badexc", "failure-notb", "failure-str",
             "tb-bytes", "substr", "substr-result", "failure-sub", "failure-blank", "failure-json", "failure-json-badframes",
             "failure-json-badframes:short"]
WILD_FAILURES = [v for v in WILD_VALS if v.startswith("failure") or v.startswith("tb-")] + ["tb-badstr", "substr-result"]
WILD_TOK = ["{", "}", "{{", "}}", "!", ":", ".", "[", "]", "()", "a", "b", "c", "0", "1", "r", "s", ">", "5", " ", "é", "log_time",
            "{a}", "{b!r}", "{c.x}", "{a()}", "{b[0]}", "{a:>5}", "{0}", "{}", "{a.real}", "{b:{c}}", "%s", "%(a)s"]


def g_wild(rng):
    r = rng.random()
    fmt = "".join(rng.choice(WILD_TOK) for _ in range(rng.randint(0, 8)))
    if r < 0.1:
        fmt = ["bytes", (fmt.encode() + rng.choice([b"", b"\xff"])).hex()]
    elif r < 0.15:
        fmt = None
    vals = [[k, rng.choice(WILD_VALS)] for k in ["a", "b", "c"] if rng.random() < 0.8]
    for k in ["log_time", "log_system", "log_level", "log_namespace", "log_failure", "log_flattened", "log_logger", "log_source"]:
        if rng.random() < 0.45:
            vals.append([k, rng.choice(WILD_FAILURES if k == "log_failure" and rng.random() < 0.5 else WILD_VALS)])
    c = {"wild": 1, "entry": rng.choice(["eat", "eat", "cl", "fe", "unf"]), "flags": "".join(rng.choice("011") for _ in range(3)),
         "fmt": fmt, "vals": vals}
    if c["entry"] == "unf":
        c["err"] = rng.choice(["raise:ValueError", "failure", "nontext:int", "int"])
    return c


LEGACY_TOK = ["%(a)s", "%(b)r", "%(c)d", "%(zz)s", "%", "%s", "x", " ", "%(a)5.2f", "%%", "é"]


def g_legacy(rng):
    vals = [[k, rng.choice(WILD_FAILURES if k == "failure" and rng.random() < 0.5 else WILD_VALS + ["tb-badstr"])]
            for k in ["a", "b", "c", "failure", "why"] if rng.random() < 0.6]
    return {"wild": 1, "entry": "legacy", "isError": rng.choice([0, 1, 1]),
            "message": [rng.choice(WILD_VALS) for _ in range(rng.choice([0, 0, 0, 1, 2]))],
            "fmt": None if rng.random() < 0.4 else "".join(rng.choice(LEGACY_TOK) for _ in range(rng.randint(0, 5))),
            "vals": vals}


def leg_case(**kw):
    c = {"entry": "leg", "message": [], "isError": 0, "lformat": ["_"], "failure": "_", "why": "_", "extras": [], "tape": []}
    c.update(kw)
    return c


def g_ltext(rng):
    return "".join(rng.choice(LEG_ALPHA) for _ in range(rng.choice([0, 1, 1, 2, 3, 5])))


def g_lval(rng, p_h=0.6):
    r = rng.random()
    return "h" if r < p_h else "n" if r < p_h + 0.09 else "y" if r < p_h + 0.16 else ["t", g_ltext(rng)]


def g_psegs(rng):
    segs = []
    for _ in range(rng.choice([0, 1, 1, 2, 2, 3, 4, 5])):
        r = rng.random()
        w = rng.choice([0, 0, 0, 3, 6])
        cv = rng.choice(["s", "s", "s", "r", "r", "a", "d", "x"])
        if r < 0.28:
            segs.append(["l", g_ltext(rng) or "x"])
        elif r < 0.82:
            segs.append(["k", rng.choice(["a", "a", "b", "c", "zz", "why", "failure"]), w, cv])
        elif r < 0.94:
            segs.append(["p", w, cv])
        else:
            segs.append(["!"])
    return canon_psegs(segs)


def g_leg(rng):
    r = rng.random()
    f = (["_"] if r < 0.08 else ["s", g_psegs(rng)] if r < 0.72 else ["b", g_psegs(rng)] if r < 0.84
         else ["o", "h"] if r < 0.93 else ["o", "n"])
    tape = [g_outcome(rng) for _ in range(rng.choice([0, 1, 2, 3, 4, 6, 8]))]
    if rng.random() < 0.35:
        tape = [["T", g_ltext(rng)] if rng.random() < 0.7 else ["O"] for _ in range(rng.randint(1, 5))] + tape
    return g_variant(rng, leg_case(
        message=[g_lval(rng) for _ in range(rng.choice([0, 0, 0, 0, 1, 2, 3]))],
        isError=rng.choice([0, 0, 1]), lformat=f,
        failure="_" if rng.random() < 0.45 else g_lval(rng, 0.7),
        why="_" if rng.random() < 0.5 else g_lval(rng, 0.5),
        extras=[[k, g_lval(rng)] for k in ["a", "b", "c"] if rng.random() < 0.6], tape=tape))


def generate(rng, tier):
    n = 8000 if tier == "quick" else 100000
    for i in range(n):
        r = rng.random()
        yield g_legacy(rng) if r < 0.04 else g_leg(rng) if r < 0.19 else g_wild(rng) if r < 0.33 else g_case(rng)


def search(rng, tier, disagreeing):
    """property-directed: every formatting site × every outcome kind × entry points, with a benign event text"""
    outs = [["T", "t"], ["N"], ["O"], ["B"]] + [["R", ci, sp] for ci in RAISABLE for sp in (["g", "m"], ["b", 9], ["b", 1], ["x"])]
    for entry in ("eat", "cl"):
        for o in outs:
            for o2 in outs[:4] + outs[4::7]:
                yield base_case(entry=entry, system="h", tape=[o])
                yield base_case(entry=entry, level="h", tape=[o, o2])
                yield base_case(entry=entry, ns="h", tape=[o])
                yield base_case(entry=entry, level="h", ns="h", tape=[o2, o, o2])
                yield base_case(entry=entry, failure="h", tape=[o])
                yield base_case(entry=entry, fn="c", tape=[o])
                yield base_case(entry=entry, format=["o", "h"], tape=[o, o2])
        for t in ["n", "good", "nan", "huge", "big", ["o", ["t", "x"]], ["o", "h"]]:
            yield base_case(entry=entry, time=t)
        for v in ["n", ["t", "x"], "h"]:
            yield base_case(entry=entry, level=v)
            yield base_case(entry=entry, failure=v)
            yield base_case(entry=entry, system=v)
            yield base_case(entry=entry, ns=v)
    K = lambda k, cv="s", w=0: ["k", k, w, cv]
    for o in outs:
        for o2 in outs[:4] + outs[4::7]:
            for cv in "sra":
                yield leg_case(lformat=["s", [K("a", cv)]], extras=[["a", "h"]], tape=[o, o2, o])
                yield leg_case(lformat=["s", [["p", 0, cv]]], extras=[["a", "h"]], tape=[o, o2, o])
                yield leg_case(lformat=["b", [["p", 0, cv]]], extras=[["a", "h"]], tape=[o, o2, o])
            yield leg_case(lformat=["o", "h"], tape=[o, o2, o])
            yield leg_case(lformat=["b", [["l", "x"]]], extras=[["a", "h"]], tape=[o, o2])
            yield leg_case(isError=1, failure="h", tape=[o])
            yield leg_case(isError=1, failure="h", why="h", tape=[o2, o])
            yield leg_case(message=["h", "h"], tape=[o, o2])
    for v in ["n", ["t", ""], ["t", "x"], "h"]:
        yield leg_case(isError=1, failure=v)
        yield leg_case(isError=1, failure="h", why=v)
    for c in variant_corpus():
        yield c
    for hk in "sbfe":       # every guarded site x outcome kind once more, with typed hostile values
        for o in outs:
            for entry in ("eat", "cl"):
                yield base_case(entry=entry, system="h", hk=hk, tape=[o])
                yield base_case(entry=entry, level="h", ns="h", hk=hk, tape=[o, o, o])
                yield base_case(entry=entry, failure="h", hk=hk, tape=[o])
            yield base_case(entry="unf", exc=[1, ["g", "m"]], extras=[["k0", "h"]], hk=hk, tape=[outs[4], o])
            yield leg_case(isError=1, failure="h", why="h", hk=hk, tape=[o, o])
            yield leg_case(message=["h"], hk=hk, tape=[o])
            yield leg_case(lformat=["s", [K("a")]], extras=[["a", "h"]], hk=hk, tape=[o, o, o])
    for _ in range(3000 if tier == "quick" else 20000):
        yield g_case(rng) if rng.random() < 0.7 else g_leg(rng)


def shrink(c):
    if c.get("wild"):
        for i in range(len(c["vals"])):
            yield {**c, "vals": c["vals"][:i] + c["vals"][i + 1:]}
        if c["entry"] == "legacy":
            for i in range(len(c["message"])):
                yield {**c, "message": c["message"][:i] + c["message"][i + 1:]}
            if c["fmt"] is not None:
                yield {**c, "fmt": None}
        if isinstance(c["fmt"], str) and c["fmt"]:
            yield {**c, "fmt": "x"}
            for i in range(len(c["fmt"])):
                yield {**c, "fmt": c["fmt"][:i] + c["fmt"][i + 1:]}
        return
    if c.get("hk"):
        yield {k: v for k, v in c.items() if k != "hk"}
        if len(c["hk"]) > 1:
            for ch in sorted(set(c["hk"])):
                yield {**c, "hk": ch}
    if c.get("res"):
        yield {k: v for k, v in c.items() if k != "res"}
    if c["entry"] == "leg":
        for k in ("failure", "why"):
            if c[k] != "_":
                yield {**c, k: "_"}
        for k in ("extras", "message", "tape"):
            for i in range(len(c[k])):
                yield {**c, k: c[k][:i] + c[k][i + 1:]}
        if c["lformat"][0] in "sb":
            segs = c["lformat"][1]
            for i in range(len(segs)):
                yield {**c, "lformat": [c["lformat"][0], segs[:i] + segs[i + 1:]]}
            for i, sg in enumerate(segs):
                if sg[0] == "k" and sg[2]:
                    yield {**c, "lformat": [c["lformat"][0], segs[:i] + [["k", sg[1], 0, sg[3]]] + segs[i + 1:]]}
        for i, o in enumerate(c["tape"]):
            if o[0] == "R" and o[2] != ["g", ""]:
                yield {**c, "tape": c["tape"][:i] + [["R", o[1], ["g", ""]]] + c["tape"][i + 1:]}
            if o[0] == "T" and o[1]:
                yield {**c, "tape": c["tape"][:i] + [["T", ""]] + c["tape"][i + 1:]}
        return
    for k in ("system", "level", "ns", "failure", "time", "flat"):
        if c[k] != "_":
            yield {**c, k: "_"}
    for i in range(len(c["extras"])):
        yield {**c, "extras": c["extras"][:i] + c["extras"][i + 1:]}
    if c["format"][0] in "sb":
        segs = c["format"][1]
        if segs != [["l", "x"]]:
            yield {**c, "format": ["s", [["l", "x"]]]}
        for i in range(len(segs)):
            yield {**c, "format": [c["format"][0], canon_segs(segs[:i] + segs[i + 1:])]}
    elif c["format"][0] != "_":
        yield {**c, "format": ["s", [["l", "x"]]]}
    for i in range(len(c["tape"])):
        yield {**c, "tape": c["tape"][:i] + c["tape"][i + 1:]}
    for i, o in enumerate(c["tape"]):
        if o[0] == "R" and o[2] != ["g", ""]:
            yield {**c, "tape": c["tape"][:i] + [["R", o[1], ["g", ""]]] + c["tape"][i + 1:]}
        if o[0] == "T" and o[1]:
            yield {**c, "tape": c["tape"][:i] + [["T", ""]] + c["tape"][i + 1:]}
    if c["fn"] == "c":
        yield {**c, "fn": "d"}
    if c["entry"] == "eat" and c["flags"] != "111":
        yield {**c, "flags": "111"}


def nontrivial(c, out):
    return True
