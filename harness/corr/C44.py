"""C44 — Banana: real twisted.spread.banana.Banana (encoder + streaming decoder) vs the Lean model, and
the property oracle (round trip for every segmentation, refusals) evaluated on the real code."""
import array
import collections
import decimal
import enum
import fractions
import importlib
import struct
import zlib

from twisted.internet.testing import StringTransport
from twisted.spread import banana

# `banana` is re-imported (importlib.reload) before every `mod` case so that the module-level shared instance `_i` starts
# from the state the module gives it; classes are therefore always looked up through the module (banana.Banana, …).

HEADLINE = "TwistedProps.C44.decode_encode"
RULE = ("rt: random nested structures (depth <= 6) of boundary/random integers, float bit patterns (NaN payloads, inf, -0.0), "
        "byte strings (empty, vocabulary words, high-bit bytes, lengths at 127/128, 16383/16384, SIZE_LIMIT+-1), lists/tuples, "
        "unsupported objects; ~7% of all nodes are instances of SUBCLASSES of the supported types (list / tuple / bytes / int / "
        "float subclasses, namedtuple, bool, IntEnum / IntFlag members), judged exactly like the plain value; unsupported values "
        "are an arbitrary object or one of 28 named ones (str incl. empty / non-ASCII / a vocabulary word, None, bytearray, "
        "memoryview, range, dict, set, frozenset, deque, array, complex, Decimal, Fraction, iterators, types, functions …), at the "
        "top and inside structures; ~7% of the round trips and 5% of the sends are spines nested 5-12 deep with siblings at every "
        "level; corpus: a list of exactly SIZE_LIMIT elements (enc only; thorough: SIZE_LIMIT / SIZE_LIMIT-1 elements, list and "
        "list subclass); dialect pb/none; prefixLimit 64 and small values, in 30% of the rt / enc / dec / sess cases set through the "
        "MODULE-WIDE banana.setPrefixLimit before the connection is made instead of the instance method; the real encoding cut "
        "into random deliveries "
        "(whole, byte-wise, random cuts, with and without empty deliveries). dec: mutated/recipe streams (over-long prefix — random "
        "digits, a small number padded with zero digits beyond the limit, all zeros, zero low-order digits —, "
        "oversized LIST/STRING length, unknown type byte, VOCAB, truncated items). sess (about a fifth of the cases): a HISTORY on "
        "two connected Bananas A and B (same dialect / prefixLimit), each both sending and receiving: sendEncoded of legal values, of "
        "values refused at the top level, and of values refused PART-WAY through a structure (out-of-range int, oversized bytes / "
        "list, unsupported object nested 1-5 levels deep after earlier elements), from either side, interleaved with deliveries of "
        "0 / few / all pending bytes in either direction, final flush; optionally B answers every expression by sendEncoded from "
        "inside expressionReceived (re-entrant from dataReceived). mod: a history on the module-level helpers banana.encode / "
        "banana.decode (one shared instance, module re-imported per case): encode of legal / refused values, decode of raw bytes "
        "(truncated, refused inside open lists, several expressions, complete expressions FOLLOWED by a truncated one / open lists / "
        "a refused item, junk), decode(encode(v)). distinct = (op, dialect, prefixLimit "
        "class, set of node kinds, depth, delivery shape, outcome); for sess/mod (dialect, limit class, echo, pattern of step kinds "
        "v/n/t = accepted / refused nested / refused at top, delivery kinds, outcomes)")
ASSUMES = [
    "prefixLimit >= 3 for the round-trip half (SIZE_LIMIT needs 3 base-128 digits; the default is 64); smaller limits are tied to the model but carry no oracle expectation",
    "struct.pack('!d')/unpack('!d') is a bijection between Python floats and 8-byte strings (bit patterns incl. NaN payloads are checked on every run)",
    "dialect already negotiated (currentDialect is b'pb' or b'none'); negotiation is not part of the property",
    "the model's Expr is the VALUE: _encode dispatches with isinstance, so an instance of a subclass of list / tuple / int / float / "
    "bytes is modelled (and judged by the oracle) as the plain value — plain subclasses without overridden behaviour; every value "
    "of any other type is the model's `.other`",
    "the model's Cfg.lim is the prefix limit in force on the connection, whichever way it was set (module-wide setPrefixLimit "
    "before connectionMade, or Banana.setPrefixLimit afterwards); the harness restores the module-wide default 64 after each case",
    "a list of exactly SIZE_LIMIT elements is only encoded (its decoding by dataReceived is quadratic: 655360 buffer copies of ~1 MB)",
    "feeding stops at the first exception escaping dataReceived (the transport drops the connection)",
    "histories (sess): both Bananas of a pair use the same dialect and prefix limit; B's echoing expressionReceived swallows a "
    "BananaError of its own sendEncoded (never happens: everything the decoder delivers is within the limits — decoded_within_limits, history_echo)",
    "banana.encode / banana.decode: the shared instance is the one the module creates on import (dialect none, prefix limit 64); "
    "the model is that of the repaired decode (finally: buffer AND listStack reset)",
]
TRUSTED = ["zlib.adler32 (long byte strings are compared as length+adler32 on both sides)",
           "harness/py2lean.py (translator: spread/banana.py int2b128 and b1282int are regenerated into lean/Generated/Banana.lean on "
           "every run — stream(e) calls as the output bytes in order, the assert as Except PyErr, the `while integer:` loop (& 0x7F, "
           ">> 7) as a recursive function terminating by integer, the for-loop over iterbytes(st) as List.foldl of the generated "
           "loop body; translator-regenerated kernel proved equal to the model: TwistedProps.C44.gen_int2b128, gen_b1282int; "
           "round trip restated over the regenerated definitions: gen_b128_roundtrip)"]
MANIFEST = {
    "text": "Lean theorems (TwistedProps/C44.lean): for every expression within the limits, every dialect and every cutting of "
            "the encoded stream into deliveries, the streaming decoder delivers exactly the list-ified expression "
            "(segmentation-independence theorem for the dataReceived loop + batch round-trip by induction over the expression); "
            "encode refuses exactly the out-of-limit values; over-long prefixes and oversized LIST/STRING lengths raise BananaError. "
            "int2b128 / b1282int are regenerated from banana.py by the translator on every run and proved equal to the model's "
            "(gen_int2b128, gen_b1282int). Histories: _encode is also transcribed with the fragments it has written when it raises "
            "(encodeP, proved to agree with encode); sendEncoded of a refused value leaves the transport and everything else "
            "unchanged (send_refused_leaves_no_trace); for ANY history on two connected Bananas — sendEncoded of accepted values, "
            "values refused at the top or part-way through a structure, from either side, deliveries of any sizes in either "
            "direction, with or without B answering from inside expressionReceived — no decoder ever raises, each side has at any "
            "moment received a prefix of what its peer's sendEncoded accepted (history_safe), and after the final flush exactly "
            "those values, list-ified, in order, both decoders back in their initial state (history_roundtrip; "
            "decode_encode_many: several expressions in one stream, any cutting); with B echoing, what B sends is an interleaving "
            "of its own accepted values and of everything it received, no echo is ever refused (history_echo). Whatever the stream, "
            "the decoder never delivers a value outside the limits (decoded_within_limits). "
            "banana.decode(banana.encode(v)) == v after any history of the module-level helpers (mod_roundtrip_after_history). "
            "Boundary classes named after the mutation audit: the size limit is inclusive (encode_accepts_full_list / "
            "encode_refuses_overfull_list), no bound on the nesting depth (decode_encode_nested), a prefix longer than the limit "
            "is refused whatever its digits are, zero padding included (oversized_of_long_prefix). "
            "Model tied to banana.py by differential runs of encode / decode / round-trip / sess / mod histories.",
    "note": "trusts Lean kernel, the hand-written model of banana.py (differentially tied), struct's IEEE-754 packing",
    "technique": "Lean 4 proof (stream/batch equivalence of the decoder loop + structural induction) + differential tie + "
                 "translator-regenerated kernel (int2b128, b1282int) proved equal to the model",
    "design_ref": "DESIGN.md §7 C44",
}

SIZE_LIMIT = 640 * 1024
VOCAB = [b"None", b"class", b"dereference", b"reference", b"dictionary", b"function", b"instance", b"list", b"module",
         b"persistent", b"tuple", b"unpersistable", b"copy", b"cache", b"cached", b"remote", b"local", b"lcache", b"version",
         b"login", b"password", b"challenge", b"logged_in", b"not_logged_in", b"cachemessage", b"message", b"answer",
         b"error", b"decref", b"decache", b"uncache"]


class Unsupported:
    """an object _encode has no branch for"""


# values of types Banana does not send (sendEncoded: "@raise BananaError: If the given object is not an instance of one of
# the types supported by Banana"): text, None, mutable / lazy / unordered containers, other numbers, arbitrary objects
OTHERS = {
    "str": lambda: "abc", "str-empty": lambda: "", "str-vocab": lambda: "list", "str-nonascii": lambda: "caf\u00e9 \U0001f34c",
    "str-digit": lambda: "7", "None": lambda: None, "bytearray": lambda: bytearray(b"ab"), "bytearray-empty": lambda: bytearray(),
    "memoryview": lambda: memoryview(b"ab"), "range": lambda: range(3), "range-empty": lambda: range(0),
    "dict": lambda: {1: 2}, "dict-empty": lambda: {}, "set": lambda: {1, 2}, "frozenset": lambda: frozenset([1]),
    "complex": lambda: 1j, "Decimal": lambda: decimal.Decimal("1.5"), "Fraction": lambda: fractions.Fraction(3, 1),
    "deque": lambda: collections.deque([1, 2]), "array": lambda: array.array("b", [1, 2]),
    "iterator": lambda: iter([1, 2]), "generator": lambda: (x for x in (1, 2)), "type": lambda: int,
    "function": lambda: len, "Ellipsis": lambda: Ellipsis, "NotImplemented": lambda: NotImplemented,
    "object": lambda: object(), "exception": lambda: ValueError("x"),
}


class ListSub(list):
    pass


class TupleSub(tuple):
    pass


class BytesSub(bytes):
    pass


class IntSub(int):
    pass


class FloatSub(float):
    pass


def _subclassed(how, base, v):
    """an instance of a SUBCLASS of the supported type with the value v (a list subclass is a list, a bool is an int …)"""
    if base in "LR":
        return ListSub(v)
    if base == "T":
        if how == "nt":
            return collections.namedtuple("NT", ["f%d" % k for k in range(len(v))])(*v)
        return TupleSub(v)
    if base in "bZ":
        return BytesSub(v)
    if base == "f":
        return FloatSub(v)
    if how == "bool" and v in (0, 1):
        return bool(v)
    if how == "enum":
        return enum.IntEnum("E", {"member": v}).member
    if how == "flag" and v >= 0:
        return enum.IntFlag("F", {"member": v}).member if v else IntSub(v)
    return IntSub(v)


# ----------------------------------------------------------------------------------------
# expressions: JSON form  ["i",n] ["f",hex16] ["b",hex] ["Z",n,hexbyte] ["L",[..]] ["T",[..]] ["R",n,e] ["o"] ["o",name]
#   ["S",how,e]  the value of e (e one of i f b Z L T R) as an instance of a subclass (how: sub / nt / bool / enum / flag)

def to_py(e):
    k = e[0]
    if k == "i":
        return int(e[1])
    if k == "f":
        return struct.unpack("!d", bytes.fromhex(e[1]))[0]
    if k == "b":
        return bytes.fromhex(e[1])
    if k == "Z":
        return bytes.fromhex(e[2]) * e[1]
    if k == "L":
        return [to_py(x) for x in e[1]]
    if k == "T":
        return tuple(to_py(x) for x in e[1])
    if k == "R":
        return [to_py(e[2])] * e[1]
    if k == "o":
        return OTHERS[e[1]]() if len(e) > 1 else Unsupported()
    if k == "S":
        return _subclassed(e[1], e[2][0], to_py(e[2]))
    raise ValueError(e)


def wire(e):
    k = e[0]
    if k == "i":
        return "i%d" % int(e[1])
    if k == "f":
        return "f" + e[1]
    if k == "b":
        return "b" + e[1]
    if k == "Z":
        return "Z%d.%s" % (e[1], e[2])
    if k in "LT":
        return ",".join([k + str(len(e[1]))] + [wire(x) for x in e[1]])
    if k == "R":
        return "R%d,%s" % (e[1], wire(e[2]))
    if k == "S":                 # the model's Expr is the value: _encode dispatches by isinstance, a subclass instance is its base
        return wire(e[2])
    return "o"


def describe(e):
    """wire() for messages: also says which values are subclass instances and which unsupported value was used"""
    k = e[0]
    if k == "S":
        return "S:%s(%s)" % (e[1], describe(e[2]))
    if k == "o":
        return "o" if len(e) == 1 else "o:" + e[1]
    if k in "LT":
        return ",".join([k + str(len(e[1]))] + [describe(x) for x in e[1]])
    if k == "R":
        return "R%d,%s" % (e[1], describe(e[2]))
    return wire(e)


def show_bytes(b):
    return b.hex() if len(b) <= 64 else "~%d.%d" % (len(b), zlib.adler32(b))


def show_py(v):
    """canonical text of a decoded value (exact types: bool is not int here)"""
    if type(v) is int:
        return "i%d" % v
    if type(v) is float:
        return "f" + struct.pack("!d", v).hex()
    if type(v) is bytes:
        return "b" + show_bytes(v)
    if type(v) is list:
        return ",".join(["L%d" % len(v)] + [show_py(x) for x in v])
    return "?" + type(v).__name__


def expected_text(e):
    """what the property says must come out: the same structure, tuples as lists — computed from
    the case alone (no Twisted, no model)"""
    k = e[0]
    if k == "i":
        return "i%d" % int(e[1])
    if k == "f":
        return "f" + e[1]
    if k == "b":
        return "b" + show_bytes(bytes.fromhex(e[1]))
    if k == "Z":
        return "b" + show_bytes(bytes.fromhex(e[2]) * e[1])
    if k in "LT":
        return ",".join(["L%d" % len(e[1])] + [expected_text(x) for x in e[1]])
    if k == "R":
        return ",".join(["L%d" % e[1]] + [expected_text(e[2])] * e[1])
    if k == "S":                 # an equal structure: the plain list / int / float / bytes with the same value
        return expected_text(e[2])
    return "o"


def in_limits(e, lim):
    k = e[0]
    if k == "i":
        return -(2 ** (7 * lim)) + 1 <= int(e[1]) <= 2 ** (7 * lim) - 1
    if k == "f":
        return True
    if k == "b":
        return len(e[1]) // 2 <= SIZE_LIMIT
    if k == "Z":
        return e[1] <= SIZE_LIMIT
    if k in "LT":
        return len(e[1]) <= SIZE_LIMIT and all(in_limits(x, lim) for x in e[1])
    if k == "R":
        return e[1] <= SIZE_LIMIT and (e[1] == 0 or in_limits(e[2], lim))
    if k == "S":
        return in_limits(e[2], lim)
    return False


def kinds(e, acc=None, depth=0):
    acc = set() if acc is None else acc
    k = e[0]
    d = depth
    if k == "i":
        n = int(e[1])
        acc.add("long-" if n < -2**31 else "neg" if n < 0 else "int" if n <= 2**31 - 1 else "long+")
    elif k in "bZ":
        b = bytes.fromhex(e[1]) if k == "b" else None
        acc.add("vocab" if b in VOCAB else "str")
    elif k in "LT":
        acc.add(k)
        for x in e[1]:
            d = max(d, kinds(x, acc, depth + 1)[1])
    elif k == "R":
        acc.add("L")
        d = max(d, kinds(e[2], acc, depth + 1)[1])
    elif k == "S":
        acc.add("sub")
        d = max(d, kinds(e[2], acc, depth)[1])
    elif k == "o":
        acc.add("o" if len(e) == 1 else "o-" + e[1].split("-")[0][:5])
    else:
        acc.add(k)
    return acc, d


# ----------------------------------------------------------------------------------------
# the real code

def _proto(d, lim, g=0):
    """g=0: the limit is set on the instance after the connection is made (Banana.setPrefixLimit);
    g=1: the limit is the module-wide one (banana.setPrefixLimit, "for all Banana connections established after this
    call") in force when the connection is made — the instance method is never called by the harness"""
    p = banana.Banana()
    t = StringTransport()
    if g:
        banana.setPrefixLimit(lim)
        try:
            p.makeConnection(t)
        finally:
            banana.setPrefixLimit(64)     # connections made later (other cases) get the default again
    else:
        p.makeConnection(t)       # connectionMade: prefix limit, currentDialect = None (client: sends nothing)
        p.setPrefixLimit(lim)
    p._selectDialect(d.encode())
    return p, t


def _encode(d, lim, value, g=0):
    p, t = _proto(d, lim, g)
    try:
        p.sendEncoded(value)
    except banana.BananaError:
        if t.value():
            return "partial-write"
        return None
    return t.value()


def DECODE_ERRORS():
    return (banana.BananaError, NotImplementedError, KeyError, AssertionError)


def _decode(d, lim, chunks, g=0):
    p, _ = _proto(d, lim, g)
    got = []
    p.expressionReceived = got.append
    err = "-"
    for ch in chunks:
        try:
            p.dataReceived(ch)
        except DECODE_ERRORS() as ex:
            err = type(ex).__name__
            break
    return "exprs=" + "/".join(show_py(v) for v in got) + "|err=" + err


def cut(bs, sizes):
    out = []
    for n in sizes:
        out.append(bs[:n])
        bs = bs[n:]
    if bs:
        out.append(bs)
    return out


def _run_sess(c):
    """two connected Bananas A and B (same dialect / prefix limit), each sending and receiving; every byte a side writes
    stays pending until a `d` step (or the final flush) hands it to the peer's dataReceived"""
    d, lim, echo, g = c["d"], c["lim"], c["echo"], c.get("g", 0)
    A, tA = _proto(d, lim, g)
    B, tB = _proto(d, lim, g)
    proto = {"A": A, "B": B}
    tr = {"A": tA, "B": tB}
    got = {"A": [], "B": []}
    err = {"A": "-", "B": "-"}           # exception that escaped that side's dataReceived
    done = {"A": 0, "B": 0}              # bytes of that side's transport already delivered
    A.expressionReceived = got["A"].append

    def recvB(x):
        got["B"].append(x)
        if echo:                         # answer from inside dataReceived, as pb does
            try:
                B.sendEncoded(x)
            except banana.BananaError:
                pass
    B.expressionReceived = recvB

    def deliver(side, n):
        dst = "B" if side == "A" else "A"
        if err[dst] != "-":
            return 0
        data = tr[side].value()[done[side]:done[side] + n]
        done[side] += len(data)
        before = len(got[dst])
        try:
            proto[dst].dataReceived(data)
        except DECODE_ERRORS() as ex:
            err[dst] = type(ex).__name__
        return len(got[dst]) - before

    outs = []
    for st in c["steps"]:
        if st[0] == "s":
            side = st[1]
            before = len(tr[side].value())
            try:
                proto[side].sendEncoded(to_py(st[2]))
            except banana.BananaError:
                outs.append("!BananaError" if len(tr[side].value()) == before else "!BananaError+partial-write")
            else:
                outs.append("ok=" + show_bytes(tr[side].value()[before:]))
        else:
            outs.append("r%d" % deliver(st[1], st[2]))
    for side in "AB":
        if len(tr[side].value()) > done[side]:
            deliver(side, len(tr[side].value()) - done[side])
    return (";".join(outs) + "|B<exprs=" + "/".join(show_py(v) for v in got["B"]) + ",err=" + err["B"]
            + "|A<exprs=" + "/".join(show_py(v) for v in got["A"]) + ",err=" + err["A"])


def _mod_decode(data):
    try:
        return "v=" + show_py(banana.decode(data))
    except DECODE_ERRORS() + (IndexError,) as ex:
        return "!" + type(ex).__name__


def _run_mod(c):
    """banana.encode / banana.decode: ONE shared instance behind them, (re)created by importing the module"""
    importlib.reload(banana)
    outs = []
    for st in c["steps"]:
        if st[0] == "x":
            outs.append(_mod_decode(bytes.fromhex(st[1])))
            continue
        try:
            b = banana.encode(to_py(st[1]))
        except banana.BananaError:
            outs.append("!BananaError")
            continue
        outs.append("ok=" + show_bytes(b) if st[0] == "e" else _mod_decode(b))
    return ";".join(outs)


def run_impl(c):
    if c["op"] == "sess":
        return _run_sess(c)
    if c["op"] == "mod":
        return _run_mod(c)
    d, lim, g = c["d"], c["lim"], c.get("g", 0)
    if c["op"] == "enc":
        b = _encode(d, lim, to_py(c["e"]), g)
        return "!raised BananaError" if b is None else b if isinstance(b, str) else show_bytes(b)
    if c["op"] == "dec":
        return _decode(d, lim, [bytes.fromhex(x) for x in c["chunks"]], g)
    b = _encode(d, lim, to_py(c["e"]), g)
    if b is None:
        return "enc=!raised BananaError"
    if isinstance(b, str):
        return "enc=" + b
    return "enc=" + show_bytes(b) + "|" + _decode(d, lim, cut(b, c["sizes"]), g)


def model_line(c):
    if c["op"] == "sess":
        steps = [f"s{st[1]}:{wire(st[2])}" if st[0] == "s" else f"d{st[1]}:{st[2]}" for st in c["steps"]]
        return f"sess {c['d']} {c['lim']} {c['echo']} " + (";".join(steps) or ".")
    if c["op"] == "mod":
        return "mod " + ";".join(f"x:{st[1] or '-'}" if st[0] == "x" else f"{st[0]}:{wire(st[1])}" for st in c["steps"])
    if c["op"] == "enc":
        return f"enc {c['d']} {c['lim']} {wire(c['e'])}"
    if c["op"] == "dec":
        return f"dec {c['d']} {c['lim']} " + (";".join(x if x else "-" for x in c["chunks"]) or ".")
    return f"rt {c['d']} {c['lim']} {wire(c['e'])} " + (",".join(map(str, c["sizes"])) if c["sizes"] else "-")


# ----------------------------------------------------------------------------------------
# the property on the implementation (independent of the model)

def _has_empty_delivery(c):
    if c["op"] == "dec":
        return any(x == "" for x in c["chunks"])
    return 0 in c.get("sizes", [])


def _is_merge(z, x, y):
    """is z an interleaving of x and y (each keeping its own order)?"""
    if len(z) != len(x) + len(y):
        return False
    reach = {(0, 0)}
    for k, item in enumerate(z):
        nxt = set()
        for (i, j) in reach:
            if i < len(x) and x[i] == item:
                nxt.add((i + 1, j))
            if j < len(y) and y[j] == item:
                nxt.add((i, j + 1))
        reach = nxt
        if not reach:
            return False
    return True


def _delivered_out_of_limit(out, lim):
    """first token of a decoded-expressions text (`exprs=…|err=…`) that denotes a value outside the limits, else None"""
    body = out.split("exprs=", 1)[-1].rsplit("|err=", 1)[0]
    for tok in body.replace("/", ",").split(","):
        if tok[:1] == "i" and not (-(2 ** (7 * lim)) + 1 <= int(tok[1:]) <= 2 ** (7 * lim) - 1):
            return tok
        if tok[:1] == "L" and int(tok[1:]) > SIZE_LIMIT:
            return tok
        if tok[:2] == "b~" and int(tok[2:].split(".")[0]) > SIZE_LIMIT:
            return tok
    return None


def _send_verdict(e, lim, token):
    """the refusal half of the property for one sendEncoded / banana.encode call"""
    ok = in_limits(e, lim)
    if "partial-write" in token:
        return {"key": "partial-write", "detail": "a refused value left bytes on the transport"}
    if not ok and not token.startswith("!BananaError"):
        return {"key": "encode-accepts-out-of-limit", "detail": f"{describe(e)[:200]} lim={lim}: {token[:200]}"}
    if ok and token.startswith("!"):
        return {"key": "encode-refuses-in-limit", "detail": f"{describe(e)[:200]} lim={lim}: {token[:100]}"}
    return None


def _oracle_sess(c, out):
    """every value within the limits that either side sends arrives at the peer as the equal structure, in order, whatever
    was sent, refused or delivered before on the same two Bananas; out-of-limit values are refused and leave no trace"""
    lim = c["lim"]
    try:
        steps_txt, b_txt, a_txt = out.split("|")
        toks = steps_txt.split(";") if steps_txt else []
        assert len(toks) == len(c["steps"]) and b_txt.startswith("B<exprs=") and a_txt.startswith("A<exprs=")
    except (ValueError, AssertionError):
        return {"key": "unexpected-exception", "detail": out[:300]}
    sent = {"A": [], "B": []}
    for st, tok in zip(c["steps"], toks):
        if st[0] != "s":
            continue
        v = _send_verdict(st[2], lim, tok)
        if v:
            return v
        if in_limits(st[2], lim):
            sent[st[1]].append(expected_text(st[2]))
    if lim < 3:
        return None
    got, err = {}, {}
    for name, txt in (("B", b_txt), ("A", a_txt)):
        body, err[name] = txt[len("B<exprs="):].rsplit(",err=", 1)
        got[name] = body.split("/") if body else []
    hist = ";".join((f"s{st[1]}:{describe(st[2])[:60]}" if st[0] == "s" else f"d{st[1]}:{st[2]}") for st in c["steps"])[:500]
    for name, peer in (("B", "A"), ("A", "B")):
        if err[name] != "-":
            key = "empty-delivery-assert" if err[name] == "AssertionError" else "roundtrip-after-history"
            return {"key": key, "detail": f"dialect={c['d']} lim={lim} echo={c['echo']} [{hist}]: {name}.dataReceived raised {err[name]}"}
    if got["B"] != sent["A"]:
        return {"key": "roundtrip-after-history", "detail": f"dialect={c['d']} lim={lim} echo={c['echo']} [{hist}]: B received "
                f"{'/'.join(got['B'])[:300]} but A sent {'/'.join(sent['A'])[:300]}"}
    want_a_ok = _is_merge(got["A"], sent["B"], got["B"]) if c["echo"] else got["A"] == sent["B"]
    if not want_a_ok:
        return {"key": "roundtrip-after-history", "detail": f"dialect={c['d']} lim={lim} echo={c['echo']} [{hist}]: A received "
                f"{'/'.join(got['A'])[:300]} but B sent {'/'.join(sent['B'])[:300]}"
                + (f" and echoed {'/'.join(got['B'])[:200]}" if c["echo"] else "")}
    return None


def _oracle_mod(c, out):
    """banana.encode / banana.decode: refusals, and decode(encode(v)) == v whatever the helpers were given before"""
    toks = out.split(";")
    if len(toks) != len(c["steps"]):
        return {"key": "unexpected-exception", "detail": out[:300]}
    hist = ";".join(f"{st[0]}:{st[1][:40] if st[0] == 'x' else describe(st[1])[:60]}" for st in c["steps"])[:500]
    for st, tok in zip(c["steps"], toks):
        if st[0] == "x":
            continue
        if st[0] == "e" or not in_limits(st[1], 64):
            v = _send_verdict(st[1], 64, tok if tok.startswith(("ok=", "!BananaError")) else "ok=?")
            if v:
                return v
            continue
        if tok != "v=" + expected_text(st[1]):
            return {"key": "roundtrip-after-history", "detail": f"banana.decode(banana.encode({describe(st[1])[:200]})) gave {tok[:300]} "
                    f"in the history [{hist}]"}
    return None


def oracle(c, out):
    if out.startswith("!raised") and not (c["op"] == "enc" and out == "!raised BananaError"):
        return {"key": "unexpected-exception", "detail": out}
    if c["op"] == "sess":
        return _oracle_sess(c, out)
    if c["op"] == "mod":
        return _oracle_mod(c, out)
    lim = c["lim"]
    if c["op"] in ("enc", "rt"):
        ok = in_limits(c["e"], lim)
        refused = out in ("!raised BananaError", "enc=!raised BananaError")
        if "partial-write" in out:
            return {"key": "partial-write", "detail": "a refused value left bytes on the transport"}
        if not ok and not refused:
            return {"key": "encode-accepts-out-of-limit", "detail": f"{describe(c['e'])[:200]} lim={lim}{' (module-wide limit)' if c.get('g') else ''}: {out[:200]}"}
        if ok and refused:
            return {"key": "encode-refuses-in-limit", "detail": f"{describe(c['e'])[:200]} lim={lim}{' (module-wide limit)' if c.get('g') else ''}"}
        if c["op"] == "enc" or not ok or lim < 3:
            return None
        want = "exprs=" + expected_text(c["e"]) + "|err=-"
        got = out.split("|", 1)[1]
        if got != want:
            if "err=AssertionError" in got and _has_empty_delivery(c):
                key = "empty-delivery-assert"
            else:
                key = "roundtrip"
            return {"key": key, "detail": f"dialect={c['d']} lim={lim}{' (module-wide limit)' if c.get('g') else ''} sizes={c['sizes'][:20]} "
                    f"value={describe(c['e'])[:200]}: decoded {got[:300]} expected {want[:300]}"}
        return None
    # whatever the stream: nothing outside the limits is ever delivered (an over-long prefix / oversized length is refused)
    bad = _delivered_out_of_limit(out, lim)
    if bad:
        return {"key": "decode-delivers-out-of-limit", "detail": f"lim={lim}: delivered {bad[:120]}"}
    # dec with a recipe: valid items then an over-long prefix / oversized length must be refused
    exp = c.get("expect")
    if exp is not None:
        want = "exprs=" + "/".join(exp["exprs"]) + "|err=" + exp["err"]
        if out != want:
            key = "empty-delivery-assert" if ("err=AssertionError" in out and _has_empty_delivery(c)) else "refusal"
            return {"key": key, "detail": f"{c.get('why', '')}: got {out[:300]} expected {want[:300]}"}
    return None


# ----------------------------------------------------------------------------------------
# generation

def _i(n):
    return ["i", n]


def _f(bits):
    return ["f", "%016x" % bits]


FLOATS = [0x0000000000000000, 0x8000000000000000, 0x7FF0000000000000, 0xFFF0000000000000, 0x7FF8000000000000,
          0x7FF8000000000001, 0xFFF8000000000000, 0x7FF0000000000001, 0x7FF4000000000000, 0xFFFFFFFFFFFFFFFF,
          0x0000000000000001, 0x000FFFFFFFFFFFFF, 0x0010000000000000, 0x7FEFFFFFFFFFFFFF, 0x3FF0000000000000,
          0x400921FB54442D18, 0x8081828384858687, 0x0102030405060708]


def _int(rng, lim):
    B = 2 ** (7 * lim)
    r = rng.random()
    if r < 0.35:
        base = rng.choice([0, 1, 127, 128, 16383, 16384, 2**31 - 1, 2**31, 2**31 + 1, 2**32, 2**63, 2**64, B - 1, B - 2])
        return _i(rng.choice([1, -1]) * base + rng.choice([0, 0, 0, 1, -1]))
    if r < 0.45:
        return _i(rng.choice([1, -1]) * rng.choice([B, B + 1, 2 * B, B * 128, B * B]))      # out of range
    return _i(rng.choice([1, -1]) * rng.getrandbits(rng.choice([3, 7, 8, 14, 31, 32, 33, 64, 100, max(1, 7 * lim - 1), 7 * lim])))


def _bytes(rng, tier, big=True):
    r = rng.random()
    if r < 0.25:
        return ["b", rng.choice(VOCAB).hex()]
    if r < 0.32:
        w = rng.choice(VOCAB)
        return ["b", rng.choice([w + b"x", w[:-1], w.upper(), b"", b"none", w + b"\x00"]).hex()]
    if r < 0.36 and big:
        n = rng.choice([127, 128, 129, 16383, 16384, 16385])
        return ["Z", n, "%02x" % rng.choice([0, 0x41, 0x7F, 0x80, 0x82, 0xFF])]
    if r < 0.375 and big:
        n = rng.choice([SIZE_LIMIT - 1, SIZE_LIMIT, SIZE_LIMIT + 1, SIZE_LIMIT + 200])
        return ["Z", n, "%02x" % rng.choice([0, 0x41, 0x80, 0xFF])]
    n = rng.choice([0, 1, 1, 2, 3, 5, 8, 13, 40])
    alpha = [0, 1, 0x41, 0x7F, 0x80, 0x81, 0x82, 0x83, 0x84, 0x85, 0x86, 0x87, 0x88, 0xFF]
    return ["b", bytes(rng.choice(alpha) if rng.random() < 0.7 else rng.randrange(256) for _ in range(n)).hex()]


def _other(rng):
    """a value of a type Banana does not send"""
    return ["o"] if rng.random() < 0.25 else ["o", rng.choice(sorted(OTHERS))]


def _sub(rng, e):
    """the same value as an instance of a subclass of its type"""
    k = e[0]
    if k == "i":
        how = rng.choice(["sub", "sub", "enum", "flag", "bool"])
        if int(e[1]) in (0, 1) and rng.random() < 0.6:
            how = "bool"
    elif k == "T":
        how = rng.choice(["sub", "nt"])
    else:
        how = "sub"
    return ["S", how, e]


def _expr(rng, tier, lim, depth, big=True):
    e = _expr0(rng, tier, lim, depth, big)
    if e[0] != "o" and rng.random() < 0.07:
        return _sub(rng, e)
    return e


def _expr0(rng, tier, lim, depth, big=True):
    r = rng.random()
    if depth > 0 and r < 0.42:
        n = rng.choice([0, 0, 1, 1, 2, 2, 3, 4, 6])
        return [rng.choice("LLT"), [_expr(rng, tier, lim, depth - 1, big=False) for _ in range(n)]]
    if r < 0.43 and depth > 0 and big:
        return ["R", rng.choice([127, 128, 129, 300]), _expr(rng, tier, lim, 0, big=False)]
    if r < 0.62:
        return _int(rng, lim)
    if r < 0.74:
        return _f(rng.choice(FLOATS) if rng.random() < 0.7 else rng.getrandbits(64))
    if r < 0.97:
        return _bytes(rng, tier, big)
    return _other(rng)


def _deep(rng, tier, lim, levels=None):
    """a structure nested `levels` deep (5..12 lists / tuples inside each other, siblings before and after at every level)"""
    levels = levels or rng.choice([5, 6, 6, 6, 6, 7, 7, 8, 9, 12])
    e = _valid(rng, tier, lim, 0) if rng.random() < 0.7 else ["L", []]
    for _ in range(levels - (1 if e[0] in "LT" else 0)):
        pre = [_valid(rng, tier, lim, rng.choice([0, 0, 1])) for _ in range(rng.choice([0, 0, 1, 2]))]
        post = [_valid(rng, tier, lim, rng.choice([0, 0, 1])) for _ in range(rng.choice([0, 0, 0, 1, 2]))]
        e = [rng.choice("LLT"), pre + [e] + post]
    return e


def _sizes(rng, total, empties):
    """delivery sizes; the remainder of the stream is the last delivery"""
    r = rng.random()
    if r < 0.2 or total == 0:
        s = []
    elif r < 0.4 and total <= 400:
        s = [1] * total
    elif r < 0.5:
        s = [rng.randrange(total + 1)]
    else:
        s, left = [], total
        while left > 0 and len(s) < 40:
            n = min(left, rng.choice([1, 1, 2, 3, 5, 8, rng.randint(1, max(1, total))]))
            s.append(n)
            left -= n
    if empties and (s or total):
        s = list(s)
        for _ in range(rng.choice([1, 1, 2, 3])):
            s.insert(rng.randrange(len(s) + 1), 0)
    return s


def _lim(rng):
    return rng.choice([64, 64, 64, 64, 64, 64, 10, 5, 3, 3, 2, 1])


G_SHARE = 0.3     # share of the cases whose prefix limit comes from the module-wide banana.setPrefixLimit


def _real_len(c):
    b = _encode(c["d"], c["lim"], to_py(c["e"]))
    return len(b) if isinstance(b, bytes) else 0


def _digits(n):
    out = bytearray()
    if n == 0:
        return b"\0"
    while n:
        out.append(n & 0x7F)
        n >>= 7
    return bytes(out)


def _recipe(rng, tier):
    """valid top-level items, then (possibly inside open lists) an item that must be refused"""
    d, lim = rng.choice(["pb", "none"]), rng.choice([64, 64, 64, 5, 3])
    pre = []
    for _ in range(rng.choice([0, 0, 1, 2])):
        while True:
            e = _expr(rng, tier, lim, 2, big=False)
            if in_limits(e, lim):
                break
        pre.append(e)
    stream = b"".join(_encode(d, lim, to_py(e)) for e in pre)
    for _ in range(rng.choice([0, 0, 1, 2])):          # open lists around the bad item
        n = rng.randint(1, 5)
        stream += _digits(n) + b"\x80"
        for _ in range(rng.randrange(n)):
            stream += _encode(d, lim, rng.choice([1, -5, b"x", 2.5, []]))
    kind = rng.choice(["longprefix", "longprefix-notype", "biglist", "bigstring"])
    if kind.startswith("longprefix"):
        with_type = kind == "longprefix"
        k = rng.choice([lim + 1, lim + 1, lim + 2, lim + 30])
        bad = bytes(rng.randrange(128) for _ in range(k))
        r = rng.random()
        if r < 0.3:                # a small number padded with high-order zero digits beyond the limit
            m = rng.choice([0, 1, 1, 2, min(3, lim)])
            bad = bad[:m] + b"\0" * (k - m)
            kind += "-zeropad"
        elif r < 0.4:              # zero digits in front (low-order), the number itself is huge
            m = rng.randint(1, k - 1)
            bad = b"\0" * m + bad[m:-1] + bytes([rng.randint(1, 127)])
        if with_type:
            bad += bytes([rng.choice([0x80, 0x81, 0x82, 0x83, 0x84, 0x85, 0x86, 0x87, 0x88, 0xFF])]) + b"abc"
    else:
        n = rng.choice([SIZE_LIMIT + 1, SIZE_LIMIT + 2, 2**21, 2**21 - 1, 128**3, rng.randrange(SIZE_LIMIT + 1, 128**3)])
        dg = _digits(n)
        dg += b"\0" * rng.choice([0, 0, lim - len(dg)])
        bad = dg + (b"\x80" if kind == "biglist" else b"\x82") + b"xyz"
    stream += bad
    chunks = cut(stream, _sizes(rng, len(stream), rng.random() < 0.15))
    c = {"op": "dec", "d": d, "lim": lim, "chunks": [x.hex() for x in chunks], "why": kind,
         "expect": {"exprs": [expected_text(e) for e in pre], "err": "BananaError"}}
    if rng.random() < G_SHARE:
        c["g"] = 1
    return c


def _mutated(rng, tier):
    d, lim = rng.choice(["pb", "none"]), _lim(rng)
    parts = []
    for _ in range(rng.randint(1, 4)):
        e = _expr(rng, tier, lim, 3, big=False)
        b = _encode(d, lim, to_py(e))
        if isinstance(b, bytes):
            parts.append(b)
    s = bytearray(b"".join(parts))
    for _ in range(rng.choice([0, 1, 1, 2, 3])):
        r = rng.random()
        pos = rng.randrange(len(s) + 1)
        if r < 0.3 and s:
            s[pos % len(s)] = rng.choice([0x80, 0x81, 0x82, 0x83, 0x84, 0x85, 0x86, 0x87, 0x88, 0xFF, 0, 0x7F, rng.randrange(256)])
        elif r < 0.5 and s:
            del s[pos % len(s)]
        elif r < 0.7:
            s[pos:pos] = bytes(rng.randrange(128) for _ in range(rng.choice([1, 2, lim, lim + 1])))
        elif r < 0.85:
            s[pos:pos] = _digits(rng.choice([0, 1, 31, 32, 33, 127, 128, 200])) + b"\x87"
        else:
            del s[pos:]
    s = bytes(s)
    chunks = cut(s, _sizes(rng, len(s), rng.random() < 0.1))
    c = {"op": "dec", "d": d, "lim": lim, "chunks": [x.hex() for x in chunks]}
    if rng.random() < G_SHARE:
        c["g"] = 1
    return c


def _rt(rng, tier, e=None, d=None, lim=None, empties=None):
    d = d or rng.choice(["pb", "none"])
    lim = lim or _lim(rng)
    e = e or (_deep(rng, tier, lim) if rng.random() < 0.07 else _expr(rng, tier, lim, rng.choice([0, 1, 2, 3, 4, 6])))
    c = {"op": "rt", "d": d, "lim": lim, "e": e, "sizes": []}
    if rng.random() < G_SHARE:
        c["g"] = 1
    n = _real_len(c)
    c["sizes"] = _sizes(rng, n, (rng.random() < 0.12) if empties is None else empties)
    return c


def _enc(rng, tier):
    """sendEncoded of one value on a fresh connection: accepted (bytes compared with the model) or refused"""
    lim = _lim(rng)
    r = rng.random()
    if r < 0.15:
        e = _other(rng)
    elif r < 0.3:
        e = _nested_bad(rng, tier, lim)
    elif r < 0.36:
        e = _deep(rng, tier, lim)
    elif r < 0.363 and tier == "thorough":     # a list / tuple of exactly (one less than) SIZE_LIMIT elements — ~1 s each
        e = [rng.choice(["R", "R", "TR"]), SIZE_LIMIT - rng.choice([0, 0, 1]), rng.choice([_i(0), _i(-1), ["L", []], _f(0)])]
        e = ["R"] + e[1:] if e[0] == "R" else ["S", "sub", ["R"] + e[1:]]
    else:
        e = _expr(rng, tier, lim, 3)
    c = {"op": "enc", "d": rng.choice(["pb", "none"]), "lim": lim, "e": e}
    if rng.random() < G_SHARE:
        c["g"] = 1
    return c


def _valid(rng, tier, lim, depth, big=False):
    while True:
        e = _expr(rng, tier, lim, depth, big=big)
        if in_limits(e, lim):
            return e


def _bad_leaf(rng, lim):
    """a value _encode must refuse: integer beyond the range, byte string / list beyond SIZE_LIMIT, unsupported type"""
    B = 2 ** (7 * lim)
    r = rng.random()
    if r < 0.55:
        return _i(rng.choice([1, -1]) * rng.choice([B, B, B + 1, 2 * B, B * 128]))
    if r < 0.62:
        return ["Z", SIZE_LIMIT + rng.choice([1, 1, 2, 200]), "%02x" % rng.choice([0x41, 0x80])]
    if r < 0.69:
        return ["R", SIZE_LIMIT + rng.choice([1, 1, 5]), _i(rng.choice([0, -1]))]
    if r < 0.74:                   # out of range AND an instance of a subclass
        return ["S", "sub", _i(rng.choice([1, -1]) * rng.choice([B, B + 1]))]
    return _other(rng)


def _nested_bad(rng, tier, lim):
    """an out-of-limit value INSIDE a structure: _encode has already written list headers / earlier elements when it refuses"""
    e = _bad_leaf(rng, lim)
    for _ in range(rng.choice([1, 1, 1, 2, 2, 3, 5])):
        pre = [_valid(rng, tier, lim, rng.choice([0, 0, 1, 2])) for _ in range(rng.choice([0, 1, 1, 2, 3]))]
        post = [_valid(rng, tier, lim, rng.choice([0, 0, 1])) for _ in range(rng.choice([0, 0, 1, 2]))]
        e = [rng.choice("LLT"), pre + [e] + post]
    return e


def _send_value(rng, tier, lim):
    r = rng.random()
    if r < 0.38:
        return _nested_bad(rng, tier, lim)
    if r < 0.45:
        return _bad_leaf(rng, lim)
    if r < 0.48:
        return _valid(rng, tier, lim, 1, big=True)
    if r < 0.53:
        return _deep(rng, tier, lim)
    return _valid(rng, tier, lim, rng.choice([0, 1, 1, 2, 2, 3, 4]))


def _sess(rng, tier):
    """a history on two connected Bananas: sends (legal, refused at top level, refused part-way through a structure) from
    either side, interleaved with partial / empty / whole deliveries; optionally B echoes from inside dataReceived"""
    d, lim = rng.choice(["pb", "none"]), rng.choice([64, 64, 64, 64, 64, 10, 5, 3, 3, 2, 1])
    steps = []
    pa = rng.choice([1.0, 1.0, 0.7, 0.5])
    for _ in range(rng.choice([2, 2, 3, 3, 4, 5, 7])):
        steps.append(["s", "A" if rng.random() < pa else "B", _send_value(rng, tier, lim)])
        for _ in range(rng.choice([0, 0, 0, 1, 1, 2, 3])):
            steps.append(["d", rng.choice("AAB") if pa < 1 else "A", rng.choice([0, 1, 1, 2, 3, 5, 8, 13, 50, 10**6])])
    c = {"op": "sess", "d": d, "lim": lim, "echo": 1 if rng.random() < 0.3 else 0, "steps": steps}
    if rng.random() < G_SHARE:
        c["g"] = 1
    return c


def _raw(rng, tier):
    """bytes for banana.decode: a valid stream cut short, one with an oversized prefix inside open lists, two expressions, junk"""
    good = _encode("none", 64, to_py(_valid(rng, tier, 64, rng.choice([1, 2, 3]))))
    r = rng.random()
    if r < 0.3 and len(good) > 1:
        return good[:rng.randrange(1, len(good))]
    if r < 0.45:                   # one or two complete expressions, THEN something left open: a truncated expression, open
        more = _encode("none", 64, to_py(_valid(rng, tier, 64, rng.choice([1, 2, 3]))))       # lists, a refused item in a list
        tail = rng.choice([more[:rng.randrange(1, len(more))] if len(more) > 1 else b"\x01",
                           _digits(rng.randint(1, 4)) + b"\x80",
                           _digits(rng.randint(2, 4)) + b"\x80" + _encode("none", 64, 7) + b"\x01\x80",
                           _digits(rng.randint(1, 4)) + b"\x80" + b"\x01" * 65 + b"\x81",
                           b"\x02\x80" + _digits(SIZE_LIMIT + 1) + b"\x82"])
        return good + (_encode("none", 64, 5) if rng.random() < 0.3 else b"") + tail
    if r < 0.6:
        return _digits(rng.randint(1, 4)) + b"\x80" + _encode("none", 64, 7) * rng.randint(0, 1) + b"\x01" * 65 + b"\x81"
    if r < 0.7:
        return _digits(rng.randint(2, 5)) + b"\x80" + good
    if r < 0.8:
        return good + _encode("none", 64, to_py(_valid(rng, tier, 64, 1)))
    if r < 0.9:
        return good
    return bytes(rng.choice([0, 1, 2, 0x80, 0x81, 0x82, 0x87, 0x88, 0x41]) for _ in range(rng.randint(0, 6)))


def _mod(rng, tier):
    """a history on the module-level helpers (they share one Banana): encode of legal / refused values, decode of raw bytes
    (truncated, refused, several expressions), decode(encode(v))"""
    steps = []
    for _ in range(rng.choice([2, 3, 3, 4, 5, 6])):
        r = rng.random()
        if r < 0.3:
            steps.append(["e", _send_value(rng, tier, 64)])
        elif r < 0.55:
            steps.append(["x", _raw(rng, tier).hex()])
        else:
            steps.append(["r", _send_value(rng, tier, 64) if rng.random() < 0.15 else _valid(rng, tier, 64, rng.choice([0, 1, 2, 3]))])
    if steps[-1][0] != "r":
        steps.append(["r", _valid(rng, tier, 64, rng.choice([0, 1, 2]))])
    return {"op": "mod", "steps": steps}


def _history_corpus():
    L = lambda *xs: ["L", list(xs)]
    T = lambda *xs: ["T", list(xs)]
    b = lambda x: ["b", x.hex()]
    B = 2**448
    follow = [L(_i(1), L(_f(0x4004000000000000), b(b"three")), b(b"list"), _i(-4)), _i(7), b(b"tail"), L(L(), L(L(_f(0x8000000000000000))))]
    refused = [L(_i(1), b(b"x"), _i(B)), L(L(b(b"copy"), L(_i(-B)))), L(_i(3), L(["Z", SIZE_LIMIT + 1, "61"])),
               L(_f(0x3FF8000000000000), T(["o"])), T(_i(5), ["R", SIZE_LIMIT + 1, _i(0)], _i(6))]
    out = []
    for k, bad in enumerate(refused):
        steps = [["s", "A", bad]] + [["s", "A", e] for e in follow]
        out.append({"op": "sess", "d": "pb" if k % 2 else "none", "lim": 64, "echo": 0, "steps": steps})
    # refusals between legal sends, both directions, partial deliveries in between, B echoing
    out.append({"op": "sess", "d": "pb", "lim": 64, "echo": 1, "steps": [
        ["s", "A", follow[0]], ["d", "A", 3], ["s", "A", refused[0]], ["d", "A", 0], ["s", "B", refused[1]], ["s", "B", follow[1]],
        ["d", "A", 5], ["s", "A", follow[2]], ["d", "B", 2], ["s", "B", refused[3]], ["s", "A", refused[2]], ["s", "A", follow[3]]]})
    out.append({"op": "sess", "d": "none", "lim": 3, "echo": 0, "steps": [
        ["s", "A", L(_i(2**21 - 1), _i(2**21))], ["s", "A", L(_i(-(2**21) + 1))], ["s", "B", L(_i(1), L(_i(-(2**21))))], ["s", "B", _i(0)]]})
    out.append({"op": "sess", "d": "none", "lim": 64, "echo": 0, "steps": [["s", "A", _i(B)], ["s", "A", ["o"]], ["s", "A", _i(1)]]})
    out.append({"op": "sess", "d": "none", "lim": 64, "echo": 1, "steps": []})
    # the shared instance behind banana.encode / banana.decode
    out.append({"op": "mod", "steps": [["e", L(_i(1), L(_i(2), _i(B)))]] + [["r", e] for e in follow]})
    out.append({"op": "mod", "steps": [["e", refused[2]], ["e", follow[0]], ["e", refused[3]], ["r", follow[3]]]})
    # witness of the defect repaired by `fix: banana.decode() leaves no open lists behind …`: a truncated list, then a round trip
    out.append({"op": "mod", "steps": [["x", "02800181"], ["r", L(_i(1), _i(2))]]})
    out.append({"op": "mod", "steps": [["x", "0280"], ["r", _i(5)], ["r", _i(6)], ["r", L()]]})
    out.append({"op": "mod", "steps": [["x", "0380" + "01" * 65 + "81"], ["r", L(b(b"a"))]]})
    out.append({"op": "mod", "steps": [["x", "0582" + "6162"], ["x", ""], ["r", b(b"cd")]]})
    out.append({"op": "mod", "steps": [["x", "01810281"], ["x", "0187"], ["r", T(_i(1))]]})
    return out


def _audit_corpus():
    """boundary / unusual values found missing by the white-box mutation audit (harness/mutants/C44/m11…m24)"""
    L = lambda *xs: ["L", list(xs)]
    T = lambda *xs: ["T", list(xs)]
    b = lambda x: ["b", x.hex()]
    S = lambda how, e: ["S", how, e]
    B = 2**448
    nest = lambda n, leaf: leaf if n == 0 else L(nest(n - 1, leaf))
    out = [
        # a list of exactly SIZE_LIMIT elements is within the limits (encoding only: decoding 655360 items is quadratic)
        {"op": "enc", "d": "none", "lim": 64, "e": ["R", SIZE_LIMIT, _i(0)]},
        # instances of subclasses of the supported types are lists / tuples / ints / floats / byte strings
        {"op": "rt", "d": "pb", "lim": 64, "sizes": [3, 1],
         "e": L(S("nt", T(_i(1), b(b"x"))), S("sub", L(_i(2))), S("bool", _i(1)), S("bool", _i(0)), S("enum", _i(2**31)),
                S("sub", _f(0x8000000000000000)), S("sub", b(b"list")), S("sub", T()), S("flag", _i(5)), S("sub", _i(-B + 1)))},
        {"op": "rt", "d": "none", "lim": 64, "sizes": [], "e": S("sub", L(S("sub", b(b"list")), S("sub", ["Z", 130, "80"])))},
        {"op": "rt", "d": "none", "lim": 64, "sizes": [1], "e": S("bool", _i(1))},
        {"op": "enc", "d": "none", "lim": 64, "e": S("sub", _i(B))},
        {"op": "enc", "d": "none", "lim": 3, "e": L(_i(1), S("enum", _i(2**21)))},
        # structures nested deeper than the generator's usual 4 levels
        {"op": "rt", "d": "none", "lim": 64, "sizes": [2, 2, 2], "e": nest(6, _i(1))},
        {"op": "rt", "d": "pb", "lim": 64, "sizes": [], "e": nest(6, L())},
        {"op": "rt", "d": "none", "lim": 64, "sizes": [5], "e": L(_i(1), T(_i(2), L(_i(3), T(_i(4), L(_i(5), T(_i(6), L(b(b"deep")), _i(7))))), _i(8)))},
        {"op": "rt", "d": "none", "lim": 3, "sizes": [], "e": nest(12, _f(0x3FF8000000000000))},
        # the module-wide prefix limit (banana.setPrefixLimit before the connection is made)
        {"op": "rt", "d": "none", "lim": 3, "g": 1, "sizes": [1], "e": L(_i(2**21 - 1), _i(-(2**21) + 1))},
        {"op": "enc", "d": "none", "lim": 3, "g": 1, "e": _i(2**21)},
        {"op": "enc", "d": "pb", "lim": 5, "g": 1, "e": L(_i(1), _i(-(2**35)))},
        {"op": "dec", "d": "none", "lim": 3, "g": 1, "chunks": ["01010101", "81"], "why": "longprefix",
         "expect": {"exprs": [], "err": "BananaError"}},
        {"op": "dec", "d": "none", "lim": 3, "g": 1, "chunks": ["01010181"], "why": "3-digit INT is accepted",
         "expect": {"exprs": ["i%d" % (1 + 128 + 128 * 128)], "err": "-"}},
        {"op": "dec", "d": "none", "lim": 100, "g": 1, "chunks": ["7f" * 100 + "85"], "why": "100-digit LONGINT is accepted",
         "expect": {"exprs": ["i%d" % (2**700 - 1)], "err": "-"}},
        {"op": "rt", "d": "none", "lim": 100, "g": 1, "sizes": [50], "e": _i(-(2**700) + 1)},
        # prefixes longer than the limit whose extra digits are zeros
        {"op": "dec", "d": "none", "lim": 64, "chunks": ["01" + "00" * 64 + "81"], "why": "longprefix-zeropad",
         "expect": {"exprs": [], "err": "BananaError"}},
        {"op": "dec", "d": "none", "lim": 64, "chunks": ["00" * 65 + "82"], "why": "longprefix-zeropad",
         "expect": {"exprs": [], "err": "BananaError"}},
        {"op": "dec", "d": "pb", "lim": 3, "chunks": ["0180", "05000000", "80"], "why": "longprefix-zeropad",
         "expect": {"exprs": [], "err": "BananaError"}},
        {"op": "dec", "d": "none", "lim": 64, "chunks": ["00" * 64 + "81"], "why": "64 zero digits: INT 0",
         "expect": {"exprs": ["i0"], "err": "-"}},
        # types Banana does not send: refused, at the top and inside a structure, nothing written
        {"op": "enc", "d": "none", "lim": 64, "e": ["o", "str"]},
        {"op": "enc", "d": "pb", "lim": 64, "e": ["o", "str-vocab"]},
        {"op": "enc", "d": "none", "lim": 64, "e": L(_i(1), ["o", "str-nonascii"])},
        {"op": "enc", "d": "none", "lim": 64, "e": ["o", "range"]},
        {"op": "enc", "d": "none", "lim": 64, "e": T(["o", "bytearray"])},
        {"op": "enc", "d": "none", "lim": 64, "e": ["o", "None"]},
    ]
    follow = L(_i(1), b(b"after"))
    for name in sorted(OTHERS):
        out.append({"op": "sess", "d": "pb" if len(name) % 2 else "none", "lim": 64, "echo": 0, "steps": [
            ["s", "A", L(b(b"x"), ["o", name])], ["s", "A", ["o", name]], ["s", "A", follow]]})
    out.append({"op": "mod", "steps": [["e", ["o", "str"]], ["e", L(["o", "deque"])], ["r", S("sub", L(S("bool", _i(1)), S("nt", T(_i(2)))))]]})
    # banana.decode of a stream that holds a complete expression and THEN leaves lists open, then a round trip
    out.append({"op": "mod", "steps": [["x", "01810280"], ["r", L(_i(7), _i(8))]]})
    out.append({"op": "mod", "steps": [["x", "018102800581"], ["r", _i(3)], ["r", L()]]})
    out.append({"op": "mod", "steps": [["x", "0181" + "0280" + "01" * 65 + "81"], ["r", L(b(b"a"))]]})
    return out


def corpus():
    L = lambda *xs: ["L", list(xs)]
    hello = ["b", b"hello".hex()]
    out = [
        # the empty delivery while a partial item is buffered (witness of the AssertionError defect)
        {"op": "rt", "d": "none", "lim": 64, "e": L(_i(1), hello), "sizes": [3, 0]},
        {"op": "dec", "d": "none", "lim": 64, "chunks": ["05", ""]},
        {"op": "dec", "d": "none", "lim": 64, "chunks": ["", "0181", ""]},
        {"op": "rt", "d": "pb", "lim": 64, "e": L(["b", b"None".hex()], ["T", [_i(-1), _f(0x7FF8000000000001)]], L()), "sizes": [1, 1, 1, 1]},
        {"op": "rt", "d": "none", "lim": 64, "e": L(["b", b"None".hex()], ["b", ""]), "sizes": []},
        {"op": "rt", "d": "none", "lim": 64, "e": _i(5), "sizes": []},
        {"op": "rt", "d": "none", "lim": 64, "e": ["Z", SIZE_LIMIT, "80"], "sizes": [2, 1, 1, 300000]},
        {"op": "rt", "d": "none", "lim": 64, "e": ["Z", SIZE_LIMIT + 1, "80"], "sizes": []},
        {"op": "rt", "d": "none", "lim": 2, "e": ["Z", 16384, "41"], "sizes": []},
        {"op": "enc", "d": "none", "lim": 64, "e": ["R", SIZE_LIMIT + 1, _i(0)]},
        {"op": "rt", "d": "none", "lim": 64, "e": ["R", 20000, _i(-3)], "sizes": [7, 7, 7]},
        {"op": "dec", "d": "none", "lim": 64, "chunks": [(_digits(SIZE_LIMIT) + b"\x80").hex(), "0181"]},
        {"op": "dec", "d": "none", "lim": 64, "chunks": [(_digits(SIZE_LIMIT + 1) + b"\x80").hex()], "why": "biglist",
         "expect": {"exprs": [], "err": "BananaError"}},
        {"op": "dec", "d": "none", "lim": 64, "chunks": ["00" * 64], "why": "64 digits, no type byte yet: not refused",
         "expect": {"exprs": [], "err": "-"}},
        {"op": "dec", "d": "none", "lim": 64, "chunks": ["00" * 64, "00"], "why": "longprefix-notype",
         "expect": {"exprs": [], "err": "BananaError"}},
        {"op": "dec", "d": "none", "lim": 64, "chunks": ["7f" * 64 + "81"], "why": "64-digit INT is accepted",
         "expect": {"exprs": ["i%d" % (2**448 - 1)], "err": "-"}},
        {"op": "dec", "d": "none", "lim": 64, "chunks": ["0187"]},
        {"op": "dec", "d": "pb", "lim": 64, "chunks": ["0187", "2087", "0087"]},
        {"op": "dec", "d": "none", "lim": 64, "chunks": ["0188"]},
        {"op": "dec", "d": "none", "lim": 64, "chunks": ["050607840102030405060708"]},
        {"op": "dec", "d": "none", "lim": 64, "chunks": ["0083", "81"]},
    ]
    B = 2**448
    for n in [0, 1, -1, 2**31 - 1, 2**31, -(2**31), -(2**31) - 1, B - 1, -(B - 1), B, -B]:
        out.append({"op": "rt", "d": "none", "lim": 64, "e": _i(n), "sizes": [1]})
    for bits in FLOATS[:8]:
        out.append({"op": "rt", "d": "pb", "lim": 64, "e": L(_f(bits)), "sizes": [4, 0, 3] if bits == 0 else [4, 3]})
    return out + _audit_corpus() + _history_corpus()


def generate(rng, tier):
    n = 2500 if tier == "quick" else 45000
    for _ in range(n):
        r = rng.random()
        if r < 0.22:
            yield _sess(rng, tier)
        elif r < 0.30:
            yield _mod(rng, tier)
        elif r < 0.66:
            yield _rt(rng, tier)
        elif r < 0.72:
            yield _enc(rng, tier)
        elif r < 0.85:
            yield _recipe(rng, tier)
        else:
            yield _mutated(rng, tier)


def search(rng, tier, disagreeing):
    """property-directed: every two-way split and every position of an empty delivery, for the
    disagreeing cases and the corpus; then budgeted random round trips with empty deliveries"""
    seeds = [c for c in list(disagreeing)[:5] + corpus() if c["op"] in ("rt", "dec")]
    for c in seeds:
        if c["op"] == "rt":
            n = _real_len(c)
            if n > 300:
                continue
            for i in range(n + 1):
                yield dict(c, sizes=[i])
                yield dict(c, sizes=[i, 0])
        else:
            s = bytes.fromhex("".join(c["chunks"]))
            if len(s) > 300:
                continue
            base = {k: v for k, v in c.items() if k != "expect"}
            for i in range(len(s) + 1):
                yield dict(base, chunks=[x.hex() for x in (s[:i], s[i:]) if x])
                yield dict(base, chunks=[s[:i].hex(), "", s[i:].hex()])
    for c in list(disagreeing)[:5]:
        if c["op"] in ("sess", "mod"):          # every sub-history (one step left out), every single-step prefix
            for i in range(len(c["steps"])):
                yield dict(c, steps=c["steps"][:i] + c["steps"][i + 1:])
                yield dict(c, steps=c["steps"][:i + 1])
    for k in range(2000 if tier == "quick" else 20000):
        yield _rt(rng, tier, empties=rng.random() < 0.5) if k % 3 else _sess(rng, tier) if k % 2 else _mod(rng, tier)


def _shrink_expr(e):
    if e[0] == "S":
        yield e[2]                                  # the plain value
        for y in _shrink_expr(e[2]):
            if y[0] == e[2][0] and not (e[1] == "bool" and int(y[1]) not in (0, 1)):
                yield ["S", e[1], y]
    elif e[0] == "o" and len(e) > 1:
        yield ["o"]
    elif e[0] in "LT":
        for x in e[1]:
            yield x
        for i in range(len(e[1])):
            yield [e[0], e[1][:i] + e[1][i + 1:]]
        for i, x in enumerate(e[1]):
            for y in _shrink_expr(x):
                yield [e[0], e[1][:i] + [y] + e[1][i + 1:]]
    elif e[0] == "b" and len(e[1]) > 2:
        yield ["b", e[1][: len(e[1]) // 4 * 2]]
    elif e[0] == "i" and abs(int(e[1])) > 1 and -(2**31) <= int(e[1]) < 2**31:
        yield ["i", 1]


def shrink(c):
    if c["op"] in ("sess", "mod"):
        st = c["steps"]
        for i in range(len(st)):
            yield dict(c, steps=st[:i] + st[i + 1:])
        if c["op"] == "sess" and c["echo"]:
            yield dict(c, echo=0)
        for i, x in enumerate(st):
            if x[0] in "ser":
                for y in _shrink_expr(x[-1]):
                    yield dict(c, steps=st[:i] + [x[:-1] + [y]] + st[i + 1:])
        return
    if c["op"] == "rt":
        s = c["sizes"]
        for i in range(len(s)):
            yield dict(c, sizes=s[:i] + s[i + 1:])
        e = c["e"]
        if c.get("g"):
            yield {k: v for k, v in c.items() if k != "g"}
        if e[0] == "S":
            for y in _shrink_expr(e):
                yield dict(c, e=y)
        if e[0] in "LT":
            for x in e[1]:
                yield dict(c, e=x)
            for i in range(len(e[1])):
                yield dict(c, e=[e[0], e[1][:i] + e[1][i + 1:]])
            for i, x in enumerate(e[1]):
                if x[0] in "LT":
                    for y in x[1]:
                        yield dict(c, e=[e[0], e[1][:i] + [y] + e[1][i + 1:]])
                elif x[0] == "S":
                    yield dict(c, e=[e[0], e[1][:i] + [x[2]] + e[1][i + 1:]])
        if e[0] == "b" and len(e[1]) > 2:
            yield dict(c, e=["b", e[1][: len(e[1]) // 4 * 2]])
        if e[0] == "i" and abs(int(e[1])) > 1 and -(2**31) <= int(e[1]) < 2**31:
            yield dict(c, e=["i", 1])
    elif c["op"] == "dec":
        ch = c["chunks"]
        for i in range(len(ch)):
            if "expect" not in c or ch[i] == "":
                yield dict(c, chunks=ch[:i] + ch[i + 1:])
        for i in range(len(ch) - 1):
            yield dict(c, chunks=ch[:i] + [ch[i] + ch[i + 1]] + ch[i + 2:])


def _shape(c):
    if c["op"] == "dec":
        ch = c["chunks"]
        return ("E" if "" in ch else "") + ("1" if len(ch) <= 1 else "n")
    s = c.get("sizes", [])
    return ("E" if 0 in s else "") + ("1" if not s else "b" if set(s) == {1} else "n")


def _send_kind(e, lim):
    if in_limits(e, lim):
        return "v"
    while e[0] == "S":
        e = e[2]
    return "n" if e[0] in "LT" and len(e[1]) <= SIZE_LIMIT else "t"     # refused part-way (nested) / at the top


def tag(c, out):
    if c["op"] == "mod":
        pat = "".join(st[0] if st[0] == "x" else st[0] + _send_kind(st[1], 64) for st in c["steps"])[:12]
        res = "".join("v" if t.startswith(("v=", "ok=")) else t[1:3] for t in out.split(";"))[:16]
        return f"mod:{pat}:{res}"
    limc = ("g" if c.get("g") else "") + ("64" if c["lim"] == 64 else "<3" if c["lim"] < 3 else "s")
    if c["op"] == "sess":
        pat = "".join((st[1].lower() if st[1] == "B" else "") + _send_kind(st[2], c["lim"]) if st[0] == "s" else
                      "." if st[2] else "0" for st in c["steps"])[:10]
        errs = "".join(x.rsplit(",err=", 1)[-1][:3] for x in out.split("|")[1:])
        return f"sess:{c['d']}:{limc}:e{c['echo']}:{pat}:{errs}"
    if c["op"] == "dec":
        err = out.split("err=")[-1]
        return f"dec:{c['d']}:{limc}:{c.get('why', 'mut')[:12]}:{_shape(c)}:{err}:{min(out.count('/') + (0 if 'exprs=|' in out else 1), 3)}"
    ks, depth = kinds(c["e"])
    outcome = "refused" if "BananaError" in out.split("|")[0] else out.split("err=")[-1] if "err=" in out else "ok"
    return f"{c['op']}:{c['d']}:{limc}:{'+'.join(sorted(ks))}:d{depth}:{_shape(c)}:{outcome}"
