"""C11 — Cooperator/CooperativeTask: real twisted.internet.task vs the Lean model + a history oracle.

A case is a whole history: {"started": bool, "ops": [token, ...]} with the tokens of the driver protocol
(lean/TwistedModel/Drv/C11.lean):
  n:<script> cooperate     c:<script> coiterate     script = items v | d<j> | r joined by ',' ('-' = empty)
  p<t> pause  r<t> resume  s<t> stop  w<t> whenDone  t<b> one scheduler tick with a work-unit budget b
  f<j>+ / f<j>- fire the yielded Deferred j with success / failure      S Cooperator.stop   G Cooperator.start
"""
from twisted.internet import defer, task
from twisted.python.failure import Failure

HEADLINE = "TwistedProps.C11.never_advanced_unless_runnable_partial"
RULE = ("whole histories over <= 8 tasks: scripted iterators (values, Deferreds fired before/after the yield with "
        "success/failure, raise, exhaustion), interleaved pause/resume/stop/whenDone/tick(budget)/fire/"
        "Cooperator.stop/Cooperator.start; one exhaustive family (all ways to have k runnable + paused tasks at "
        "Cooperator.stop); distinct = set of behaviour features of the history (which exceptions, completion kinds, "
        "pause-while-waiting, pre-fired Deferred, removal-under-iteration skip, stop with k runnable, ...)")
ASSUMES = [
    "whenDone observers and iterators do not re-enter the Cooperator (operations interleave between ticks / work units "
    "as in the statement; re-entrant calls from inside next() or a whenDone callback are not explored)",
    "each yielded Deferred is yielded by one task once (the model keeps one callback pair per Deferred)",
    "resume() is called by a caller with an outstanding pause() of its own (balanced histories); the unbalanced case is "
    "generated too and is reported under the finding key unmatched-resume-advanced-while-waiting",
    "a task finished by Cooperator.stop raises SchedulerStopped (its completion state; not a TaskFinished subtype) — read as "
    "'the matching' exception for that completion kind",
]
TRUSTED = ["twisted.internet.task.Clock as the deterministic scheduler (callLater(1)/advance(1))",
           "twisted.internet.defer.Deferred callback semantics (exceptions in callbacks are swallowed into the chain)"]
MANIFEST = {
    "text": "Lean theorems (TwistedProps/C11.lean) over all balanced operation histories of the Cooperator model (any length, scripts, "
            "tick budgets, firing order): never_advanced_unless_runnable_partial — every next() call found its task unpaused, "
            "unfinished and not waiting on a Deferred it yielded (partial only in the Balanced hypothesis, see the finding); "
            "whenDone_fires_exactly_once — no whenDone/coiterate Deferred is ever called back twice, each is un-fired exactly while "
            "its task is unfinished and afterwards holds the task's stored result, which matches the completion kind (iterator on "
            "exhaustion, TaskStopped, SchedulerStopped, the iterator's exception or the yielded Deferred's failure), whether it was "
            "registered before completion (fired by _completeWith, which never raises) or requested after (fired at once); "
            "failed_with_deferred_failure_was_errbacked — a result 'failure of Deferred j' implies j was errbacked; "
            "whenDone_value_never_changes + finished_task_stays_finished + whenDone_deferred_never_lost — a task completes once, a fired "
            "value is final, a Deferred is never dropped or re-owned; "
            "ops_on_finished_raise_matching — pause/stop on a finished task raise the class of its completion; "
            "no_starvation — a task that stays in _tasks (= runnable, in_tasks_iff_runnable) through a stretch of the history without "
            "receiving a next() call sees fewer than N^2 next() calls in that stretch (N = number of tasks): every whole step of the "
            "model is a legal sequence of the four list/iterator moves (step_moves) and each work unit of another task strictly "
            "decreases a rank; tick_scheduled_when_runnable — a started Cooperator with non-empty _tasks always has a delayed call "
            "pending (an un-started one has _mustScheduleOnStart set), and that tick calls next() at least once "
            "(tick_advances_some_task). Model tied to task.py by differential runs of whole "
            "histories; an independent history oracle checks the same statement on the real code.",
    "note": "trusts Lean kernel, the hand-written model of Cooperator/CooperativeTask (differentially tied), CPython list-iterator "
            "semantics; re-entrant use from callbacks is outside the explored histories; the starvation bound proved is N^2 work units "
            "(the oracle checks the tighter (departures+1)*(N-1) on the real code)",
    "technique": "Lean 4 proof (state invariants: membership/pause-count, observer ownership, scheduling; ranking function over "
                 "move sequences) + differential tie + history oracle",
    "design_ref": "DESIGN.md §7 C11",
}

MATCH = {"I": "TaskDone", "E": "TaskFailed", "TS": "TaskStopped", "SS": "SchedulerStopped"}


# ------------------------------------------------------------------------------------------------
# running the real code

class ScriptError(Exception):
    pass


class ScriptBaseError(BaseException):
    """what a script's `r` raises when the case says exc=B: an exception outside the `Exception` hierarchy
    (the statement says "or raising" without restricting the class; seeded change C11-2)"""


class DeferredFailed(Exception):
    pass


class _Terminator:
    def __init__(self, box):
        self.box, self.n = box, 0

    def __call__(self):
        self.n += 1
        return self.n >= self.box[0]


class _ScriptIter:
    """An iterator that follows a script and logs every next() call."""

    def __init__(self, idx, items, env):
        self.idx, self.items, self.pos, self.env, self.dead = idx, items, 0, env, False

    def __iter__(self):
        return self

    def __next__(self):
        self.env["adv"].append(self.idx)
        if self.dead or self.pos >= len(self.items):
            self.dead = True
            raise StopIteration
        it = self.items[self.pos]
        self.pos += 1
        if it == "v":
            return self.pos
        if it == "r":
            self.dead = True
            raise self.env["exc"](self.idx)
        return self.env["getd"](int(it[1:]))


def parse_script(s):
    return [] if s == "-" else s.split(",")


def _canon(result, iterator):
    if result is iterator:
        return "I"
    if isinstance(result, Failure):
        if result.check(task.TaskStopped):
            return "TS"
        if result.check(task.SchedulerStopped):
            return "SS"
        if result.check(ScriptError, ScriptBaseError):
            return "E"
        if result.check(DeferredFailed):
            return "F%d" % result.value.args[0]
        return "?" + result.type.__name__
    return "?" + type(result).__name__


def run_impl(c):
    clock = task.Clock()
    box = [1]
    coop = task.Cooperator(terminationPredicateFactory=lambda: _Terminator(box),
                           scheduler=lambda f: clock.callLater(1, f), started=bool(c["started"]))
    ds = {}

    def getd(j):
        if j not in ds:
            ds[j] = defer.Deferred()
        return ds[j]

    env = {"adv": [], "getd": getd, "exc": ScriptBaseError if c.get("exc") == "B" else ScriptError}
    tasks, iters, obs, newly = [], [], [], []

    def observe(d, it):
        o = len(obs)
        obs.append([])

        def rec(r, o=o, it=it):
            obs[o].append(_canon(r, it))
            newly.append(o)
            return None
        d.addBoth(rec)

    toks = []
    for op in c["ops"]:
        err = ""
        del newly[:]
        before = len(env["adv"])
        try:
            k = op[0]
            if k in "nc":
                idx = len(iters)
                it = _ScriptIter(idx, parse_script(op[2:]), env)
                iters.append(it)
                tasks.append(None)
                if k == "n":
                    tasks[idx] = coop.cooperate(it)
                else:
                    observe(coop.coiterate(it), it)
            elif k in "prsw":
                t = tasks[int(op[1:])]
                if t is None:
                    err = "!NoHandle"
                elif k == "p":
                    t.pause()
                elif k == "r":
                    t.resume()
                elif k == "s":
                    t.stop()
                else:
                    observe(t.whenDone(), iters[int(op[1:])])
            elif k == "t":
                box[0] = int(op[1:])
                clock.advance(1)
            elif k == "f":
                j = int(op[1:-1])
                if op[-1] == "+":
                    getd(j).callback(None)
                else:
                    getd(j).errback(Failure(DeferredFailed(j)))
            elif k == "S":
                coop.stop()
            elif k == "G":
                coop.start()
            else:
                err = "!BadOp"
        except (Exception, ScriptBaseError) as e:  # noqa: BLE001 — the exception class is the observable
            err = "!" + type(e).__name__
        if op[0] == "t":
            tok = "t=" + ".".join(str(i) for i in env["adv"][before:]) + err
        else:
            tok = err or "ok"
        for o in sorted(set(newly)):
            tok += "+%d=%s" % (o, "/".join(obs[o]))
        if any(dc.active() for dc in clock.getDelayedCalls()):
            tok += "*"
        toks.append(tok)
    for d in ds.values():          # keep failures swallowed inside the yielded Deferreds quiet
        d.addErrback(lambda f: None)
    return ";".join(toks) + "|obs=" + ",".join("/".join(v) if v else "-" for v in obs)


def model_line(c):
    return ("1 " if c["started"] else "0 ") + " ".join(c["ops"])


# ------------------------------------------------------------------------------------------------
# the property on the implementation's behaviour: a history oracle that knows only the statement
# (who is paused by its caller, who finished how, who waits on what) — no _tasks, no _metarator.

class _T:
    def __init__(self, items, handle):
        self.items, self.pos = items, 0
        self.up = 0               # caller's outstanding pause() calls
        self.unmatched = 0        # resume() calls that had no pause() of the caller to match
        self.fin = None           # expected whenDone value of the FIRST completion
        self.waiting = set()      # yielded Deferreds still pending
        self.obs = []
        self.wait = 0             # work units given to others while this one was runnable
        self.removals = 0         # other tasks that left the runnable set meanwhile
        self.handle = handle
        self.tainted = False      # an unmatched resume() released it while it waited on a Deferred: only
                                  # "never advanced while waiting" is still judged for this task

    def runnable(self):
        return self.fin is None and self.up == 0 and not self.waiting and not self.tainted


def _parse_tok(tok):
    pending = tok.endswith("*")
    if pending:
        tok = tok[:-1]
    parts = tok.split("+")
    fired = {}
    for p in parts[1:]:
        o, v = p.split("=")
        fired[int(o)] = v
    return parts[0], fired, pending


def oracle(c, out):
    try:
        return _oracle(c, out)
    except (ValueError, IndexError, KeyError) as e:
        return {"key": "oracle-cannot-parse", "detail": f"{type(e).__name__}: {e} on {out!r}"}


def _oracle(c, out):
    if out.startswith("!raised"):
        return {"key": "harness-raised", "detail": out}
    body, obsfinal = out.split("|obs=")
    toks = body.split(";") if body else []
    ops = c["ops"]
    if len(toks) != len(ops):
        return {"key": "oracle-cannot-parse", "detail": "token count"}
    T, obs_owner, obs_val, fired_d = [], [], [], {}
    started, stopped = bool(c["started"]), False

    def bad(key, i, msg):
        return {"key": key, "detail": f"op #{i} {ops[i]!r} -> {toks[i]!r}: {msg}"}

    def others_removed(t):
        for u in T:
            if u is not t and u.runnable():
                u.removals += 1

    def finish(t, val):
        if t.fin is None:
            if t.runnable():
                others_removed(t)
            t.fin = val

    def became_runnable(t):
        # a task that becomes runnable while the cooperator is stopped is completed with SchedulerStopped
        t.wait, t.removals = 0, 0
        if stopped and t.runnable():
            t.fin = "SS"

    for i, (op, tok) in enumerate(zip(ops, toks)):
        res, fired_now, pending = _parse_tok(tok)
        k = op[0]
        if "!NoHandle" in res or "!BadOp" in res:
            return None          # not a history of the public API (generator never produces these)
        if k in "nc":
            t = _T(parse_script(op[2:]), k == "n")
            T.append(t)
            if res != "ok":
                return bad("create-raised", i, "creating a task raised")
            if k == "c":
                obs_owner.append(len(T) - 1)
                obs_val.append(None)
                t.obs.append(len(obs_owner) - 1)
            became_runnable(t)
        elif k in "ps":
            t = T[int(op[1:])]
            if t.tainted:
                if res == "ok" and k == "s":
                    t.fin = "TS"
            elif t.fin is not None:
                want = "!" + MATCH.get(t.fin, "TaskFailed")
                if res != want:
                    key = "completion-overwritten" if res.startswith("!Task") or res == "!SchedulerStopped" else "finished-op-wrong-exception"
                    return bad(key, i, f"task finished with {t.fin}: expected {want}")
            else:
                if res != "ok":
                    key = "cooperator-stop-skips-task" if res == "!ValueError" else "live-op-raised"
                    return bad(key, i, "operation on an unfinished task raised")
                if k == "p":
                    if t.runnable():
                        others_removed(t)
                    t.up += 1
                else:
                    finish(t, "TS")
        elif k == "r":
            t = T[int(op[1:])]
            if t.up > 0:
                if res != "ok":
                    return bad("resume-raised", i, "resume() matching an outstanding pause() raised")
                t.up -= 1
                if t.up == 0:
                    became_runnable(t)
            else:
                if res == "ok":
                    t.unmatched += 1     # resume() with nothing of the caller's to resume was accepted
                    if t.waiting:
                        t.tainted = True
        elif k == "w":
            t = T[int(op[1:])]
            obs_owner.append(int(op[1:]))
            obs_val.append(None)
            t.obs.append(len(obs_owner) - 1)
            if res != "ok":
                return bad("whendone-raised", i, "whenDone raised")
        elif k == "t":
            head = res[2:]
            excp = ""
            if "!" in head:
                head, excp = head.split("!", 1)
            adv = [int(x) for x in head.split(".")] if head else []
            for a in adv:
                t = T[a]
                why = None
                if t.tainted:
                    if t.waiting:
                        return bad("unmatched-resume-advanced-while-waiting", i,
                                   f"task {a} advanced while waiting on Deferred(s) {sorted(t.waiting)} after {t.unmatched} "
                                   "resume() call(s) without a matching pause()")
                    others_removed(t)
                elif t.fin is not None:
                    why = ("advanced-while-finished", f"finished ({t.fin})")
                elif t.up > 0:
                    why = ("advanced-while-paused", f"paused by its caller ({t.up} outstanding)")
                elif t.waiting:
                    key = "unmatched-resume-advanced-while-waiting" if t.unmatched else "advanced-while-waiting"
                    why = (key, f"waiting on Deferred(s) {sorted(t.waiting)}"
                           + (f" after {t.unmatched} resume() call(s) without a matching pause()" if t.unmatched else ""))
                if why:
                    return bad(why[0], i, f"task {a} advanced while {why[1]}")
                n = len(T)
                for u in T:
                    if u is not t and u.runnable():
                        u.wait += 1
                        if u.wait > (u.removals + 1) * max(1, n - 1):
                            return bad("starved", i, f"task {T.index(u)} stayed runnable through {u.wait} work units of "
                                       f"other tasks ({u.removals} departures, {n} tasks) without being advanced")
                t.wait, t.removals = 0, 0
                if t.pos >= len(t.items):
                    finish(t, "I")
                else:
                    it = t.items[t.pos]
                    t.pos += 1
                    if it == "r":
                        t.items = t.items[:t.pos]
                        finish(t, "E")
                    elif it != "v":
                        j = int(it[1:])
                        others_removed(t)      # pause() + (possibly immediate) resume(): it leaves and re-enters the list
                        if j not in fired_d:
                            t.waiting.add(j)
                        elif not fired_d[j]:
                            t.fin = "F%d" % j
                        else:
                            became_runnable(t)
            if excp:
                return bad("tick-raised", i, f"the scheduler tick raised {excp}")
        elif k == "f":
            j = int(op[1:-1])
            if j in fired_d:
                continue
            if res != "ok":
                return bad("fire-raised", i, "firing a yielded Deferred raised")
            fired_d[j] = op[-1] == "+"
            for t in T:
                if j in t.waiting:
                    t.waiting.discard(j)
                    if fired_d[j]:
                        if t.fin is None and t.up == 0 and not t.waiting:
                            became_runnable(t)
                    elif t.fin is None:
                        t.fin = "F%d" % j
        elif k == "S":
            if res != "ok":
                return bad("cooperator-stop-raised", i, "Cooperator.stop raised")
            stopped = True
            for t in T:
                if t.runnable():
                    t.fin = "SS"
        elif k == "G":
            stopped, started = False, True
        # -- after every op: observers fire exactly when their task finishes, with the value of its first completion
        for o, v in fired_now.items():
            if "/" in v:
                return bad("whendone-fired-twice", i, f"observer {o} fired more than once: {v}")
            if obs_val[o] is not None:
                return bad("whendone-fired-twice", i, f"observer {o} fired again")
            obs_val[o] = v
        for o, owner in enumerate(obs_owner):
            t = T[owner]
            if t.tainted:
                continue
            if t.fin is None and obs_val[o] is not None:
                return bad("whendone-fired-early", i, f"observer {o} of unfinished task {owner} fired with {obs_val[o]}")
            if t.fin is not None and obs_val[o] is None:
                key = "cooperator-stop-skips-task" if k == "S" else "whendone-not-fired"
                return bad(key, i, f"task {owner} finished ({t.fin}) but its whenDone/coiterate Deferred {o} has not fired")
            if t.fin is not None and obs_val[o] != t.fin:
                return bad("completion-overwritten" if k == "w" else "whendone-wrong-value", i,
                           f"observer {o} of task {owner} fired with {obs_val[o]}, task finished with {t.fin}")
        # -- a runnable task and a started, running cooperator ⇒ a tick is scheduled
        if started and not stopped and any(t.runnable() for t in T) and not pending:
            return bad("runnable-but-no-tick-scheduled", i, "runnable tasks exist but no delayed call is pending")
    final = obsfinal.split(",") if obsfinal else []
    if [v if v is not None else "-" for v in obs_val] != final:
        return {"key": "whendone-fired-twice", "detail": f"final observer values {final} differ from the per-op record {obs_val}"}
    return None


# ------------------------------------------------------------------------------------------------
# cases

def corpus():
    cs = [
        # Cooperator.stop with 4 runnable tasks (the hand-found defect): every whenDone must fire
        ["n:v,v", "n:v", "n:v", "n:v", "w0", "w1", "w2", "w3", "S", "p0", "p1"],
        ["n:v", "n:v", "w1", "S"],
        # removal under iteration inside a tick
        ["n:-", "n:v,v,v", "n:v,v", "n:v,v", "t10", "t2", "t5"],
        # pause while waiting on a Deferred, fire, resume
        ["n:v,d1,v", "w0", "t3", "p0", "t1", "f1+", "t1", "r0", "t5", "t5"],
        # stop while waiting, then the Deferred fails
        ["n:d1,v", "w0", "t1", "s0", "f1-", "w0", "p0"],
        # Deferred already fired when yielded (success / failure)
        ["f1+", "f2-", "n:d1,v,d2,v", "n:v,v,v,v", "w0", "t2", "t2", "t2", "t2"],
        # coiterate, raise, stop, restart
        ["c:v,r", "c:v,v", "n:v", "t2", "t2", "S", "n:v", "G", "n:v,v", "w4", "t3", "t3"],
        # started=False
        ["n:v", "t1", "G", "t1", "t1"],
        # resume with no pause of the caller while waiting on a Deferred
        ["n:d1,v,v", "t1", "r0", "t1", "f1+", "t1"],
        # pause / stop / resume combinations
        ["n:v,v", "p0", "p0", "s0", "r0", "r0", "r0", "t1", "w0", "s0", "p0"],
    ]
    out = [{"started": True, "ops": ops} for ops in cs]
    out[7]["started"] = False
    # iterators raising outside the Exception hierarchy (seeded change C11-2): same expected behaviour
    out += [{"started": True, "ops": ops, "exc": "B"} for ops in (
        ["n:v,r", "n:v,v,v", "w0", "w1", "t1", "t1", "t1", "t3", "s0", "p0"],
        ["c:r", "n:v,v", "t1", "t1", "t1"],
        cs[6])]
    return out


def _script(rng, dctr, maxlen=6):
    items = []
    for _ in range(rng.choice([0, 1, 1, 2, 3, 4, maxlen])):
        r = rng.random()
        if r < 0.62:
            items.append("v")
        elif r < 0.92:
            dctr[0] += 1
            items.append("d%d" % dctr[0])
        else:
            items.append("r")
            break
    return ",".join(items) if items else "-"


def _history(rng, nops, unmatched=False):
    dctr = [0]
    ops, handles, ntasks = [], [], 0
    started = rng.random() < 0.9
    ntask0 = rng.randint(1, 6)
    prefire = []
    for _ in range(ntask0):
        k = "n" if rng.random() < 0.85 else "c"
        ops.append(k + ":" + _script(rng, dctr))
        if k == "n":
            handles.append(ntasks)
        ntasks += 1
    fired = set()
    up = {}
    for _ in range(nops):
        r = rng.random()
        if r < 0.30:
            ops.append("t%d" % rng.choice([1, 1, 1, 2, 2, 3, 4, 7, 10]))
        elif r < 0.42 and handles:
            t = rng.choice(handles)
            ops.append("p%d" % t)
            up[t] = up.get(t, 0) + 1
        elif r < 0.54 and handles:
            cands = [t for t in handles if up.get(t, 0) > 0]
            if cands and (not unmatched or rng.random() < 0.7):
                t = rng.choice(cands)
                up[t] -= 1
            elif unmatched or rng.random() < 0.08:
                t = rng.choice(handles)
            else:
                continue
            ops.append("r%d" % t)
        elif r < 0.60 and handles:
            ops.append("s%d" % rng.choice(handles))
        elif r < 0.70 and handles:
            ops.append("w%d" % rng.choice(handles))
        elif r < 0.86 and dctr[0]:
            j = rng.randint(1, dctr[0])
            if j not in fired:
                fired.add(j)
                ops.append("f%d%s" % (j, "+" if rng.random() < 0.7 else "-"))
        elif r < 0.90:
            ops.append("S")
        elif r < 0.93:
            ops.append("G")
        elif ntasks < 8:
            k = "n" if rng.random() < 0.8 else "c"
            ops.append(k + ":" + _script(rng, dctr))
            if k == "n":
                handles.append(ntasks)
            ntasks += 1
    return {"started": started, "ops": ops}


def _stop_family():
    """every layout of up to 5 tasks being runnable / paused / waiting when Cooperator.stop() is called"""
    out = []
    for n in range(1, 6):
        for mask in range(3 ** n):
            ops, m, kinds = [], mask, []
            for t in range(n):
                kinds.append(m % 3)
                m //= 3
            for t, kd in enumerate(kinds):
                ops.append("n:d%d,v" % (t + 1) if kd == 2 else "n:v,v")
            ops += ["w%d" % t for t in range(n)]
            if 2 in kinds:
                ops.append("t%d" % n)
            ops += ["p%d" % t for t, kd in enumerate(kinds) if kd == 1]
            ops.append("S")
            ops += ["p%d" % t for t in range(n)]
            out.append({"started": True, "ops": ops})
    return out


def generate(rng, tier):
    fam = _stop_family()
    if tier == "quick":
        rng2 = rng
        fam = [c for c in fam if len([o for o in c["ops"] if o[0] == "n"]) <= 4]
        n = 1600
    else:
        n = 30000
    yield from fam
    for i in range(n):
        h = _history(rng, rng.choice([6, 12, 20, 30, 45]), unmatched=(i % 10 == 0))
        if i % 3 == 1 and any(o[0] in "nc" and "r" in o[2:].split(",") for o in h["ops"]):
            h["exc"] = "B"
        yield h
    # long fair-share runs: many ticks of small budget over long scripts with pauses in between
    for i in range(n // 8):
        k = rng.randint(2, 8)
        ops = ["n:" + ",".join(["v"] * rng.randint(1, 14)) for _ in range(k)]
        for _ in range(rng.randint(10, 40)):
            r = rng.random()
            if r < 0.7:
                ops.append("t%d" % rng.choice([1, 1, 2, 3, 5]))
            elif r < 0.85:
                ops.append("p%d" % rng.randrange(k))
            else:
                ops.append("r%d" % rng.randrange(k))
        # only balanced resumes in this family
        bal, keep = {}, []
        for o in ops:
            if o[0] == "p":
                bal[o[1:]] = bal.get(o[1:], 0) + 1
            if o[0] == "r":
                if bal.get(o[1:], 0) == 0:
                    continue
                bal[o[1:]] -= 1
            keep.append(o)
        yield {"started": True, "ops": keep}


def shrink(c):
    for d in _shrink(c):
        if c.get("exc"):
            d["exc"] = c["exc"]
        yield d
    if c.get("exc"):
        yield {"started": c["started"], "ops": c["ops"]}


def _shrink(c):
    ops = c["ops"]
    # drop one op (re-numbering task indices when a creation is dropped)
    for i in range(len(ops) - 1, -1, -1):
        if ops[i][0] in "nc":
            idx = sum(1 for o in ops[:i] if o[0] in "nc")
            rest, okay = [], True
            for o in ops[:i] + ops[i + 1:]:
                if o[0] in "prsw":
                    t = int(o[1:])
                    if t == idx:
                        continue
                    if t > idx:
                        o = o[0] + str(t - 1)
                rest.append(o)
            # a handle may now point at a coiterate task: run_impl answers !NoHandle and the oracle ignores the case
            yield {"started": c["started"], "ops": rest}
        else:
            yield {"started": c["started"], "ops": ops[:i] + ops[i + 1:]}
    # shorten scripts, shrink budgets
    for i, o in enumerate(ops):
        if o[0] in "nc" and o[2:] != "-":
            items = o[2:].split(",")
            for j in range(len(items)):
                new = items[:j] + items[j + 1:]
                yield {"started": c["started"], "ops": ops[:i] + [o[:2] + (",".join(new) if new else "-")] + ops[i + 1:]}
        if o[0] == "t" and int(o[1:]) > 1:
            yield {"started": c["started"], "ops": ops[:i] + ["t%d" % (int(o[1:]) - 1)] + ops[i + 1:]}
    if not c["started"]:
        yield {"started": True, "ops": ops}


def search(rng, tier, disagreeing):
    yield from _stop_family()
    for c in disagreeing[:20]:
        ops = c["ops"]
        for i in range(len(ops) + 1):            # a Cooperator.stop / a tick at every cut point
            yield {"started": c["started"], "ops": ops[:i] + ["S"] + ops[i:]}
            yield {"started": c["started"], "ops": ops[:i] + ["t1"] + ops[i:]}
    for i in range(3000 if tier == "quick" else 20000):
        yield _history(rng, rng.choice([10, 20, 40]), unmatched=(i % 5 == 0))


def tag(c, out):
    feats = set()
    if c.get("exc"):
        feats.add("exc" + c["exc"])
    body = out.split("|obs=")[0]
    toks = body.split(";") if body else []
    ops = c["ops"]
    waiting_seen = any("d" in o for o in ops if o[0] in "nc")
    for o, tk in zip(ops, toks):
        res = tk.rstrip("*").split("+")[0]
        k = o[0]
        if k == "t":
            adv = res[2:].split("!")[0]
            n = len(adv.split(".")) if adv else 0
            feats.add("tick0" if n == 0 else "tick1" if n == 1 else "tickN")
            if "!" in res:
                feats.add("tick!" + res.split("!")[1])
        elif res != "ok":
            feats.add(k + res)
        elif k in "SG":
            feats.add(k)
        for p in tk.rstrip("*").split("+")[1:]:
            v = p.split("=")[1]
            feats.add("fin:" + ("F" if v.startswith("F") else v))
    if not c["started"]:
        feats.add("unstarted")
    if waiting_seen:
        feats.add("D")
    return " ".join(sorted(feats))
