"""C11 — Cooperator/CooperativeTask: real twisted.internet.task vs the Lean model + a history oracle.

A case is a whole history: {"started": bool, "ops": [token, ...], "exc": "B"?, "rx": [[token, ...], ...]?, "oh": {obs: n}?}
with the tokens of the driver protocol (lean/TwistedModel/Drv/C11.lean):
  n:<script> cooperate     c:<script> coiterate     C:<script> coiterate(it, doneDeferred) with a Deferred of the caller
  script = items joined by ',' ('-' = empty): v value | r raise | e StopIteration | a Deferred j, in one of the flavours
           d<j> plain | D<j> subclass instance (even j: trivial subclass, odd j: DeferredList over the Deferred that is fired)
           | k<j> already called back, its callback chain held by an inner Deferred that is the one fired
           — every flavour is ONE pending Deferred for the model (`d<j>`); an item may carry a hook `@<n>` (below)
  p<t> pause  r<t> resume  s<t> stop  w<t> whenDone  t<b> one scheduler tick with a work-unit budget b
  f<j>+ / f<j>- fire the yielded Deferred j with success / failure      S Cooperator.stop   G Cooperator.start
Re-entrant histories (oracle only, model_line -> None): rx[n] is a list of operations (p r s w f S n: c:, task `.` = the
task whose iterator / observer is running) executed from INSIDE next() by an item `@<n><item>` before it yields/raises,
or from inside the callback of whenDone/coiterate Deferred number o when oh[o] = n.
"""
import json

from twisted.internet import defer, task
from twisted.python.failure import Failure

HEADLINE = "TwistedProps.C11.never_advanced_unless_runnable_partial"
RULE = ("whole histories over <= 8 tasks: scripted iterators (values, Deferreds fired before/after the yield with "
        "success/failure, raise, exhaustion), interleaved pause/resume/stop/whenDone/tick(budget)/fire/"
        "Cooperator.stop/Cooperator.start; yielded Deferreds in four flavours (plain, subclass instance, DeferredList, "
        "already-called-but-chained on an unfired inner Deferred: ~45% of the Deferred items); coiterate with and without a "
        "caller-supplied doneDeferred; one exhaustive family (all ways to have k runnable + paused tasks at "
        "Cooperator.stop); a re-entrant family (a third of the random cases, oracle only): operation lists run from inside "
        "next() (incl. pause/stop of the running task itself, Cooperator.stop, new tasks, firing Deferreds) and from "
        "inside whenDone/coiterate callbacks (incl. callbacks fired by Cooperator.stop that stop/pause other tasks, stop "
        "again or add tasks); distinct = set of behaviour features of the history (which exceptions, completion kinds, "
        "pause-while-waiting, pre-fired Deferred, removal-under-iteration skip, stop with k runnable, Deferred flavour, "
        "which operation ran re-entrantly in which context with which result, ...)")
ASSUMES = [
    "Cooperator.start() and scheduler ticks are not issued re-entrantly (from inside next() or a whenDone callback); every "
    "other operation is (re-entrant family, judged by the oracle only: the Lean model and theorems cover the histories whose "
    "operations interleave between work units)",
    "during a Cooperator.stop() whose callbacks act on a task that was runnable when stop() began, whether stop() had already "
    "reached that task is read off the operation's result (SchedulerStopped or success); both orders satisfy the statement",
    "each yielded Deferred is yielded by one task once (the model keeps one callback pair per Deferred)",
    "resume() is called by a caller with an outstanding pause() of its own (balanced histories); the unbalanced case is "
    "generated too and is reported under the finding key unmatched-resume-advanced-while-waiting",
    "a task finished by Cooperator.stop raises SchedulerStopped (its completion state; not a TaskFinished subtype) — read as "
    "'the matching' exception for that completion kind",
]
TRUSTED = ["twisted.internet.task.Clock as the deterministic scheduler (callLater(1)/advance(1))",
           "twisted.internet.defer.Deferred callback semantics (exceptions in callbacks are swallowed into the chain)"]
MANIFEST = {
    "text": "Lean theorems (TwistedProps/C11.lean) over all balanced operation histories of the Cooperator model (any length, scripts, "
            "tick budgets, firing order): never_advanced_unless_runnable_partial — every next() call found its task unpaused, "
            "unfinished and not waiting on a Deferred it yielded (partial only in the Balanced hypothesis, see the finding); "
            "whenDone_fires_exactly_once — no whenDone/coiterate Deferred is ever called back twice, each is un-fired exactly while "
            "its task is unfinished and afterwards holds the task's stored result, which matches the completion kind (iterator on "
            "exhaustion, TaskStopped, SchedulerStopped, the iterator's exception or the yielded Deferred's failure), whether it was "
            "registered before completion (fired by _completeWith, which never raises) or requested after (fired at once); "
            "failed_with_deferred_failure_was_errbacked — a result 'failure of Deferred j' implies j was errbacked; "
            "whenDone_value_never_changes + finished_task_stays_finished + whenDone_deferred_never_lost — a task completes once, a fired "
            "value is final, a Deferred is never dropped or re-owned; "
            "ops_on_finished_raise_matching — pause/stop on a finished task raise the class of its completion; "
            "no_starvation — a task that stays in _tasks (= runnable, in_tasks_iff_runnable) through a stretch of the history without "
            "receiving a next() call sees fewer than N^2 next() calls in that stretch (N = number of tasks): every whole step of the "
            "model is a legal sequence of the four list/iterator moves (step_moves) and each work unit of another task strictly "
            "decreases a rank; tick_scheduled_when_runnable — a started Cooperator with non-empty _tasks always has a delayed call "
            "pending (an un-started one has _mustScheduleOnStart set), and that tick calls next() at least once "
            "(tick_advances_some_task). Model tied to task.py by differential runs of whole "
            "histories (yielded Deferreds of every flavour: plain, subclass, DeferredList, called-but-chained, are one pending "
            "Deferred of the model; coiterate with a caller's doneDeferred is the model's coiterate); an independent history "
            "oracle checks the same statement on the real code, also on re-entrant histories (operations issued from inside "
            "next() and from whenDone/coiterate callbacks), which have no model counterpart.",
    "note": "trusts Lean kernel, the hand-written model of Cooperator/CooperativeTask (differentially tied), CPython list-iterator "
            "semantics; re-entrant use (from next() and from callbacks) is explored by the oracle on the real code only and is not covered by the theorems; the starvation bound proved is N^2 work units "
            "(the oracle checks the tighter (departures+1)*(N-1) on the real code)",
    "technique": "Lean 4 proof (state invariants: membership/pause-count, observer ownership, scheduling; ranking function over "
                 "move sequences) + differential tie + history oracle",
    "design_ref": "DESIGN.md §7 C11",
}

MATCH = {"I": "TaskDone", "E": "TaskFailed", "TS": "TaskStopped", "SS": "SchedulerStopped"}


# ------------------------------------------------------------------------------------------------
# running the real code

class ScriptError(Exception):
    pass


class ScriptBaseError(BaseException):
    """what a script's `r` raises when the case says exc=B: an exception outside the `Exception` hierarchy
    (the statement says "or raising" without restricting the class; seeded change C11-2)"""


class DeferredFailed(Exception):
    pass


class _Terminator:
    def __init__(self, box):
        self.box, self.n = box, 0

    def __call__(self):
        self.n += 1
        return self.n >= self.box[0]


class _SubDeferred(defer.Deferred):
    """a plain subclass of Deferred (item flavour D, even ids)"""


def split_item(it):
    """'@3d5' -> (3, 'd5'); 'v' -> (None, 'v')"""
    if it.startswith("@"):
        n = 1
        while n < len(it) and it[n].isdigit():
            n += 1
        return int(it[1:n]), it[n:]
    return None, it


def is_rx(c):
    return bool(c.get("rx")) or bool(c.get("oh")) or any("@" in o for o in c["ops"] if o[0] in "ncC")


def _flavours(c):
    fl = {}
    for ops in [c["ops"]] + list(c.get("rx") or []):
        for o in ops:
            if o[0] in "ncC":
                for it in parse_script(o[2:]):
                    b = split_item(it)[1]
                    if b[0] in "dDk":
                        fl.setdefault(int(b[1:]), b[0])
    return fl


class _ScriptIter:
    """An iterator that follows a script and logs every next() call; an item `@<n><base>` first runs the
    re-entrant operations rx[n] from inside next()."""

    def __init__(self, idx, items, env):
        self.idx, self.items, self.pos, self.env, self.dead = idx, items, 0, env, False

    def __iter__(self):
        return self

    def __next__(self):
        env = self.env
        env["adv"].append(self.idx)
        env["ev"].append(["a", self.idx])
        try:
            if self.dead or self.pos >= len(self.items):
                self.dead = True
                raise StopIteration
            hook, it = split_item(self.items[self.pos])
            self.pos += 1
            if hook is not None:
                env["hook"](hook, self.idx)
            if it == "v":
                return self.pos
            if it == "e":
                self.dead = True
                raise StopIteration
            if it == "r":
                self.dead = True
                raise env["exc"](self.idx)
            return env["getd"](int(it[1:]))[0]
        finally:
            env["ev"].append(["z"])


def parse_script(s):
    return [] if s == "-" else s.split(",")


def _canon(result, iterator):
    if result is iterator:
        return "I"
    if isinstance(result, Failure):
        if result.check(defer.FirstError):
            result = result.value.subFailure
        if result.check(task.TaskStopped):
            return "TS"
        if result.check(task.SchedulerStopped):
            return "SS"
        if result.check(ScriptError, ScriptBaseError):
            return "E"
        if result.check(DeferredFailed):
            return "F%d" % result.value.args[0]
        return "?" + result.type.__name__
    return "?" + type(result).__name__


MAXTASKS = 14


def run_impl(c):
    clock = task.Clock()
    box = [1]
    coop = task.Cooperator(terminationPredicateFactory=lambda: _Terminator(box),
                           scheduler=lambda f: clock.callLater(1, f), started=bool(c["started"]))
    ds = {}
    flav = _flavours(c)
    rx = c.get("rx") or []
    oh = c.get("oh") or {}
    rxmode = is_rx(c)

    def getd(j):
        """-> (the Deferred a script yields, the Deferred an `f` op fires)"""
        if j not in ds:
            f = flav.get(j, "d")
            if f == "k":
                # already called back, but its callback chain is held by an inner Deferred that has not fired
                inner, outer = defer.Deferred(), defer.Deferred()
                outer.addCallback(lambda _, inner=inner: inner)
                outer.callback(None)
                ds[j] = (outer, inner)
            elif f == "D" and j % 2:
                inner = defer.Deferred()
                ds[j] = (defer.DeferredList([inner], fireOnOneErrback=True, consumeErrors=True), inner)
            elif f == "D":
                d = _SubDeferred()
                ds[j] = (d, d)
            else:
                d = defer.Deferred()
                ds[j] = (d, d)
        return ds[j]

    ev = []
    env = {"adv": [], "getd": getd, "exc": ScriptBaseError if c.get("exc") == "B" else ScriptError, "ev": ev}
    tasks, iters, obs, newly = [], [], [], []

    def observe(d, it, owner):
        o = len(obs)
        obs.append([])

        def rec(r, o=o, it=it, owner=owner):
            v = _canon(r, it)
            obs[o].append(v)
            newly.append(o)
            ev.append(["o", o, v])
            try:
                if str(o) in oh:
                    hook(oh[str(o)], owner)
            finally:
                ev.append(["q"])
            return None
        d.addBoth(rec)

    def hook(n, self_idx):
        if n >= len(rx):
            return
        for op in rx[n]:
            ev.append(["(", op])
            ev.append([")", do_op(op, self_idx, True)])

    env["hook"] = hook

    def do_op(op, self_idx, nested):
        try:
            k = op[0]
            if k in "ncC":
                if len(iters) >= MAXTASKS:
                    return "skip"
                idx = len(iters)
                it = _ScriptIter(idx, parse_script(op[2:]), env)
                iters.append(it)
                tasks.append(None)
                if k == "n":
                    tasks[idx] = coop.cooperate(it)
                elif k == "c":
                    observe(coop.coiterate(it), it, idx)
                else:
                    dd = defer.Deferred()
                    got = coop.coiterate(it, dd)
                    if got is not dd:
                        return "!NotTheDoneDeferred"
                    observe(dd, it, idx)
            elif k in "prsw":
                ti = self_idx if op[1:] == "." else int(op[1:])
                if ti is None or ti >= len(tasks) or tasks[ti] is None:
                    return "skip" if nested else "!NoHandle"
                t = tasks[ti]
                if k == "p":
                    t.pause()
                elif k == "r":
                    t.resume()
                elif k == "s":
                    t.stop()
                else:
                    observe(t.whenDone(), iters[ti], ti)
            elif k == "t" and not nested:
                box[0] = int(op[1:])
                clock.advance(1)
            elif k == "f":
                j = int(op[1:-1])
                if op[-1] == "+":
                    getd(j)[1].callback(None)
                else:
                    getd(j)[1].errback(Failure(DeferredFailed(j)))
            elif k == "S":
                coop.stop()
            elif k == "G":
                coop.start()
            else:
                return "!BadOp"
        except (Exception, ScriptBaseError) as e:  # noqa: BLE001 — the exception class is the observable
            return "!" + type(e).__name__
        return "ok"

    toks, recs = [], []
    for op in c["ops"]:
        del newly[:]
        del ev[:]
        before = len(env["adv"])
        err = do_op(op, None, False)
        if err == "ok":
            err = ""
        if op[0] == "t":
            tok = "t=" + ".".join(str(i) for i in env["adv"][before:]) + err
        else:
            tok = err or "ok"
        for o in sorted(set(newly)):
            tok += "+%d=%s" % (o, "/".join(obs[o]))
        pend = any(dc.active() for dc in clock.getDelayedCalls())
        if pend:
            tok += "*"
        toks.append(tok)
        recs.append([err or "ok", list(ev), pend])
    for d in ds.values():          # keep failures swallowed inside the yielded Deferreds quiet
        d[0].addErrback(lambda f: None)
        d[1].addErrback(lambda f: None)
    obsfinal = ",".join("/".join(v) if v else "-" for v in obs)
    if rxmode:
        return "X" + json.dumps(recs, separators=(",", ":")) + "|obs=" + obsfinal
    return ";".join(toks) + "|obs=" + obsfinal


def _flat_op(o):
    """the op in the model's language: Deferred flavours are one pending Deferred, a passed doneDeferred is a coiterate"""
    if o[0] in "ncC":
        items = []
        for it in parse_script(o[2:]):
            items.append("d" + it[1:] if it[0] in "Dk" else it)
        return ("c" if o[0] == "C" else o[0]) + ":" + (",".join(items) if items else "-")
    return o


def model_line(c):
    if is_rx(c):
        return None          # re-entrant histories: judged by the oracle only (no model counterpart)
    return ("1 " if c["started"] else "0 ") + " ".join(_flat_op(o) for o in c["ops"])


# ------------------------------------------------------------------------------------------------
# the property on the implementation's behaviour: a history oracle that knows only the statement
# (who is paused by its caller, who finished how, who waits on what) — no _tasks, no _metarator.

class _T:
    def __init__(self, items, handle):
        self.items, self.pos = items, 0
        self.up = 0               # caller's outstanding pause() calls
        self.unmatched = 0        # resume() calls that had no pause() of the caller to match
        self.fin = None           # expected whenDone value of the FIRST completion
        self.waiting = set()      # yielded Deferreds still pending
        self.obs = []
        self.wait = 0             # work units given to others while this one was runnable
        self.removals = 0         # other tasks that left the runnable set meanwhile
        self.handle = handle
        self.tainted = False      # an unmatched resume() released it while it waited on a Deferred: only
                                  # "never advanced while waiting" is still judged for this task

    def runnable(self):
        return self.fin is None and self.up == 0 and not self.waiting and not self.tainted


def _parse_tok(tok):
    pending = tok.endswith("*")
    if pending:
        tok = tok[:-1]
    parts = tok.split("+")
    fired = {}
    for p in parts[1:]:
        o, v = p.split("=")
        fired[int(o)] = v
    return parts[0], fired, pending


def oracle(c, out):
    try:
        if is_rx(c) and not out.startswith("!raised"):
            return _oracle_rx(c, out)
        return _oracle(c, out)
    except (ValueError, IndexError, KeyError) as e:
        return {"key": "oracle-cannot-parse", "detail": f"{type(e).__name__}: {e} on {out!r}"}


def _oracle(c, out):
    if out.startswith("!raised"):
        return {"key": "harness-raised", "detail": out}
    body, obsfinal = out.split("|obs=")
    toks = body.split(";") if body else []
    ops = [_flat_op(o) for o in c["ops"]]
    if len(toks) != len(ops):
        return {"key": "oracle-cannot-parse", "detail": "token count"}
    T, obs_owner, obs_val, fired_d = [], [], [], {}
    started, stopped = bool(c["started"]), False

    def bad(key, i, msg):
        return {"key": key, "detail": f"op #{i} {ops[i]!r} -> {toks[i]!r}: {msg}"}

    def others_removed(t):
        for u in T:
            if u is not t and u.runnable():
                u.removals += 1

    def finish(t, val):
        if t.fin is None:
            if t.runnable():
                others_removed(t)
            t.fin = val

    def became_runnable(t):
        # a task that becomes runnable while the cooperator is stopped is completed with SchedulerStopped
        t.wait, t.removals = 0, 0
        if stopped and t.runnable():
            t.fin = "SS"

    for i, (op, tok) in enumerate(zip(ops, toks)):
        res, fired_now, pending = _parse_tok(tok)
        k = op[0]
        if "!NoHandle" in res or "!BadOp" in res:
            return None          # not a history of the public API (generator never produces these)
        if k in "nc":
            t = _T(parse_script(op[2:]), k == "n")
            T.append(t)
            if res != "ok":
                return bad("create-raised", i, "creating a task raised")
            if k == "c":
                obs_owner.append(len(T) - 1)
                obs_val.append(None)
                t.obs.append(len(obs_owner) - 1)
            became_runnable(t)
        elif k in "ps":
            t = T[int(op[1:])]
            if t.tainted:
                if res == "ok" and k == "s":
                    t.fin = "TS"
            elif t.fin is not None:
                want = "!" + MATCH.get(t.fin, "TaskFailed")
                if res != want:
                    key = "completion-overwritten" if res.startswith("!Task") or res == "!SchedulerStopped" else "finished-op-wrong-exception"
                    return bad(key, i, f"task finished with {t.fin}: expected {want}")
            else:
                if res != "ok":
                    key = "cooperator-stop-skips-task" if res == "!ValueError" else "live-op-raised"
                    return bad(key, i, "operation on an unfinished task raised")
                if k == "p":
                    if t.runnable():
                        others_removed(t)
                    t.up += 1
                else:
                    finish(t, "TS")
        elif k == "r":
            t = T[int(op[1:])]
            if t.up > 0:
                if res != "ok":
                    return bad("resume-raised", i, "resume() matching an outstanding pause() raised")
                t.up -= 1
                if t.up == 0:
                    became_runnable(t)
            else:
                if res == "ok":
                    t.unmatched += 1     # resume() with nothing of the caller's to resume was accepted
                    if t.waiting:
                        t.tainted = True
        elif k == "w":
            t = T[int(op[1:])]
            obs_owner.append(int(op[1:]))
            obs_val.append(None)
            t.obs.append(len(obs_owner) - 1)
            if res != "ok":
                return bad("whendone-raised", i, "whenDone raised")
        elif k == "t":
            head = res[2:]
            excp = ""
            if "!" in head:
                head, excp = head.split("!", 1)
            adv = [int(x) for x in head.split(".")] if head else []
            for a in adv:
                t = T[a]
                why = None
                if t.tainted:
                    if t.waiting:
                        return bad("unmatched-resume-advanced-while-waiting", i,
                                   f"task {a} advanced while waiting on Deferred(s) {sorted(t.waiting)} after {t.unmatched} "
                                   "resume() call(s) without a matching pause()")
                    others_removed(t)
                elif t.fin is not None:
                    why = ("advanced-while-finished", f"finished ({t.fin})")
                elif t.up > 0:
                    why = ("advanced-while-paused", f"paused by its caller ({t.up} outstanding)")
                elif t.waiting:
                    key = "unmatched-resume-advanced-while-waiting" if t.unmatched else "advanced-while-waiting"
                    why = (key, f"waiting on Deferred(s) {sorted(t.waiting)}"
                           + (f" after {t.unmatched} resume() call(s) without a matching pause()" if t.unmatched else ""))
                if why:
                    return bad(why[0], i, f"task {a} advanced while {why[1]}")
                n = len(T)
                for u in T:
                    if u is not t and u.runnable():
                        u.wait += 1
                        if u.wait > (u.removals + 1) * max(1, n - 1):
                            return bad("starved", i, f"task {T.index(u)} stayed runnable through {u.wait} work units of "
                                       f"other tasks ({u.removals} departures, {n} tasks) without being advanced")
                t.wait, t.removals = 0, 0
                if t.pos >= len(t.items):
                    finish(t, "I")
                else:
                    it = t.items[t.pos]
                    t.pos += 1
                    if it == "r":
                        t.items = t.items[:t.pos]
                        finish(t, "E")
                    elif it != "v":
                        j = int(it[1:])
                        others_removed(t)      # pause() + (possibly immediate) resume(): it leaves and re-enters the list
                        if j not in fired_d:
                            t.waiting.add(j)
                        elif not fired_d[j]:
                            t.fin = "F%d" % j
                        else:
                            became_runnable(t)
            if excp:
                return bad("tick-raised", i, f"the scheduler tick raised {excp}")
        elif k == "f":
            j = int(op[1:-1])
            if j in fired_d:
                continue
            if res != "ok":
                return bad("fire-raised", i, "firing a yielded Deferred raised")
            fired_d[j] = op[-1] == "+"
            for t in T:
                if j in t.waiting:
                    t.waiting.discard(j)
                    if fired_d[j]:
                        if t.fin is None and t.up == 0 and not t.waiting:
                            became_runnable(t)
                    elif t.fin is None:
                        t.fin = "F%d" % j
        elif k == "S":
            if res != "ok":
                return bad("cooperator-stop-raised", i, "Cooperator.stop raised")
            stopped = True
            for t in T:
                if t.runnable():
                    t.fin = "SS"
        elif k == "G":
            stopped, started = False, True
        # -- after every op: observers fire exactly when their task finishes, with the value of its first completion
        for o, v in fired_now.items():
            if "/" in v:
                return bad("whendone-fired-twice", i, f"observer {o} fired more than once: {v}")
            if obs_val[o] is not None:
                return bad("whendone-fired-twice", i, f"observer {o} fired again")
            obs_val[o] = v
        for o, owner in enumerate(obs_owner):
            t = T[owner]
            if t.tainted:
                continue
            if t.fin is None and obs_val[o] is not None:
                return bad("whendone-fired-early", i, f"observer {o} of unfinished task {owner} fired with {obs_val[o]}")
            if t.fin is not None and obs_val[o] is None:
                key = "cooperator-stop-skips-task" if k == "S" else "whendone-not-fired"
                return bad(key, i, f"task {owner} finished ({t.fin}) but its whenDone/coiterate Deferred {o} has not fired")
            if t.fin is not None and obs_val[o] != t.fin:
                return bad("completion-overwritten" if k == "w" else "whendone-wrong-value", i,
                           f"observer {o} of task {owner} fired with {obs_val[o]}, task finished with {t.fin}")
        # -- a runnable task and a started, running cooperator ⇒ a tick is scheduled
        if started and not stopped and any(t.runnable() for t in T) and not pending:
            return bad("runnable-but-no-tick-scheduled", i, "runnable tasks exist but no delayed call is pending")
    final = obsfinal.split(",") if obsfinal else []
    if [v if v is not None else "-" for v in obs_val] != final:
        return {"key": "whendone-fired-twice", "detail": f"final observer values {final} differ from the per-op record {obs_val}"}
    return None


# ------------------------------------------------------------------------------------------------
# the same statement on RE-ENTRANT histories: operations issued from inside an iterator's next() or from a
# whenDone/coiterate callback are operations of the history that happen at that moment.  The implementation's
# observable is an event stream per top-level op: ["(", op] … [")", result] around every (nested) operation,
# ["a", t] … ["z"] around every next() call, ["o", obs, value] … ["q"] around every observer callback.

class _Ignore(Exception):
    pass


class _Judge:
    def __init__(self, started):
        self.T, self.obs_owner, self.obs_val, self.fired_d = [], [], [], {}
        self.started, self.stopped = started, False
        self.stack = []
        self.i, self.top = 0, ""

    def bad(self, key, msg):
        return {"key": key, "detail": f"op #{self.i} {self.top!r}: {msg}"}

    # -- the bookkeeping of the flat oracle
    def others_removed(self, t):
        for u in self.T:
            if u is not t and u.runnable():
                u.removals += 1

    def finish(self, t, val):
        if t.fin is None:
            if t.runnable():
                self.others_removed(t)
            t.fin = val

    def became_runnable(self, t):
        t.wait, t.removals = 0, 0
        if self.stopped and t.runnable():
            t.fin = "SS"

    def new_obs(self, ti):
        self.obs_owner.append(ti)
        self.obs_val.append(None)
        self.T[ti].obs.append(len(self.obs_owner) - 1)

    def self_idx(self):
        for fr in reversed(self.stack):
            if fr["kind"] in "ao":
                return fr["ti"]
        return None

    def open_stop_frame(self, t):
        for fr in reversed(self.stack):
            if fr["kind"] == "op" and fr["op"] == "S" and id(t) in fr["R"]:
                return fr
        return None

    def apply_ps(self, k, t):
        if k == "p":
            if t.runnable():
                self.others_removed(t)
            t.up += 1
        else:
            self.finish(t, "TS")

    # -- events
    def event(self, e):
        kind = e[0]
        if kind == "(":
            return self.op_begin(e[1])
        if kind == ")":
            return self.op_end(self.stack.pop(), e[1])
        if kind == "a":
            return self.adv_begin(e[1])
        if kind == "z":
            return self.adv_end(self.stack.pop())
        if kind == "o":
            return self.obs_fire(e[1], e[2])
        if kind == "q":
            self.stack.pop()
            return None
        raise ValueError("event " + repr(e))

    def op_begin(self, op):
        fr = {"kind": "op", "op": op, "expect": "ok", "key": "live-op-raised", "late": None, "t": None}
        nested = bool(self.stack)
        self.stack.append(fr)
        k = op[0]
        if k in "ncC":
            if len(self.T) >= MAXTASKS:
                fr["expect"] = "skip"
                return None
            t = _T(parse_script(op[2:]), k == "n")
            self.T.append(t)
            if k != "n":
                self.new_obs(len(self.T) - 1)
            self.became_runnable(t)
            fr["key"] = "create-raised"
        elif k in "prsw":
            ti = self.self_idx() if op[1:] == "." else int(op[1:])
            if ti is None or ti >= len(self.T) or not self.T[ti].handle:
                if not nested:
                    raise _Ignore()
                fr["expect"] = "skip"
                return None
            t = fr["t"] = self.T[ti]
            if k == "w":
                self.new_obs(ti)
                fr["key"] = "whendone-raised"
            elif k == "r":
                if t.up > 0:
                    fr["key"] = "resume-raised"
                    t.up -= 1
                    if t.up == 0:
                        self.became_runnable(t)
                else:
                    fr["expect"] = None
                    if t.waiting:
                        # accepted by the code (known finding): from here only "never advanced while waiting" is judged
                        t.unmatched += 1
                        t.tainted = True
            elif t.tainted:
                fr["expect"], fr["late"] = None, "tainted"
            elif t.fin is not None:
                fr["expect"], fr["key"] = "!" + MATCH.get(t.fin, "TaskFailed"), "finished-op-wrong-exception"
            elif self.open_stop_frame(t) is not None:
                # a Cooperator.stop() is in progress and this task was runnable when it began: whether stop() has
                # reached it yet is not determined by the statement — decided by the result
                fr["expect"], fr["late"] = None, k
            else:
                self.apply_ps(k, t)
        elif k == "f":
            j = int(op[1:-1])
            if j in self.fired_d:
                fr["expect"] = None
                return None
            fr["key"] = "fire-raised"
            ok = self.fired_d[j] = op[-1] == "+"
            for t in self.T:
                if j in t.waiting:
                    t.waiting.discard(j)
                    if ok:
                        if t.fin is None and t.up == 0 and not t.waiting:
                            self.became_runnable(t)
                    elif t.fin is None:
                        t.fin = "F%d" % j
        elif k == "S":
            fr["key"] = "cooperator-stop-raised"
            self.stopped = True
            fr["R"] = {id(t) for t in self.T if t.runnable()}
        elif k == "G":
            self.stopped, self.started = False, True
            fr["expect"] = None
        elif k == "t":
            if nested:
                raise ValueError("nested tick")
            fr["key"] = "tick-raised"
        else:
            raise _Ignore()
        return None

    def op_end(self, fr, res):
        op, k, t = fr["op"], fr["op"][0], fr["t"]
        if res in ("!NoHandle", "!BadOp"):
            raise _Ignore()
        if fr["expect"] == "skip" or res == "skip":
            if fr["expect"] != res:
                raise ValueError(f"skip mismatch on {op}")
            return None
        if fr["late"] == "tainted":
            if res == "ok" and k == "s":
                t.fin = "TS"
            return None
        if fr["late"] in ("p", "s"):
            if fr.get("resolved"):
                want = "ok"
            elif res == "!SchedulerStopped" and t.fin in (None, "SS"):
                t.fin = "SS"
                return None
            elif t.fin is not None:
                want = "!" + MATCH.get(t.fin, "TaskFailed")
            else:
                want = "ok"
                if res == "ok":
                    self.apply_ps(k, t)
            if res != want:
                return self.bad("live-op-raised" if want == "ok" else "finished-op-wrong-exception",
                                f"{op} during Cooperator.stop() -> {res}, expected {want}")
            return None
        if k == "S" and res == "ok":
            for u in self.T:
                if u.runnable():
                    u.fin = "SS"
        if fr["expect"] is not None and res != fr["expect"]:
            key = fr["key"]
            if key == "finished-op-wrong-exception" and (res.startswith("!Task") or res == "!SchedulerStopped"):
                key = "completion-overwritten"
            if key == "live-op-raised" and res == "!ValueError":
                key = "cooperator-stop-skips-task"
            return self.bad(key, f"{op} -> {res}, expected {fr['expect']}"
                            + (f" (task finished with {t.fin})" if t is not None and t.fin else ""))
        return None

    def adv_begin(self, a):
        T = self.T
        t = T[a]
        why = None
        if t.tainted:
            if t.waiting:
                return self.bad("unmatched-resume-advanced-while-waiting",
                                f"task {a} advanced while waiting on Deferred(s) {sorted(t.waiting)} after {t.unmatched} "
                                "resume() call(s) without a matching pause()")
            self.others_removed(t)
        elif t.fin is not None:
            why = ("advanced-while-finished", f"finished ({t.fin})")
        elif t.up > 0:
            why = ("advanced-while-paused", f"paused by its caller ({t.up} outstanding)")
        elif t.waiting:
            why = ("advanced-while-waiting", f"waiting on Deferred(s) {sorted(t.waiting)}")
        if why:
            return self.bad(why[0], f"task {a} advanced while {why[1]}")
        n = len(T)
        for u in T:
            if u is not t and u.runnable():
                u.wait += 1
                if u.wait > (u.removals + 1) * max(1, n - 1):
                    return self.bad("starved", f"task {T.index(u)} stayed runnable through {u.wait} work units of "
                                    f"other tasks ({u.removals} departures, {n} tasks) without being advanced")
        t.wait, t.removals = 0, 0
        item = None
        if t.pos < len(t.items):
            item = split_item(t.items[t.pos])[1]
            t.pos += 1
        self.stack.append({"kind": "a", "ti": a, "item": item})
        return None

    def adv_end(self, fr):
        t, item = self.T[fr["ti"]], fr["item"]
        if item is None or item == "e":
            self.finish(t, "I")
        elif item == "r":
            self.finish(t, "E")
        elif item != "v" and t.fin is None:
            # (a task that was stopped from inside this very next() call completes once: the Deferred is not waited for)
            j = int(item[1:])
            self.others_removed(t)
            if j not in self.fired_d:
                t.waiting.add(j)
            elif not self.fired_d[j]:
                t.fin = "F%d" % j
            else:
                self.became_runnable(t)
        return None

    def obs_fire(self, o, v):
        if o >= len(self.obs_val):
            raise ValueError("observer index")
        if self.obs_val[o] is not None:
            return self.bad("whendone-fired-twice", f"observer {o} fired again")
        self.obs_val[o] = v
        ti = self.obs_owner[o]
        t = self.T[ti]
        if t.fin is None and not t.tainted:
            for fr in reversed(self.stack):
                if fr["kind"] != "op":
                    continue
                if fr["late"] == "s" and fr["t"] is t and v == "TS":
                    self.finish(t, "TS")
                    fr["resolved"] = True
                    break
                if fr["op"] == "S" and id(t) in fr["R"] and v == "SS":
                    t.fin = "SS"
                    break
        self.stack.append({"kind": "o", "ti": ti})
        return None

    def end_top(self, k, pend):
        for o, owner in enumerate(self.obs_owner):
            t = self.T[owner]
            if t.tainted:
                continue
            if t.fin is None and self.obs_val[o] is not None:
                return self.bad("whendone-fired-early", f"observer {o} of unfinished task {owner} fired with {self.obs_val[o]}")
            if t.fin is not None and self.obs_val[o] is None:
                key = "cooperator-stop-skips-task" if k == "S" else "whendone-not-fired"
                return self.bad(key, f"task {owner} finished ({t.fin}) but its whenDone/coiterate Deferred {o} has not fired")
            if t.fin is not None and self.obs_val[o] != t.fin:
                return self.bad("completion-overwritten" if k == "w" else "whendone-wrong-value",
                                f"observer {o} of task {owner} fired with {self.obs_val[o]}, task finished with {t.fin}")
        if self.started and not self.stopped and any(t.runnable() for t in self.T) and not pend:
            return self.bad("runnable-but-no-tick-scheduled", "runnable tasks exist but no delayed call is pending")
        return None


def _oracle_rx(c, out):
    body, obsfinal = out.split("|obs=")
    recs = json.loads(body[1:])
    ops = c["ops"]
    if len(recs) != len(ops):
        return {"key": "oracle-cannot-parse", "detail": "record count"}
    J = _Judge(bool(c["started"]))
    try:
        for i, (op, (res, ev, pend)) in enumerate(zip(ops, recs)):
            J.i, J.top = i, f"{op} -> {res}"
            for e in [["(", op]] + ev + [[")", res]]:
                v = J.event(e)
                if v:
                    return v
            if J.stack:
                raise ValueError("unbalanced events")
            v = J.end_top(op[0], pend)
            if v:
                return v
    except _Ignore:
        return None          # not a history of the public API
    final = obsfinal.split(",") if obsfinal else []
    if [v if v is not None else "-" for v in J.obs_val] != final:
        return {"key": "whendone-fired-twice", "detail": f"final observer values {final} differ from the per-op record {J.obs_val}"}
    return None


# ------------------------------------------------------------------------------------------------
# cases

def corpus():
    cs = [
        # Cooperator.stop with 4 runnable tasks (the hand-found defect): every whenDone must fire
        ["n:v,v", "n:v", "n:v", "n:v", "w0", "w1", "w2", "w3", "S", "p0", "p1"],
        ["n:v", "n:v", "w1", "S"],
        # removal under iteration inside a tick
        ["n:-", "n:v,v,v", "n:v,v", "n:v,v", "t10", "t2", "t5"],
        # pause while waiting on a Deferred, fire, resume
        ["n:v,d1,v", "w0", "t3", "p0", "t1", "f1+", "t1", "r0", "t5", "t5"],
        # stop while waiting, then the Deferred fails
        ["n:d1,v", "w0", "t1", "s0", "f1-", "w0", "p0"],
        # Deferred already fired when yielded (success / failure)
        ["f1+", "f2-", "n:d1,v,d2,v", "n:v,v,v,v", "w0", "t2", "t2", "t2", "t2"],
        # coiterate, raise, stop, restart
        ["c:v,r", "c:v,v", "n:v", "t2", "t2", "S", "n:v", "G", "n:v,v", "w4", "t3", "t3"],
        # started=False
        ["n:v", "t1", "G", "t1", "t1"],
        # resume with no pause of the caller while waiting on a Deferred
        ["n:d1,v,v", "t1", "r0", "t1", "f1+", "t1"],
        # pause / stop / resume combinations
        ["n:v,v", "p0", "p0", "s0", "r0", "r0", "r0", "t1", "w0", "s0", "p0"],
    ]
    out = [{"started": True, "ops": ops} for ops in cs]
    out[7]["started"] = False
    # iterators raising outside the Exception hierarchy (seeded change C11-2): same expected behaviour
    out += [{"started": True, "ops": ops, "exc": "B"} for ops in (
        ["n:v,r", "n:v,v,v", "w0", "w1", "t1", "t1", "t1", "t3", "s0", "p0"],
        ["c:r", "n:v,v", "t1", "t1", "t1"],
        cs[6])]
    # Deferred flavours (a subclass instance, a DeferredList, an already-called Deferred whose chain is held by an inner
    # Deferred) and coiterate(it, doneDeferred) — white-box mutants m01, m04, m02
    out += [{"started": True, "ops": ops} for ops in (
        ["n:D2,v", "n:D1,v", "w0", "w1", "t2", "t2", "f1+", "f2-", "t2", "t2"],
        ["n:D1,v", "n:D3,v", "w0", "w1", "t2", "f1-", "f3+", "t2", "t2"],
        ["n:k1,v", "n:k2,v", "w0", "w1", "t2", "t2", "f1+", "t2", "f2-", "t2", "t2"],
        ["f1+", "f2-", "n:k1,D2,v", "w0", "t1", "t1", "t1"],
        ["C:r", "C:v,d1", "C:-", "t3", "f1-", "t1", "C:v,v", "S", "C:v"])]
    # re-entrant histories.  Genuine defects found by this audit (fixed: a task completes only once also when it is
    # stopped from inside its own next(); Cooperator.stop() survives callbacks that stop/pause other tasks or stop again):
    out += [{"started": True, "ops": ops, "rx": rx, "oh": oh} for ops, rx, oh in (
        (["n:@0e", "n:v,v,v", "w0", "t1", "t1", "t1", "t1", "p0"], [["s."]], {}),         # stop() self, then StopIteration
        (["n:@0d1,v", "n:v,v,v", "w0", "t1", "t1", "t1", "f1+", "t2"], [["s."]], {}),      # stop() self, then yield a Deferred
        (["n:@0r", "n:v,v,v", "w0", "t1", "t1", "t1", "t1"], [["s."]], {}),                # stop() self, then raise
        (["n:@0e", "w0", "t1", "p0", "w0"], [["p.", "s."]], {}),                           # pause()+stop() self, then StopIteration
        (["n:@0e", "n:v,v", "w0", "w1", "t1", "t1", "p1"], [["S"]], {}),                   # Cooperator.stop() from next()
        (["n:v", "n:v", "n:v", "w0", "w2", "S", "p2", "p1"], [["s1"]], {"0": 0}),          # callback stops another task during Cooperator.stop()
        (["n:v", "n:v", "n:v", "w0", "w1", "w2", "S", "p2"], [["S"]], {"0": 0}),           # callback stops the cooperator again
        (["n:v", "n:v", "n:v", "w0", "w1", "S", "r1", "p1"], [["p1"]], {"0": 0}),          # callback pauses another task during stop()
        # white-box mutants m03, m06, m11
        (["n:-", "n:v,v", "w0", "w1", "t1", "p1"], [["S"]], {"0": 0}),
        (["n:@0d1,v", "n:v,v", "t1", "t1", "f1+", "r0", "t2", "t2"], [["p."]], {}),
        (["n:v", "w0", "S", "p1", "t1"], [["c:v", "n:v"]], {"0": 0}),
        # a callback that creates tasks / fires Deferreds / asks whenDone again inside a tick
        (["n:-", "n:d1,v", "w0", "w1", "t2", "t2", "t2"], [["w.", "f1+", "n:v"]], {"0": 0}),
        # an iterator pausing / resuming / stopping other tasks in the same round
        (["n:@0v,@1v,v", "n:v,v,v", "n:v,v,v", "w1", "t3", "t3", "t3", "t3"], [["p1", "s2"], ["r1"]], {}),
    )]
    return out


def _script(rng, dctr, maxlen=6):
    items = []
    for _ in range(rng.choice([0, 1, 1, 2, 3, 4, maxlen])):
        r = rng.random()
        if r < 0.62:
            items.append("v")
        elif r < 0.92:
            dctr[0] += 1
            # d: plain Deferred; D: an instance of a subclass (even ids a trivial one, odd ids a DeferredList over the
            # Deferred that gets fired); k: already called back, its chain held by an unfired inner Deferred
            items.append("%s%d" % (rng.choice("ddddddDDDkk"), dctr[0]))
        else:
            items.append("r")
            break
    return ",".join(items) if items else "-"


def _history(rng, nops, unmatched=False):
    dctr = [0]
    ops, handles, ntasks = [], [], 0
    started = rng.random() < 0.9
    ntask0 = rng.randint(1, 6)
    prefire = []
    for _ in range(ntask0):
        k = "n" if rng.random() < 0.85 else rng.choice("cC")
        ops.append(k + ":" + _script(rng, dctr))
        if k == "n":
            handles.append(ntasks)
        ntasks += 1
    fired = set()
    up = {}
    for _ in range(nops):
        r = rng.random()
        if r < 0.30:
            ops.append("t%d" % rng.choice([1, 1, 1, 2, 2, 3, 4, 7, 10]))
        elif r < 0.42 and handles:
            t = rng.choice(handles)
            ops.append("p%d" % t)
            up[t] = up.get(t, 0) + 1
        elif r < 0.54 and handles:
            cands = [t for t in handles if up.get(t, 0) > 0]
            if cands and (not unmatched or rng.random() < 0.7):
                t = rng.choice(cands)
                up[t] -= 1
            elif unmatched or rng.random() < 0.08:
                t = rng.choice(handles)
            else:
                continue
            ops.append("r%d" % t)
        elif r < 0.60 and handles:
            ops.append("s%d" % rng.choice(handles))
        elif r < 0.70 and handles:
            ops.append("w%d" % rng.choice(handles))
        elif r < 0.86 and dctr[0]:
            j = rng.randint(1, dctr[0])
            if j not in fired:
                fired.add(j)
                ops.append("f%d%s" % (j, "+" if rng.random() < 0.7 else "-"))
        elif r < 0.90:
            ops.append("S")
        elif r < 0.93:
            ops.append("G")
        elif ntasks < 8:
            k = "n" if rng.random() < 0.8 else rng.choice("cC")
            ops.append(k + ":" + _script(rng, dctr))
            if k == "n":
                handles.append(ntasks)
            ntasks += 1
    return {"started": started, "ops": ops}


def _rx_script(rng, dctr, nrx):
    """a script whose items may carry a hook `@n` (run rx[n] from inside next())"""
    items = []
    for _ in range(rng.choice([1, 1, 2, 3, 4, 5])):
        r = rng.random()
        if r < 0.55:
            it = "v"
        elif r < 0.85:
            dctr[0] += 1
            it = "%s%d" % (rng.choice("ddddDk"), dctr[0])
        elif r < 0.93:
            it = "r"
        else:
            it = "e"
        if nrx and rng.random() < 0.35:
            it = "@%d%s" % (rng.randrange(nrx), it)
        items.append(it)
        if it[-1] in "re":
            break
    return ",".join(items)


def _rx_history(rng, nops):
    """a history with re-entrant operations: rx[n] are operation lists run from inside next() (items `@n…`) or from a
    whenDone/coiterate callback (oh: observer index -> n)"""
    dctr = [0]
    nrx = rng.randint(1, 4)
    ntask0 = rng.randint(2, 5)
    ops, handles, ntasks, nobs = [], [], 0, 0

    def create(allow_hooks=True):
        nonlocal ntasks, nobs
        k = "n" if rng.random() < 0.75 else rng.choice("cC")
        ops.append(k + ":" + _rx_script(rng, dctr, nrx if allow_hooks else 0))
        if k == "n":
            handles.append(ntasks)
        else:
            nobs += 1
        ntasks += 1

    for _ in range(ntask0):
        create()
    for t in handles:
        if rng.random() < 0.6:
            ops.append("w%d" % t)
            nobs += 1
    fired, up = set(), {}
    for _ in range(nops):
        r = rng.random()
        if r < 0.40:
            ops.append("t%d" % rng.choice([1, 1, 2, 2, 3, 4, 7]))
        elif r < 0.48 and handles:
            t = rng.choice(handles)
            ops.append("p%d" % t)
            up[t] = up.get(t, 0) + 1
        elif r < 0.56 and handles:
            cands = [t for t in handles if up.get(t, 0) > 0]
            if cands:
                t = rng.choice(cands)
                up[t] -= 1
                ops.append("r%d" % t)
        elif r < 0.61 and handles:
            ops.append("s%d" % rng.choice(handles))
        elif r < 0.69 and handles:
            ops.append("w%d" % rng.choice(handles))
            nobs += 1
        elif r < 0.82 and dctr[0]:
            j = rng.randint(1, dctr[0])
            if j not in fired:
                fired.add(j)
                ops.append("f%d%s" % (j, "+" if rng.random() < 0.7 else "-"))
        elif r < 0.90:
            ops.append("S")
        elif r < 0.93:
            ops.append("G")
        elif ntasks < 8:
            create()
    # the re-entrant operation lists
    rx = []
    for _ in range(nrx):
        lst = []
        for _ in range(rng.choice([1, 1, 1, 2, 2, 3])):
            r = rng.random()
            tgt = "." if rng.random() < 0.45 else str(rng.randrange(max(1, ntasks)))
            if r < 0.22:
                lst.append("p" + tgt)
            elif r < 0.32:
                lst.append("r" + tgt)
            elif r < 0.52:
                lst.append("s" + tgt)
            elif r < 0.60:
                lst.append("w" + tgt)
            elif r < 0.70 and dctr[0]:
                lst.append("f%d%s" % (rng.randint(1, dctr[0]), rng.choice("++-")))
            elif r < 0.84:
                lst.append("S")
            else:
                sub = [0]
                lst.append(rng.choice("nnc") + ":" + ",".join(rng.choice(["v", "v", "r"]) for _ in range(rng.randint(1, 2))))
        rx.append(lst)
    oh = {}
    for o in range(nobs + 1):
        if rng.random() < 0.5:
            oh[str(o)] = rng.randrange(nrx)
    return {"started": rng.random() < 0.92, "ops": ops, "rx": rx, "oh": oh}


def _stop_family():
    """every layout of up to 5 tasks being runnable / paused / waiting when Cooperator.stop() is called"""
    out = []
    for n in range(1, 6):
        for mask in range(3 ** n):
            ops, m, kinds = [], mask, []
            for t in range(n):
                kinds.append(m % 3)
                m //= 3
            for t, kd in enumerate(kinds):
                ops.append("n:d%d,v" % (t + 1) if kd == 2 else "n:v,v")
            ops += ["w%d" % t for t in range(n)]
            if 2 in kinds:
                ops.append("t%d" % n)
            ops += ["p%d" % t for t, kd in enumerate(kinds) if kd == 1]
            ops.append("S")
            ops += ["p%d" % t for t in range(n)]
            out.append({"started": True, "ops": ops})
    return out


def generate(rng, tier):
    fam = _stop_family()
    if tier == "quick":
        rng2 = rng
        fam = [c for c in fam if len([o for o in c["ops"] if o[0] == "n"]) <= 4]
        n = 1600
    else:
        n = 30000
    yield from fam
    for i in range(n):
        h = _history(rng, rng.choice([6, 12, 20, 30, 45]), unmatched=(i % 10 == 0))
        if i % 3 == 1 and any(o[0] in "ncC" and "r" in o[2:].split(",") for o in h["ops"]):
            h["exc"] = "B"
        yield h
    # re-entrant histories (oracle only): operations issued from inside next() and from whenDone/coiterate callbacks
    for i in range(n // 2):
        h = _rx_history(rng, rng.choice([4, 8, 12, 20, 30]))
        if i % 5 == 1:
            h["exc"] = "B"
        yield h
    # long fair-share runs: many ticks of small budget over long scripts with pauses in between
    for i in range(n // 8):
        k = rng.randint(2, 8)
        ops = ["n:" + ",".join(["v"] * rng.randint(1, 14)) for _ in range(k)]
        for _ in range(rng.randint(10, 40)):
            r = rng.random()
            if r < 0.7:
                ops.append("t%d" % rng.choice([1, 1, 2, 3, 5]))
            elif r < 0.85:
                ops.append("p%d" % rng.randrange(k))
            else:
                ops.append("r%d" % rng.randrange(k))
        # only balanced resumes in this family
        bal, keep = {}, []
        for o in ops:
            if o[0] == "p":
                bal[o[1:]] = bal.get(o[1:], 0) + 1
            if o[0] == "r":
                if bal.get(o[1:], 0) == 0:
                    continue
                bal[o[1:]] -= 1
            keep.append(o)
        yield {"started": True, "ops": keep}


def shrink(c):
    extra = {k: c[k] for k in ("exc", "rx", "oh") if c.get(k)}
    for d in _shrink(c):
        d.update(extra)
        yield d
    for k in extra:
        yield {kk: v for kk, v in c.items() if kk != k}
    # fewer re-entrant operations / hooks
    rx, oh = c.get("rx") or [], c.get("oh") or {}
    for n, lst in enumerate(rx):
        for j in range(len(lst)):
            d = dict(c)
            d["rx"] = rx[:n] + [lst[:j] + lst[j + 1:]] + rx[n + 1:]
            yield d
    for o in oh:
        d = dict(c)
        d["oh"] = {k: v for k, v in oh.items() if k != o}
        yield d
    for i, o in enumerate(c["ops"]):
        if o[0] in "ncC" and "@" in o:
            items = o[2:].split(",")
            for j, it in enumerate(items):
                if it.startswith("@"):
                    new = items[:j] + [split_item(it)[1]] + items[j + 1:]
                    d = dict(c)
                    d["ops"] = c["ops"][:i] + [o[:2] + ",".join(new)] + c["ops"][i + 1:]
                    yield d


def _shrink(c):
    ops = c["ops"]
    # drop one op (re-numbering task indices when a creation is dropped)
    for i in range(len(ops) - 1, -1, -1):
        if ops[i][0] in "ncC":
            idx = sum(1 for o in ops[:i] if o[0] in "ncC")
            rest, okay = [], True
            for o in ops[:i] + ops[i + 1:]:
                if o[0] in "prsw":
                    t = int(o[1:])
                    if t == idx:
                        continue
                    if t > idx:
                        o = o[0] + str(t - 1)
                rest.append(o)
            # a handle may now point at a coiterate task: run_impl answers !NoHandle and the oracle ignores the case
            yield {"started": c["started"], "ops": rest}
        else:
            yield {"started": c["started"], "ops": ops[:i] + ops[i + 1:]}
    # shorten scripts, shrink budgets
    for i, o in enumerate(ops):
        if o[0] in "ncC" and o[2:] != "-":
            items = o[2:].split(",")
            for j in range(len(items)):
                new = items[:j] + items[j + 1:]
                yield {"started": c["started"], "ops": ops[:i] + [o[:2] + (",".join(new) if new else "-")] + ops[i + 1:]}
        if o[0] == "t" and int(o[1:]) > 1:
            yield {"started": c["started"], "ops": ops[:i] + ["t%d" % (int(o[1:]) - 1)] + ops[i + 1:]}
    if not c["started"]:
        yield {"started": True, "ops": ops}


def search(rng, tier, disagreeing):
    yield from _stop_family()
    for c in disagreeing[:20]:
        ops = c["ops"]
        for i in range(len(ops) + 1):            # a Cooperator.stop / a tick at every cut point
            yield {"started": c["started"], "ops": ops[:i] + ["S"] + ops[i:]}
            yield {"started": c["started"], "ops": ops[:i] + ["t1"] + ops[i:]}
    for i in range(3000 if tier == "quick" else 20000):
        yield _history(rng, rng.choice([10, 20, 40]), unmatched=(i % 5 == 0))


def tag(c, out):
    feats = set()
    if c.get("exc"):
        feats.add("exc" + c["exc"])
    ops = c["ops"]
    for o in ops:
        if o[0] in "ncC":
            if o[0] == "C":
                feats.add("doneDeferred")
            for it in parse_script(o[2:]):
                b = split_item(it)[1]
                if b[0] in "Dk":
                    feats.add("flav" + b[0] + (str(int(b[1:]) % 2) if b[0] == "D" else ""))
    if not c["started"]:
        feats.add("unstarted")
    if any("d" in o or "D" in o or "k" in o for o in ops if o[0] in "ncC"):
        feats.add("D")
    if is_rx(c) and out.startswith("X"):
        recs = json.loads(out.split("|obs=")[0][1:])
        for o, (res, ev, pend) in zip(ops, recs):
            if res != "ok":
                feats.add(o[0] + res)
            ctx = [o[0]]
            for e in ev:
                if e[0] == "a":
                    ctx.append("a")
                elif e[0] == "o":
                    ctx.append("o")
                    feats.add("fin:" + ("F" if e[2].startswith("F") else e[2]) + "@" + ctx[0])
                elif e[0] == "(":
                    ctx.append(e[1][0] + ("." if e[1][1:] == "." else ""))
                elif e[0] == ")":
                    k = ctx.pop()
                    if e[1] != "skip":
                        feats.add("rx:" + "/".join(ctx[-2:]) + ">" + k + ("" if e[1] == "ok" else e[1]))
                else:
                    ctx.pop()
        return " ".join(sorted(feats))
    body = out.split("|obs=")[0]
    toks = body.split(";") if body else []
    for o, tk in zip(ops, toks):
        res = tk.rstrip("*").split("+")[0]
        k = o[0]
        if k == "t":
            adv = res[2:].split("!")[0]
            n = len(adv.split(".")) if adv else 0
            feats.add("tick0" if n == 0 else "tick1" if n == 1 else "tickN")
            if "!" in res:
                feats.add("tick!" + res.split("!")[1])
        elif res != "ok":
            feats.add(k + res)
        elif k in "SG":
            feats.add(k)
        for p in tk.rstrip("*").split("+")[1:]:
            v = p.split("=")[1]
            feats.add("fin:" + ("F" if v.startswith("F") else v))
    return " ".join(sorted(feats))
