"""C31 — AMP question/answer matching: two real twisted.protocols.amp.AMP peers over a deterministic in-memory
network vs the Lean model (TwistedModel/Amp/Dispatch.lean), and an oracle written from the statement.

A case is a *schedule*: a list of operations executed one after the other by the harness
    ["call", side, beh, wants, handled, [followup behs]]
        side (0/1) does  d = callRemote(Cmd_<beh>, n=<call id>)  — call ids are 0,1,2,… in the order the calls are made
        (follow-up calls included).  beh names the command and thereby the script of its responder at the peer:
          ok     returns {"n": n}                      err    raises the declared error EErr(desc(n))
          fatal  raises the declared fatal FErr(desc(n)) unk   raises RuntimeError (undeclared)
          later  returns a Deferred (fired by a later "fire" op, or never)
          nores  the peer has no responder for this command
        The call number n also selects legal-but-unusual VARIANTS of the same behaviour (same wire bytes unless said):
          * desc(n) = "é"+str(n) when n % 3 == 2 (non-ASCII error description: 2 UTF-8 bytes on the wire), else str(n);
            the declared fatal error has the non-ASCII error code b"F\xe9";
          * odd n: the responder (or the application firing its Deferred) raises a SUBCLASS of the declared error class
            (EErrSub / FErrSub) — the caller must still get the declared class;
          * (n // 2) % 3 selects HOW a synchronous responder hands its result over: 0 returns / raises, 1 returns an
            already-fired Deferred (succeed / fail; every third one a bare Failure), 2 returns a coroutine object;
          * the commands ok / err / later / nores are SUBCLASSES of a base Command that declares the errors; the
            subclass declares further (unused) errors of its own; fatal / unk declare theirs directly.  (A subclass that
            also overrides `fatalErrors` is NOT used: CommandLocator's checkKnownErrors tests `key in command.fatalErrors`,
            the subclass's own dict, so an inherited fatal error is then sent as a plain error box — the caller still
            gets the declared class, only the connection is not dropped; not this property's subject.)
        wants=0 uses the requiresAnswer=False variant of the command (callRemote returns None).
        The user callback attached to d records the result, then makes the follow-up calls (plain calls of the given
        behaviours from the same side, synchronously inside the callback — i.e. inside _answerReceived / failAllOutgoing),
        then handles the failure (handled=1) or returns it (handled=0: AMP's unhandledError drops the connection).
    ["fire", side, j, kind]   fires the j-th not-yet-fired responder Deferred of `side` with ok | err | fatal | unk
    ["dlv", side, n]          the network delivers the next (at most) n bytes in flight towards `side` in ONE dataReceived
                              call (nothing is delivered to a side whose transport is disconnecting or gone: the bytes vanish)
    ["lost", side, why]       side.connectionLost(Failure(ConnectionDone() | ConnectionLost()))   (why = "d" | "l")
A case may carry "dbg": 1 (the run is made under defer.setDebugging(True)) and "wire": 0 (very long histories: the
wire bytes are not part of the observable, only their number; such a case is oracle-only, not model-compared).

Observable: the event log (one group per op, groups separated by `|`) followed by the final state:
    C<id> call made;  N<id> callRemote returned None;  F<id>=<outcome> the Deferred of call id fired:
       ok<m> response carrying m | E<m> EErr with description m | X<m> FErr | U UnknownRemoteError("Unknown Error") |
       H UnhandledCommand | Ld / Ll the very Failure that was passed to this side's connectionLost
    R<side>:<id>:<beh> responder invoked;  A<id>=<kind> responder Deferred fired;  Z<side><why> connectionLost delivered
    !<Exc>  an exception escaped dataReceived / callRemote / connectionLost (the run stops there)
    final: p<side>=<tags still in _outstandingRequests, in dict order> t<side>=<0|1 transport is None>
           d<side>=<transport.disconnecting> q<side>=<bytes in flight towards side> w<side>=<every byte side wrote, hex>
"""
import itertools

from twisted.internet import defer
from twisted.internet.defer import Deferred
from twisted.internet.error import ConnectionDone, ConnectionLost
from twisted.internet.testing import StringTransport
from twisted.protocols import amp
from twisted.python.failure import Failure

HEADLINE = "TwistedProps.C31.every_callRemote_fires_exactly_once_with_its_own_answer"
RULE = ("schedules of call / fire / deliver / connectionLost operations between two real AMP peers: random mixes of the six "
        "responder behaviours x requiresAnswer x handled x follow-up calls made from inside the callback, deliveries of "
        "1..all bytes (so every box is cut at random byte boundaries), connection loss of either side (ConnectionDone / "
        "ConnectionLost) at a random point, and for short schedules connection loss injected after EVERY delivered byte; "
        "the call number selects variants of each behaviour: declared errors raised as a SUBCLASS of the declared class, "
        "non-ASCII error descriptions and a non-ASCII error code, results handed over by return/raise, by an already "
        "fired Deferred, by a bare Failure or by a coroutine, commands that INHERIT their declared errors from a base "
        "Command; long-lived connections whose tag counter passes 0xf / 0xff / 0xfff (0xffff oracle-only) while an early "
        "call is still unanswered; 15% of the schedules run under defer.setDebugging(True); "
        "distinct = (set of call outcomes, set of responder kinds, which sides lost, disconnecting seen, follow-ups, "
        "no-answer calls, hex digits of the largest tag, Deferred debugging)")
ASSUMES = [
    "both peers are AMP instances speaking the protocol (no forged boxes): every _answer/_error box on the wire was produced "
    "by the peer's BoxDispatcher for an _ask it received",
    "the transport behaves like twisted.internet.abstract.FileDescriptor: write() only buffers (no re-entrant delivery), "
    "loseConnection() stops reading and keeps accepting writes, connectionLost is delivered once per side, no data after it",
    "box framing: a box is dispatched exactly when the last byte of its terminator has been delivered (property C30's subject; "
    "re-checked here on every case: the model only counts bytes, the real parser parses them)",
    "callRemote is used while connected or after connectionLost (not before makeConnection); Deferreds returned by callRemote "
    "are not cancelled and only AMP fires them; user callbacks do not raise",
    "arguments/responses are serialisable (no TooLong / BadLocalReturn), no StartTLS / ProtocolSwitchCommand",
    "responders fail with exceptions from the Exception hierarchy whose str() encodes to UTF-8 (no lone surrogates), and do "
    "not raise RemoteAmpError themselves; a Command subclass inheriting declared errors does not override `fatalErrors` "
    "(checkKnownErrors consults the subclass's own dict for fatality — affects only whether the connection is dropped)",
    "the wire form of the variants (which description is non-ASCII, the error code b'F\\xe9') is the harness's choice and is "
    "mirrored in TwistedModel/Amp/Frame.lean (declDesc, Kind.code); how a responder hands its result over (raise / fired "
    "Deferred / Failure / coroutine, subclass of the declared error, inherited declaration) and Deferred debugging are "
    "invisible on the wire and in the model: the same model line must explain all of them",
    "a Deferred returned by a responder is fired at most once by the application (Deferred itself raises AlreadyCalledError "
    "otherwise), so a responder produces at most one reply box per _ask — used by no_box_without_question",
]
TRUSTED = [
    "Deferred callback chains run synchronously when the Deferred fires (Command._doCommand's parseResponse/_massageError, "
    "the user's callback, then BoxDispatcher.unhandledError) — modelled as one atomic step",
    "harness network (this file): per-direction FIFO byte pipes on top of twisted.internet.testing.StringTransport",
]
MANIFEST = {
    "text": "Lean theorem every_callRemote_fires_exactly_once_with_its_own_answer (TwistedProps/C31.lean) over ALL schedules of "
            "calls from both peers (any mix of responders answering at once / later / never / with declared, fatal or undeclared "
            "errors / not existing; requiresAnswer or not; handled or unhandled errors; follow-up calls made inside callbacks), "
            "deliveries of any byte counts and connection loss of either side at any point, at every moment: (1) no exception "
            "escapes — _outstandingRequests.pop(tag) always finds its key and sendBox never raises out of callRemote "
            "(no_box_without_question; tag-flow invariant: the multiset of a connected caller's tags in the ask pipe, held by the "
            "peer's responder Deferreds and in the reply pipe is included in the keys of its _outstandingRequests); (2) every "
            "callRemote Deferred has either fired exactly once, with a single outcome that is its own call's — a response or "
            "declared error carrying its own call number and produced by the responder invocation for that call, "
            "UnknownRemoteError only for an undeclared failure of its own responder, UnhandledCommand only for a command without "
            "responder, the loss reason only the one given to its own side's connectionLost — and is no longer outstanding, or has "
            "not fired, is still outstanding and its caller's connection is not lost (accounting invariant + tag-matching "
            "invariant); (3) connectionLost(w) delivered next to the caller of a call that has not fired fires it with w; (4) a "
            "callRemote made next on a side that was told connectionLost(w) returns a Deferred already failed with w and writes "
            "nothing. Separately, for ANY state (not only reachable ones): connectionLost fires every outstanding Deferred with "
            "the reason; calls after the loss fail at once with that reason and send nothing. Liveness of answers (a reply in the pipe is eventually "
            "delivered) is the scheduler's business and not claimed. Model tied to amp.py by differential runs of two real AMP "
            "instances over an in-memory byte network, wire bytes compared byte for byte; the runs include declared errors "
            "raised as subclasses / inherited from a base Command / with non-ASCII description and code, responder results "
            "delivered through fired Deferreds, bare Failures and coroutines, Deferred debugging, and connections on which "
            "a side has made 16 … 5000 calls (65539 oracle-only) while an early call is still outstanding.",
    "note": "trusts Lean kernel, the hand-written model of BoxDispatcher/AMP.connectionLost/Command._doCommand (differentially "
            "tied), synchronous Deferred chains, the box parser (counted, not parsed, in the model)",
    "technique": "Lean 4 proof (inductive invariant over a small-step two-peer network semantics) + differential tie + "
                 "statement-derived oracle on the real code",
    "design_ref": "DESIGN.md §7.4 C31",
}

try:
    from twisted.logger import globalLogBeginner
    globalLogBeginner.beginLoggingTo([lambda e: None], redirectStandardIO=False, discardBuffer=True)
except Exception:  # already begun by somebody else
    pass

BEHS = ["ok", "err", "fatal", "unk", "later", "nores"]
KINDS = ["ok", "err", "fatal", "unk"]


class EErr(Exception):
    pass


class FErr(Exception):
    pass


class EErrSub(EErr):
    """a subclass of the declared error: still the declared error E for the peer"""


class FErrSub(FErr):
    """a subclass of the declared fatal error"""


class _Other1(Exception):
    pass


class _Other2(Exception):
    pass


FCODE = b"F\xe9"      # error codes are bytes; this one is not ASCII


def desc(n):
    """the description of the declared error raised for call n (every third one is not ASCII)"""
    return ("\u00e9" if n % 3 == 2 else "") + str(n)


def _undesc(s):
    """the call number m with desc(m) == s, as a string ("?…" when there is none)"""
    m = s.lstrip("\u00e9")
    return m if m.isdigit() and len(m) < 9 and desc(int(m)) == s else "?" + s.encode("ascii", "backslashreplace").decode()


def mkexc(kind, n):
    """the exception a responder for call n fails with"""
    if kind == "err":
        return (EErrSub if n % 2 else EErr)(desc(n))
    if kind == "fatal":
        return (FErrSub if n % 2 else FErr)(desc(n))
    return RuntimeError("undeclared " + str(n))


class _BaseCmd(amp.Command):
    """the errors are declared here and inherited (accumulated) by the commands below"""
    arguments = [(b"n", amp.Integer())]
    response = [(b"n", amp.Integer())]
    errors = {EErr: b"E"}
    fatalErrors = {FErr: FCODE}


INHERITING = ("ok", "err", "later", "nores")


def _mk(name, wants):
    cname = ("Cmd_" if wants else "CmdNA_") + name
    if name in INHERITING:
        return type(amp.Command)(
            cname, (_BaseCmd,),
            {"commandName": name.encode("ascii"), "errors": {_Other1: b"O1", _Other2: b"O2"}, "requiresAnswer": wants})
    return type(amp.Command)(
        cname, (amp.Command,),
        {"commandName": name.encode("ascii"), "arguments": [(b"n", amp.Integer())], "response": [(b"n", amp.Integer())],
         "errors": {EErr: b"E"}, "fatalErrors": {FErr: FCODE}, "requiresAnswer": wants})


CMDS = {(b, w): _mk(b, w) for b in BEHS for w in (True, False)}


class Peer(amp.AMP):
    def __init__(self, side, run):
        amp.AMP.__init__(self)
        self.side, self.run = side, run

    @staticmethod
    def _hand_over(n, value=None, exc=None):
        """a synchronous responder's result for call n, handed over in the way (n // 2) % 3 selects"""
        how = (n // 2) % 3
        if how == 1:
            if exc is None:
                return defer.succeed(value)
            return Failure(exc) if n % 3 == 0 else defer.fail(exc)
        if how == 2:
            async def co():
                if exc is not None:
                    raise exc
                return value
            return co()
        if exc is not None:
            raise exc
        return value

    def r_ok(self, n):
        self.run.log.append(f"R{self.side}:{n}:ok")
        return self._hand_over(n, value={"n": n})
    CMDS["ok", True].responder(r_ok)

    def r_err(self, n):
        self.run.log.append(f"R{self.side}:{n}:err")
        return self._hand_over(n, exc=mkexc("err", n))
    CMDS["err", True].responder(r_err)

    def r_fatal(self, n):
        self.run.log.append(f"R{self.side}:{n}:fatal")
        return self._hand_over(n, exc=mkexc("fatal", n))
    CMDS["fatal", True].responder(r_fatal)

    def r_unk(self, n):
        self.run.log.append(f"R{self.side}:{n}:unk")
        return self._hand_over(n, exc=mkexc("unk", n))
    CMDS["unk", True].responder(r_unk)

    def r_later(self, n):
        self.run.log.append(f"R{self.side}:{n}:later")
        d = Deferred()
        self.run.laters[self.side].append((n, d))
        return d
    CMDS["later", True].responder(r_later)


class Run:
    """two connected AMP peers and the byte pipes between them"""

    def __init__(self):
        self.log = []
        self.laters = [[], []]
        self.ids = itertools.count()
        self.peers = [Peer(0, self), Peer(1, self)]
        self.tr = [StringTransport(), StringTransport()]
        self.off = [0, 0]            # off[s]: how many bytes written by s have left the pipe (delivered or vanished)
        self.reason = [None, None]
        self.fired = {}              # call id -> number of times its Deferred fired
        self.ds = []
        self.stopped = False
        for p, t in zip(self.peers, self.tr):
            p.makeConnection(t)

    # -- user side ------------------------------------------------------------------
    def classify(self, side, r):
        if isinstance(r, dict):
            return f"ok{r['n']}" if set(r) == {"n"} else "?dict"
        if not isinstance(r, Failure):
            return "?" + type(r).__name__
        rs = self.reason[side]
        if rs is not None and r.value is rs.value:
            return "L" + ("d" if isinstance(r.value, ConnectionDone) else "l")
        if type(r.value) is EErr:        # the declared class itself (never the subclass the responder raised)
            return "E" + _undesc(str(r.value))
        if type(r.value) is FErr:
            return "X" + _undesc(str(r.value))
        if isinstance(r.value, amp.UnknownRemoteError):
            return "U" if r.value.description == "Unknown Error" else "U?"
        if isinstance(r.value, amp.UnhandledCommand):
            return "H"
        return "?" + type(r.value).__name__

    def call(self, side, beh, wants, handled, follow):
        cid = next(self.ids)
        self.log.append(f"C{cid}")
        self.fired[cid] = 0
        d = self.peers[side].callRemote(CMDS[beh, bool(wants)], n=cid)
        if d is None:
            self.log.append(f"N{cid}")
            return
        self.ds.append(d)

        def rec(r):
            self.fired[cid] += 1
            self.log.append(f"F{cid}={self.classify(side, r)}")
            for fb in follow:
                self.call(side, fb, 1, 1, [])
            if handled or not isinstance(r, Failure):
                return None
            return r
        d.addBoth(rec)

    # -- ops ------------------------------------------------------------------------
    def op(self, o):
        kind = o[0]
        if kind == "call":
            self.call(o[1], o[2], o[3], o[4], o[5])
        elif kind == "fire":
            side, j, k = o[1], o[2], o[3]
            if j < len(self.laters[side]):
                n, d = self.laters[side].pop(j)
                self.log.append(f"A{n}={k}")
                if k == "ok":
                    d.callback({"n": n})
                else:
                    d.errback(Failure(mkexc(k, n)))
        elif kind == "dlv":
            side, n = o[1], o[2]
            src = 1 - side
            data = self.tr[src].value()[self.off[src]:self.off[src] + n]
            self.off[src] += len(data)
            p = self.peers[side]
            if data and p.transport is not None and not self.tr[side].disconnecting:
                p.dataReceived(data)
        elif kind == "lost":
            side, why = o[1], o[2]
            if self.reason[side] is None:
                self.reason[side] = Failure(ConnectionDone() if why == "d" else ConnectionLost())
                self.log.append(f"Z{side}{why}")
                self.peers[side].connectionLost(self.reason[side])
        else:
            raise ValueError(o)

    def play(self, ops):
        for o in ops:
            self.log.append("|")
            try:
                self.op(o)
            except Exception as e:
                self.log.append("!" + type(e).__name__)
                self.stopped = True
                break
        for d in self.ds:
            d.addErrback(lambda f: None)
        return self

    def final(self, wire=True):
        out = []
        for s in (0, 1):
            p = self.peers[s]
            tags = "-" if p._outstandingRequests is None else ",".join(t.decode() for t in p._outstandingRequests) or "."
            out.append(f"p{s}={tags}")
            out.append(f"t{s}={int(p.transport is None)}")
            out.append(f"d{s}={int(bool(self.tr[s].disconnecting))}")
            out.append(f"q{s}={len(self.tr[1 - s].value()) - self.off[1 - s]}")
            out.append(f"w{s}={self.tr[s].value().hex() or '-'}" if wire else f"w{s}=#{len(self.tr[s].value())}")
        return out


def run_impl(c):
    old = defer.getDebugging()
    defer.setDebugging(bool(c.get("dbg")))
    try:
        r = Run().play(c["ops"])
        return " ".join(r.log + ["#"] + r.final(bool(c.get("wire", 1))))
    finally:
        defer.setDebugging(old)


# ------------------------------------------------------------------------------------------------
# model side

_B = {"ok": "o", "err": "e", "fatal": "f", "unk": "u", "later": "l", "nores": "n"}


def model_line(c):
    if not c.get("wire", 1):
        return None         # oracle-only: the history is too long to compare the wire bytes
    toks = []
    for o in c["ops"]:
        if o[0] == "call":
            toks.append(f"c{o[1]}{_B[o[2]]}{int(bool(o[3]))}{int(bool(o[4]))}:" + "".join(_B[b] for b in o[5]))
        elif o[0] == "fire":
            toks.append(f"f{o[1]}{_B[o[3]]}:{o[2]}")
        elif o[0] == "dlv":
            toks.append(f"d{o[1]}:{o[2]}")
        else:
            toks.append(f"l{o[1]}{o[2]}")
    return " ".join(toks)


# ------------------------------------------------------------------------------------------------
# the property on the implementation's behaviour, written from the statement (no model involved)

def oracle(c, out):
    if out.startswith("!raised"):
        return {"key": "raises", "detail": out[:200]}
    head, _, fin = out.partition(" # ")
    if out.startswith("# "):
        head, fin = "", out[2:]
    finals = dict(t.split("=", 1) for t in fin.split())
    groups = []
    for t in head.split():
        if t == "|":
            groups.append([])
        elif not groups:
            return {"key": "harness", "detail": "event before the first op"}
        else:
            groups[-1].append(t)
    ops = c["ops"]
    calls = {}          # id -> dict(side, beh, wants, fired=None|outcome, when)
    produced = {}       # id -> kind the responder produced (sync responder, fired Deferred, or no responder)
    invoked = {}        # id -> count
    lost = {}           # side -> why
    nid = 0
    for gi, toks in enumerate(groups):
        if gi >= len(ops):
            return {"key": "harness", "detail": "more groups than ops"}
        o = ops[gi]
        # ids made by this op: the call itself and the follow-ups are announced by C tokens, in order
        cur_lost = None
        pending_before = [] if o[0] != "lost" else [
            i for i, ci in calls.items() if ci["wants"] and ci["fired"] is None and ci["side"] == o[1]]
        new_nores = []
        top_done = False    # the op's own call has been seen (the further C tokens of the group are follow-ups)
        j = 0
        parent = None      # the call whose callback is running (follow-up calls are made by it, from its side)
        while j < len(toks):
            t = toks[j]
            if t.startswith("!"):
                return {"key": "exception-escaped", "detail": f"{t} escaped during op {gi} {o}"}
            if t[0] == "C":
                i = int(t[1:])
                if i != nid:
                    return {"key": "harness", "detail": f"call ids out of order at {t}"}
                nid += 1
                if o[0] == "call" and parent is None and not top_done:
                    top_done = True
                    calls[i] = {"side": o[1], "beh": o[2], "wants": bool(o[3]), "fired": None, "op": gi, "top": True,
                                "follow": list(o[5])}
                else:
                    if parent is None or not calls[parent]["todo"]:
                        return {"key": "harness", "detail": f"unexplained call {t} in op {gi}"}
                    calls[i] = {"side": calls[parent]["side"], "beh": calls[parent]["todo"].pop(0), "wants": True,
                                "fired": None, "op": gi, "top": False, "follow": []}
                ci = calls[i]
                if ci["beh"] == "nores":
                    new_nores.append(i)
                side = ci["side"]
                nxt = toks[j + 1] if j + 1 < len(toks) else ""
                if side in lost:
                    # calls made after the connection is lost fail immediately (or return None when no answer is wanted)
                    exp = f"F{i}=L{lost[side]}" if ci["wants"] else f"N{i}"
                    if nxt != exp:
                        return {"key": "call-after-loss", "detail": f"call {i} by side {side} after its connectionLost: expected {exp}, saw {nxt or 'nothing'}"}
                else:
                    if ci["wants"] and nxt.startswith(f"F{i}="):
                        return {"key": "fired-at-call", "detail": f"call {i} fired at once ({nxt}) while connected"}
                    if not ci["wants"] and nxt != f"N{i}":
                        return {"key": "harness", "detail": f"no-answer call {i} did not return None"}
            elif t[0] == "N":
                pass
            elif t[0] == "F":
                i, res = t[1:].split("=", 1)
                i = int(i)
                if i not in calls or not calls[i]["wants"]:
                    return {"key": "fired-unknown", "detail": f"{t}: no such call"}
                ci = calls[i]
                if ci["fired"] is not None:
                    return {"key": "fired-twice", "detail": f"call {i} fired with {ci['fired']} and again with {res}"}
                ci["fired"] = res
                ci["todo"] = list(ci["follow"])
                if ci["follow"]:
                    parent = i      # its callback now makes the follow-up calls (which have none of their own)
                side = ci["side"]
                if res[0] == "L":
                    if side not in lost or lost[side] != res[1:]:
                        return {"key": "loss-reason", "detail": f"call {i} failed with a connection-loss reason {res} but side {side} lost={lost.get(side)}"}
                else:
                    if side in lost:
                        return {"key": "answer-after-loss", "detail": f"call {i} got {res} after side {side} lost its connection"}
                    want = {"ok": f"ok{i}", "err": f"E{i}", "fatal": f"X{i}", "unk": "U", "unhandled": "H"}
                    k = produced.get(i)
                    if k is None or want[k] != res:
                        return {"key": "wrong-answer", "detail": f"call {i} ({ci['beh']}) fired with {res}; its responder produced {k}"}
            elif t[0] == "R":
                sd, n, beh = t[1:].split(":")
                sd, n = int(sd), int(n)
                invoked[n] = invoked.get(n, 0) + 1
                if n not in calls or calls[n]["side"] == sd or calls[n]["beh"] != beh or invoked[n] > 1:
                    return {"key": "responder", "detail": f"{t}: responder invocation does not match a call made by the peer exactly once"}
                if sd in lost:
                    return {"key": "responder-after-loss", "detail": f"{t} after connectionLost"}
                if beh != "later":
                    produced[n] = beh
            elif t[0] == "A":
                n, k = t[1:].split("=")
                produced[int(n)] = k
            elif t[0] == "Z":
                lost[int(t[1])] = t[2]
                cur_lost = int(t[1])
            else:
                return {"key": "harness", "detail": f"unknown token {t}"}
            j += 1
        # calls whose command has no responder: the dispatcher answers UNHANDLED when the ask is dispatched; we cannot see the
        # dispatch in the log, so record it as what the (absent) responder "produced"
        # (only the calls made by this op are new here: the earlier ones were recorded after their own op — long histories)
        for i in new_nores:
            produced.setdefault(i, "unhandled")
        if o[0] == "lost" and cur_lost is not None:
            for i in pending_before:
                if calls[i]["fired"] != "L" + lost[cur_lost]:
                    return {"key": "unanswered-at-disconnect", "detail": f"call {i} was pending when side {cur_lost} lost its connection and has {calls[i]['fired']}"}
    stopped = len(groups) < len(ops)
    if stopped:
        return {"key": "exception-escaped", "detail": "run stopped early"}
    # final state
    for i, ci in calls.items():
        if ci["wants"] and ci["fired"] is None and ci["side"] in lost:
            return {"key": "never-fired", "detail": f"call {i} of side {ci['side']} never fired although the side lost its connection"}
    for s in (0, 1):
        tags = finals[f"p{s}"]
        npend = 0 if tags in ("-", ".") else len(tags.split(","))
        unf = sum(1 for ci in calls.values() if ci["side"] == s and ci["wants"] and ci["fired"] is None)
        if npend != unf:
            return {"key": "outstanding-mismatch", "detail": f"side {s}: {npend} outstanding requests, {unf} unfired calls"}
    # quiescence: nothing in flight, nobody lost or closing => every produced answer has arrived, every ask was dispatched
    if not lost and all(finals[f"q{s}"] == "0" and finals[f"d{s}"] == "0" for s in (0, 1)):
        for i, ci in calls.items():
            if ci["beh"] != "later" and ci["beh"] != "nores" and invoked.get(i, 0) != 1:
                return {"key": "ask-lost", "detail": f"call {i}: everything was delivered but its responder never ran"}
            if ci["wants"] and i in produced and ci["fired"] is None and (ci["beh"] != "later" or invoked.get(i)):
                return {"key": "answer-lost", "detail": f"call {i}: answered ({produced[i]}), everything delivered, Deferred unfired"}
    return None


# ------------------------------------------------------------------------------------------------
# cases

def C(side, beh, wants=1, handled=1, follow=()):
    return ["call", side, beh, wants, handled, list(follow)]


def corpus():
    big = 10 ** 6
    both = [["dlv", 1, big], ["dlv", 0, big]]
    return [
        {"ops": []},
        {"ops": [C(0, "ok")] + both},
        {"ops": [C(0, b) for b in BEHS] + [C(1, b) for b in BEHS] + both + both + [["fire", 1, 0, "err"], ["fire", 0, 0, "ok"]] + both},
        # answers in another order than the questions
        {"ops": [C(0, "later"), C(0, "later"), C(0, "later"), ["dlv", 1, big], ["fire", 1, 2, "ok"], ["fire", 1, 0, "err"],
                 ["dlv", 0, big], ["fire", 1, 0, "unk"], ["dlv", 0, big], ["lost", 0, "d"], ["lost", 1, "d"]]},
        # loss with pending calls whose callbacks call again; then calls after the loss
        {"ops": [C(0, "later", 1, 1, ["ok", "later"]), C(0, "ok", 1, 0, ["err"]), C(0, "unk", 0), ["lost", 0, "l"],
                 C(0, "ok", 1, 0, ["ok"]), C(0, "ok", 0), ["dlv", 1, big], ["fire", 1, 0, "ok"], ["lost", 1, "d"]]},
        # unhandled error drops the connection: the other answers are never read
        {"ops": [C(0, "err", 1, 0), C(0, "ok"), C(0, "ok")] + both + [["lost", 0, "d"]]},
        # no-answer command whose responder fails: responder side closes
        {"ops": [C(0, "err", 0), C(1, "ok"), C(0, "ok")] + both + both + [["lost", 1, "d"], ["lost", 0, "d"]]},
        # responder Deferred fired after its side lost the connection: nothing is sent
        {"ops": [C(0, "later"), ["dlv", 1, big], ["lost", 1, "l"], ["fire", 1, 0, "fatal"], ["dlv", 0, big], ["lost", 0, "l"]]},
        # tags with two hex digits, ids with two decimal digits; byte-wise delivery
        {"ops": [C(0, "ok", 0) for _ in range(17)] + [C(0, "ok")] + [["dlv", 1, 1]] * 40 + [["dlv", 1, big]] + [["dlv", 0, 7]] * 6},
        # every variant of every behaviour (call numbers 0..11 of each: plain / subclass, raised / fired Deferred / bare
        # Failure / coroutine, ASCII / non-ASCII description), also through responder Deferreds, also under Deferred debugging
        {"ops": [C(0, b) for b in ("ok", "err", "fatal") for _ in range(12)] + [["dlv", 1, big], ["dlv", 0, big]]},
        {"ops": [C(1, "err") for _ in range(6)] + [C(1, "unk") for _ in range(6)] + both, "dbg": 1},
        {"ops": [C(0, "later") for _ in range(12)] + [["dlv", 1, big]] + [["fire", 1, 0, "err"]] * 6 + [["fire", 1, 0, "fatal"]] * 6
                + [["dlv", 0, big]]},
        # the 256th / 257th call of a side while its first call is still unanswered (tags "100", "101" next to "1")
        {"ops": [C(0, "later"), ["dlv", 1, big]] + [C(0, "ok", 0)] * 254 + [C(0, "ok"), C(0, "ok")] + both
                + [["fire", 1, 0, "ok"]] + both},
        # follow-up inside _answerReceived, delivered in the same chunk as the next answer
        {"ops": [C(0, "ok", 1, 1, ["ok", "unk"]), C(0, "fatal", 1, 0, ["nores"])] + both + both + both},
    ]


def _rand_ops(rng, n, loss=True):
    ops = []
    mode = rng.choice(["mix", "burst", "slow", "mix"])
    for _ in range(n):
        r = rng.random()
        if r < (0.45 if mode != "slow" else 0.3):
            side = rng.randint(0, 1)
            beh = rng.choice(["ok", "ok", "later", "later", "err", "fatal", "unk", "nores", "ok", "later"])
            wants = 0 if rng.random() < 0.12 else 1
            handled = 0 if rng.random() < 0.12 else 1
            follow = [rng.choice(BEHS) for _ in range(rng.choice([0, 0, 0, 1, 2]))] if wants else []
            ops.append(["call", side, beh, wants, handled, follow])
        elif r < 0.6:
            ops.append(["fire", rng.randint(0, 1), rng.choice([0, 0, 1, 2, 3]), rng.choice(["ok", "ok", "ok", "err", "fatal", "unk"])])
        elif r < 0.97 or not loss:
            n_b = rng.choice([1, 2, 3, 5, 8, 13, 30, 31, 32, 33, 40, 64, 100, 10 ** 6] if mode != "slow" else [1, 2, 3, 5, 8, 13])
            ops.append(["dlv", rng.randint(0, 1), n_b])
        else:
            ops.append(["lost", rng.randint(0, 1), rng.choice("dl")])
    return ops


def _flush(rounds=3):
    big = 10 ** 6
    return [["dlv", 1, big], ["dlv", 0, big]] * rounds


def _cut_points(base, rng, every):
    """connection loss injected after every delivered byte of a short run: the deliveries of `base` are replayed byte by
    byte and after the k-th byte (k = 0,1,2,…) side s loses the connection, then the rest continues."""
    # expand deliveries into single bytes, bounded by what is really in flight (measured on the real run)
    r = Run()
    exp = []
    for o in base:
        # (this pre-run only measures how many bytes are in flight; an exception escaping the code under test here is
        # reported when the generated cases themselves are run)
        if o[0] == "dlv":
            src = 1 - o[1]
            avail = len(r.tr[src].value()) - r.off[src]
            k = min(o[2], avail)
            exp += [["dlv", o[1], 1]] * k
            try:
                r.op(["dlv", o[1], k])
            except Exception:
                pass
        else:
            exp.append(o)
            try:
                r.op(o)
            except Exception:
                pass
    for d in r.ds:
        d.addErrback(lambda f: None)
    idx = [i for i, o in enumerate(exp) if o[0] == "dlv"]
    if not every:
        idx = rng.sample(idx, min(len(idx), 6))
    for i in [-1] + idx:
        for s in (0, 1):
            why = rng.choice("dl")
            yield {"ops": exp[:i + 1] + [["lost", s, why]] + exp[i + 1:] + [["lost", 1 - s, why]]}


def _long(rng, k):
    """a long-lived connection: side s makes k calls (so its _counter reaches k: tags of 2, 3, 4 hex digits) while one of
    its first calls is still unanswered (its responder Deferred is held by the peer, or the ask was never delivered), the
    traffic is flushed now and then, and the old call is finally answered / the connection lost"""
    big = 10 ** 6
    s = rng.randint(0, 1)
    ops = []
    made = 0
    for _ in range(rng.randint(1, 3)):
        ops.append(C(s, rng.choice(["later", "later", "ok", "err"]), 1, 1, [rng.choice(BEHS)] if rng.random() < 0.3 else []))
        made += 1
    held = rng.random() < 0.6
    if held:
        ops.append(["dlv", 1 - s, big])
    every = rng.choice([40, 64, 100, 10 ** 9])
    while made < k:
        r = rng.random()
        if r < 0.75:
            ops.append(C(s, "ok", 0))
        elif r < 0.93:
            ops.append(C(s, rng.choice(["ok", "ok", "err", "nores"])))
        elif r < 0.96:
            ops.append(C(s, "later"))
        else:
            ops.append(C(1 - s, rng.choice(["ok", "later", "err"])))
            made -= 1
        made += 1
        if made % every == 0 and held:
            ops += [["dlv", 1 - s, big], ["dlv", s, big]]
    # a few more calls around the boundary, then the old questions are answered (or the connection goes away)
    ops += _rand_ops(rng, rng.choice([0, 4, 10]), False)
    ops += [["dlv", 1 - s, big], ["fire", 1 - s, 0, rng.choice(KINDS)], ["dlv", s, big]]
    ops += _rand_ops(rng, rng.choice([0, 6]), True)
    end = rng.random()
    if end < 0.5:
        ops += _flush(2)
    elif end < 0.8:
        ops += [["lost", s, rng.choice("dl")], C(s, "ok"), ["lost", 1 - s, rng.choice("dl")]]
    return {"ops": ops}


def _huge(k):
    """k no-answer calls behind one unanswered call, then one more call: only the bookkeeping is observed (oracle-only)"""
    return {"ops": [C(0, "later"), ["dlv", 1, 10 ** 6]] + [C(0, "ok", 0)] * k + [C(0, "ok"), C(0, "later")]
                   + [["fire", 1, 0, "ok"]] + _flush(1) + [["lost", 0, "d"]], "wire": 0}


def generate(rng, tier):
    for c in _generate(rng, tier):
        if rng.random() < 0.15:
            c["dbg"] = 1        # the same schedule under defer.setDebugging(True)
        yield c


def _generate(rng, tier):
    quick = tier == "quick"
    # (0) long histories: the tag counter passes 0xf, 0xff, 0xfff (and 0xffff, oracle-only) with an old call outstanding
    for k in ([15, 16, 17, 254, 255, 256, 257, 258, 300, 511, 513] * (1 if quick else 6)
              + ([4097] if quick else [4094, 4095, 4096, 4097, 4100, 5000])):
        yield _long(rng, k)
    yield _huge(4096)
    if not quick:
        yield _huge(65536)      # 65539 calls of side 0: tags "ffff", "10000", "10001", "10002" next to the outstanding "1"
    # (1) connection loss at every byte boundary of short exchanges
    for _ in range(10 if quick else 60):
        k = rng.randint(1, 4)
        base = [C(rng.randint(0, 1), rng.choice(BEHS), 1 if rng.random() < 0.9 else 0, 1 if rng.random() < 0.85 else 0,
                  [rng.choice(BEHS)] if rng.random() < 0.3 else []) for _ in range(k)]
        base += _flush(1)
        if rng.random() < 0.7:
            base += [["fire", rng.randint(0, 1), 0, rng.choice(KINDS)]]
        base += _flush(2)
        yield from _cut_points(base, rng, every=True)
    # (2) random schedules, with and without loss, ending quiescent or with both sides lost
    for _ in range(2500 if quick else 30000):
        n = rng.choice([5, 10, 20, 40, 80])
        loss = rng.random() < 0.6
        ops = _rand_ops(rng, n, loss)
        end = rng.random()
        if end < 0.4:
            ops += _flush(3)
        elif end < 0.8:
            ops += _flush(rng.randint(0, 2)) + [["lost", rng.randint(0, 1), rng.choice("dl")]]
            if rng.random() < 0.7:
                ops += _rand_ops(rng, rng.randint(0, 6), False)
                ops.append(["lost", rng.randint(0, 1), rng.choice("dl")])
                ops.append(["lost", rng.randint(0, 1), rng.choice("dl")])
        yield {"ops": ops}
    # (3) random schedules with loss injected at sampled byte boundaries
    for _ in range(20 if quick else 400):
        base = _rand_ops(rng, rng.choice([6, 10, 16]), False) + _flush(2)
        yield from _cut_points(base, rng, every=False)


def search(rng, tier, disagreeing):
    for c in disagreeing[:20]:
        if len(c["ops"]) <= 60:     # (long histories have 10^5 bytes in flight: sampled cut points only, and few of them)
            yield from _cut_points(c["ops"], rng, every=True)
        elif len(c["ops"]) <= 600:
            yield from _cut_points(c["ops"], rng, every=False)
    yield from generate(rng, "thorough" if tier == "thorough" else "quick")


def shrink(c):
    extra = {k: v for k, v in c.items() if k != "ops"}
    if extra:
        yield {"ops": c["ops"]}
    for x in _shrink_ops(c["ops"]):
        x.update(extra)
        yield x


def _shrink_ops(ops):
    if len(ops) > 60:       # long histories: cut big pieces first
        n = len(ops)
        for size in (n // 2, n // 4, n // 8, 16):
            for i in range(0, n, size):
                yield {"ops": ops[:i] + ops[i + size:]}
    for i in range(len(ops)):
        yield {"ops": ops[:i] + ops[i + 1:]}
    for i, o in enumerate(ops):
        if o[0] == "call":
            if o[5]:
                yield {"ops": ops[:i] + [o[:5] + [o[5][1:]]] + ops[i + 1:]}
            if not o[4]:
                yield {"ops": ops[:i] + [o[:4] + [1, o[5]]] + ops[i + 1:]}
            if not o[3]:
                yield {"ops": ops[:i] + [o[:3] + [1] + o[4:]] + ops[i + 1:]}
            if o[2] != "ok":
                yield {"ops": ops[:i] + [o[:2] + ["ok"] + o[3:]] + ops[i + 1:]}
        elif o[0] == "dlv" and o[2] != 10 ** 6:
            yield {"ops": ops[:i] + [["dlv", o[1], 10 ** 6]] + ops[i + 1:]}
        elif o[0] == "fire" and o[2] > 0:
            yield {"ops": ops[:i] + [["fire", o[1], o[2] - 1, o[3]]] + ops[i + 1:]}


def tag(c, out):
    head = out.partition(" # ")[0]
    toks = head.split()
    outs = sorted({t.split("=")[1].rstrip("0123456789") for t in toks if t[0] == "F"})
    resp = sorted({t.split(":")[2] for t in toks if t[0] == "R"} | {"A" + t.split("=")[1] for t in toks if t[0] == "A"})
    lostsides = "".join(sorted({t[1] for t in toks if t[0] == "Z"}))
    fin = out.partition(" # ")[2]
    disc = "".join(s for s in "01" if f"d{s}=1" in fin)
    fol = "f" if any(o[0] == "call" and o[5] for o in c["ops"]) else ""
    na = "n" if any(o[0] == "call" and not o[3] for o in c["ops"]) else ""
    ncalls = max(sum(1 for o in c["ops"] if o[0] == "call" and o[1] == sd) for sd in (0, 1)) if c["ops"] else 0
    digits = len("%x" % ncalls) if ncalls else 0      # hex digits of the largest tag a side certainly reached
    dbg = "g" if c.get("dbg") else ""
    return f"{'.'.join(outs)}|{'.'.join(resp)}|z{lostsides}|d{disc}|{fol}{na}|x{digits}{dbg}"
