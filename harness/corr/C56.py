import json
"""C56 — flattened / JSON-round-tripped log events format like the original.

Tie: real formatEvent / flattenEvent / eventAsJSON / eventFromJSON (and string.Formatter.parse) vs the Lean
model TwistedModel/Log/FlatFormat.lean.  Oracle: the three texts produced by the REAL code must be equal
whenever the original event formats at all (independent of the model).
"""
import io
import string

from twisted.logger import Logger, LogLevel, LogPublisher, formatEvent, jsonFileLogObserver
from twisted.logger._flatten import extractField
from twisted.logger._flatten import flatFormat, flattenEvent
from twisted.logger._format import formatWithCall
from twisted.logger._json import eventAsJSON, eventFromJSON
from twisted.python.failure import Failure
from constantly import NamedConstant, Names

HEADLINE = ("TwistedProps.C56.flat_equals_original_partial / json_equals_original_partial / "
            "any_history_equals_original_partial (flattenEvent_idem) / spec_dropped_counterexample / "
            "hooks_flat_and_json_equal_original_partial (re-entrant values: flatteners_are_private)")
RULE = ("events = value trees (str incl. quotes/backslash/non-ASCII, int, bool, None, lists, str-keyed dicts, objects with "
        "fixed str/repr texts, attributes and pure callables) + format strings built from the grammar: literals with "
        "'{{'/'}}', fields that walk the event (.attr, [idx], [key], () at the end and in the middle), conversions "
        "none/s/r/a/bad, repeated fields, format specs (int and str mini-language, nested '{w}'), broken lookups, and a "
        "stream of malformed format strings over '{}[]!:.()'; a quarter of the cases are RE-ENTRANT (mode reent): field "
        "values that are hooks — objects whose __str__/__repr__/__call__/__getattr__ run a script through "
        "twisted.logger itself (formatEvent of a flattened / JSON-loaded / raw inner event, flattenEvent+formatEvent, "
        "eventAsJSON, extractField, Logger.emit into a jsonFileLogObserver; hooks nested in inner events up to 3 deep; "
        "oracle-only variant: a hook that keeps and flattens ONE inner event) — placed as fields, attributes or call "
        "results, followed by fields that repeat earlier (field, conversion) pairs or share names with the inner "
        "events; EVERY event is observed over six histories (flatten; flatten twice; flatten twice then JSON; JSON; "
        "JSON then JSON again; JSON then flatten — all model-compared); a sixth of the cases (mode exotic, oracle-only) "
        "carry legal-but-unusual values and keys: tuples, frozensets, str/int subclasses with their own __str__/__repr__, "
        "nan/inf, bytes, NamedConstants of LogLevel and of another container, Failures (.value, .getErrorMessage()), "
        "Logger objects, dicts with int/tuple/bytes/None/constant keys (mixed with str keys, index lookups into int "
        "keys), the same inside lists/dicts/attributes/call results, non-str keys on the event itself, the log_* keys "
        "Logger.emit adds (and fields naming them), attribute names PotentialCallWrapper itself has; "
        "distinct = (mode, lookup kinds used, conversions, spec?, repeated?, hook action kinds / shared keys?, unusual "
        "kinds / extra keys / std keys, outcome classes of original/flat/json, histories disagreeing?)")
ASSUMES = [
    "log_format is a str (flattenEvent raises TypeError on bytes formats: string.Formatter.parse(bytes))",
    "the event is not already flattened by someone else and format fields do not name log_flattened",
    "attribute names used in format fields are not attributes of PotentialCallWrapper itself (_wrapped, __class__, "
    "__dict__, …): the model's getattr goes straight to the wrapped value (such names are exercised oracle-only)",
    "values: format(v, '') == str(v) (true of str/int/bool/None/list/dict and every object without its own "
    "__format__); an object whose __format__('') differs from its str() is exercised oracle-only",
    "in MODEL-COMPARED cases dict keys inside values are str and values are str/int/bool/None/list/dict/object; "
    "bytes, float (incl. nan/inf), tuple, frozenset, str/int subclasses, NamedConstant/LogLevel, Failure, Logger "
    "values, dicts and events with non-str keys and the Logger.emit log_* keys are exercised ORACLE-ONLY (no Lean "
    "counterpart; added after seeded change C56-1 and the white-box mutation audit harness/mutants/C56)",
    "not generated (eventAsJSON/eventFromJSON raise on the unchanged code, reported as observations, not findings): "
    "self-referential containers (json.dumps: circular reference) and dict values that carry a '__class_uuid__' key "
    "(objectLoadHook treats them as serialized LogLevel/Failure)",
    "re-entrant values (hooks) are deterministic by construction: every action works on a fresh copy of its inner event "
    "or on a read-only prepared one, and reports exceptions as text; the reserved attribute names \\x01S/\\x01R/\\x01L that "
    "carry a hook's scripts to the model are not named by format fields; lists/dicts do not contain hooks; in the model "
    "the unflattened path formatWithCall (which creates no KeyFlattener) is the pure function — the heap effects of hooks "
    "evaluated inside it are not threaded; a hook that mutates its own persistent inner event, and Logger.emit's extra "
    "log_* keys, are exercised ORACLE-ONLY / modelled as eventAsJSON of the bare event; no threads (two threads "
    "flattening at once is the same interference, not generated)",
    "str.isprintable() is approximated in the concrete repr oracle for the code points the generator uses",
]
TRUSTED = ["CPython string.Formatter.parse / formatter_field_name_split as transcribed in the model (tied by the 'parse' "
           "cases and by every 'all' case)",
           "the concrete str/repr/ascii/format oracle pyOps (theorems quantify over every oracle; pyOps is tied here)"]
MANIFEST = {
    "text": "Lean theorems (TwistedProps/C56.lean) for every format string, event and str/repr/ascii/format oracle: if the "
            "original event formats to a text and no field carries a format spec, then flattenEvent succeeds and the "
            "flattened event — and the event after eventAsJSON/eventFromJSON — format to the same text (invariant over the "
            "flatten loop: every flattened-shape key holds the text of its own field; key-shape disjointness of "
            "'name!c:' and 'name!:' keys incl. '/n' suffixes). Format specs are dropped by flattenEvent/flatFormat: "
            "counterexample theorem for '{n:05d}' + known finding. Re-entrancy (FlatReent.lean, every KeyFlattener() an "
            "allocation in an explicit heap; field evaluation = arbitrary heap-extending effect): flatteners_are_private "
            "(flattenEvent/formatEvent/eventAsJSON round trip/extractField return what the pure functions return in every "
            "heap and leave all earlier flatteners untouched), nextOps_good (objects whose str/repr/call/getattr run the "
            "machinery again are such effects, at any nesting depth), hence the property for events with such values "
            "(reentrant_*_partial, hooks_flat_and_json_equal_original_partial). Histories (after the mutation audit): "
            "flattenEvent_idem (an event whose log_flattened already formats is left exactly as it is — no field is "
            "looked up again, whatever JSON made of the values) and any_history_equals_original_partial: after ANY "
            "sequence of flattenEvent and eventAsJSON/eventFromJSON steps every step succeeds and the event formats to "
            "the original text (observed_histories_equal_original_partial: the four extra histories the tie observes). "
            "The known-finding exemptions of the oracle are exact: format-spec-dropped / custom-format-ignored only "
            "when every text after flattening/JSON equals the text of the same event without specs / without "
            "__format__. Model tied to the real code on every run.",
    "note": "partial: fields with a non-empty format spec are excluded (the code drops them — finding format-spec-dropped); "
            "trusts Lean kernel, the hand-written model (differentially tied), CPython str.format internals as transcribed",
    "technique": "Lean 4 proof (loop invariant + key-shape lemmas) + differential tie + independent oracle",
    "design_ref": "DESIGN.md §7.8 C56",
}

NAMES = ["a", "b", "c", "key", "n1", "x_y"]
TEXT_ALPHA = ["a", "b", "Z", "0", "7", " ", "'", '"', "\\", "é", "€", "\U0001F600", "\n", "\t", "\x00", "\x7f",
              "\x85", "{", "}", ":", "!", "/", "[", "]", ".", "(", ")"]


# ---------------------------------------------------------------------------------------------
# wire encoding (see lean/TwistedModel/Drv/C56.lean)

def enc_text(t):
    return ".".join(str(ord(c)) for c in t) + ";"


def enc_spec(v):
    """value spec (JSON tree of the case) → wire"""
    (k, x), = v.items()
    if k == "t":
        return "T" + enc_text(x)
    if k == "i":
        return "I" + str(x) + ";"
    if k == "b":
        return "B1" if x else "B0"
    if k == "n":
        return "N"
    if k == "l":
        return "L" + "".join(enc_spec(e) for e in x) + "e"
    if k == "d":
        return "D" + "".join("k" + enc_text(kk) + enc_spec(vv) for kk, vv in x) + "e"
    if k == "o":
        s, r, attrs, ret = x
        return ("O" + enc_text(s) + enc_text(r) + "".join("k" + enc_text(kk) + enc_spec(vv) for kk, vv in attrs) + "e"
                + ("n" if ret is None else "c" + enc_spec(ret)))
    if k == "h":
        s, r, attrs, ret, S, R, L = x
        res = [[RES_S, _enc_script(S)], [RES_R, _enc_script(R)], [RES_L, _enc_script(L)]]
        return ("O" + enc_text(s) + enc_text(r) + "".join("k" + enc_text(kk) + enc_spec(vv) for kk, vv in attrs)
                + "".join("k" + enc_text(kk) + vv for kk, vv in res) + "e"
                + ("n" if ret is None else "c" + enc_spec(ret)))
    raise ValueError(k)


# a re-entrant object ("hook") travels to the model as an object with three reserved attributes holding its scripts
RES_S, RES_R, RES_L = "\x01S", "\x01R", "\x01L"


def _enc_ev(e):
    return "D" + "k" + enc_text("log_format") + "T" + enc_text(e["fmt"]) + \
        "".join("k" + enc_text(k) + enc_spec(v) for k, v in e["fields"]) + "e"


def _enc_script(sc):
    out = "L"
    for kind, prep, field, e in sc:
        out += "L" + "T" + enc_text(kind) + "T" + enc_text(prep) + "T" + enc_text(field) + _enc_ev(e) + "e"
    return out + "e"


def enc_py(v):
    """a JSON-loaded python value → wire"""
    if isinstance(v, str):
        return "T" + enc_text(v)
    if isinstance(v, bool):
        return "B1" if v else "B0"
    if isinstance(v, int):
        return "I" + str(v) + ";"
    if v is None:
        return "N"
    if isinstance(v, list):
        return "L" + "".join(enc_py(e) for e in v) + "e"
    if isinstance(v, dict):
        return "D" + "".join("k" + enc_text(k) + enc_py(x) for k, x in v.items()) + "e"
    return "?" + type(v).__name__


# ---------------------------------------------------------------------------------------------
# real objects

class Obj:
    def __init__(self, s, r, attrs):
        self.__dict__["_C56"] = (s, r)
        for k, v in attrs:
            self.__dict__[k] = v

    def __str__(self):
        return self.__dict__["_C56"][0]

    def __repr__(self):
        return self.__dict__["_C56"][1]


class CObj(Obj):
    def __init__(self, s, r, attrs, ret):
        Obj.__init__(self, s, r, attrs)
        self.__dict__["_C56ret"] = ret

    def __call__(self):
        return self.__dict__["_C56ret"]


class FObj(Obj):
    """an object with its own __format__ (oracle-only)"""

    def __format__(self, spec):
        return "<fmt:" + spec + ">"


class StrSub(str):
    """a text subclass with its own __str__ / __repr__ (oracle-only)"""

    def __new__(cls, raw, s, r):
        o = str.__new__(cls, raw)
        o._c56 = (s, r)
        return o

    def __str__(self):
        return self._c56[0]

    def __repr__(self):
        return str.__repr__(self) if self._c56[1] is None else self._c56[1]


class IntSub(int):
    """an int subclass with its own __str__ (oracle-only)"""

    def __new__(cls, n, s):
        o = int.__new__(cls, n)
        o._c56 = s
        return o

    def __str__(self):
        return self._c56


class Colour(Names):
    """NamedConstants that are NOT LogLevel members: `info` shares its name with one, `red` does not"""
    red = NamedConstant()
    info = NamedConstant()
    x_y = NamedConstant()


class _Raised:
    def __init__(self, e):
        self.name = "!" + type(e).__name__


def _prep(prep, e):
    """the inner event an action works on: as given, flattened, or loaded back from JSON"""
    try:
        ev = event_of(e)
        if prep == "flat":
            flattenEvent(ev)
        elif prep == "json":
            ev = eventFromJSON(eventAsJSON(ev))
        return ev
    except Exception as ex:
        return _Raised(ex)


def _piece_fmt(ev):
    out = formatEvent(ev)
    return "!unformattable" if out.startswith("Unable to format event") else out


class _Action:
    """one step of a hook's script: something a __str__/__repr__/__call__/__getattr__ body does with twisted.logger"""

    def __init__(self, kind, prep, field, e):
        self.kind, self.prep, self.field, self.e = kind, prep, field, e
        # read-only prepared inner events are built once (outside any flatten call)
        self.fixed = _prep(prep, e) if (kind in ("fmt", "extract") and prep != "raw") else None
        self.persistent = event_of(e) if kind == "mutfmt" else None

    def run(self):
        k = self.kind
        try:
            if k == "fmt":
                ev = self.fixed if self.fixed is not None else event_of(self.e)
                if isinstance(ev, _Raised):
                    return ev.name
                return _piece_fmt(ev)
            if k == "json":
                eventAsJSON(event_of(self.e))
                return ""
            if k == "flatfmt":
                ev = event_of(self.e)
                flattenEvent(ev)
                return _piece_fmt(ev)
            if k == "extract":
                ev = self.fixed if self.fixed is not None else event_of(self.e)
                if isinstance(ev, _Raised):
                    return ev.name
                return str(extractField(self.field, ev))
            if k == "log":
                ev = event_of(self.e)
                fmt = ev.pop("log_format")
                log = Logger(namespace="c56", observer=LogPublisher(jsonFileLogObserver(io.StringIO())))
                log.emit(LogLevel.info, fmt, **ev)
                return ""
            if k == "mutfmt":          # oracle-only: the hook keeps ONE inner event and flattens it after first use
                out = _piece_fmt(self.persistent)
                try:
                    flattenEvent(self.persistent)
                except Exception:
                    pass
                return out
        except Exception as ex:
            return "!" + type(ex).__name__
        raise ValueError(k)


def _run(script):
    return "".join(a.run() for a in script)


class Hook:
    """an object whose str()/repr()/attribute access goes through twisted.logger's flatten machinery"""

    def __init__(self, s, r, attrs, S, R, L):
        d = self.__dict__
        d["_C56"] = (s, r)
        d["_C56attrs"] = dict(attrs)
        d["_C56S"], d["_C56R"], d["_C56L"] = S, R, L

    def __str__(self):
        return self._C56[0] + _run(self._C56S)

    def __repr__(self):
        return self._C56[1] + _run(self._C56R)

    def __getattr__(self, name):
        d = self.__dict__
        _run(d["_C56L"])
        try:
            return d["_C56attrs"][name]
        except KeyError:
            raise AttributeError(name)


class CHook(Hook):
    def __init__(self, s, r, attrs, S, R, L, ret):
        Hook.__init__(self, s, r, attrs, S, R, L)
        self.__dict__["_C56ret"] = ret

    def __call__(self):
        _run(self._C56L)
        return self._C56ret


def build(v):
    (k, x), = v.items()
    if k in ("t", "i", "b"):
        return x
    if k == "n":
        return None
    if k == "l":
        return [build(e) for e in x]
    if k == "d":
        return {kk: build(vv) for kk, vv in x}
    if k == "o":
        s, r, attrs, ret = x
        at = [(kk, build(vv)) for kk, vv in attrs]
        return Obj(s, r, at) if ret is None else CObj(s, r, at, build(ret))
    if k == "h":
        s_, r_, attrs, ret, S, R, L = x
        at = [(kk, build(vv)) for kk, vv in attrs]
        sc = [[_Action(*a) for a in q] for q in (S, R, L)]
        return Hook(s_, r_, at, *sc) if ret is None else CHook(s_, r_, at, *sc, build(ret))
    if k == "fo":
        return FObj(x[0], x[1], [])
    if k == "y":                      # bytes value (oracle-only: no Lean counterpart)
        return bytes.fromhex(x)
    if k == "f":                      # float value (oracle-only); "nan" / "inf" / "-inf" included
        return float(x)
    # --- legal-but-unusual values (all oracle-only; added after the white-box mutation audit)
    if k == "tu":
        return tuple(build(e) for e in x)
    if k == "se":
        return frozenset(build(e) for e in x)
    if k == "ss":
        return StrSub(x[0], x[1], x[2])
    if k == "is":
        return IntSub(x[0], x[1])
    if k == "nc":                     # a NamedConstant of a container other than LogLevel
        return getattr(Colour, x)
    if k == "lv":
        return LogLevel.lookupByName(x)
    if k == "fl":                     # a Failure without frames: deterministic str / repr
        return Failure(RuntimeError(x))
    if k == "lg":
        return Logger(namespace=x)
    if k == "dk":                     # a dict whose keys are not all str
        return {build(kk): build(vv) for kk, vv in x}
    raise ValueError(k)


STD_NS = "c56.ns"


def event_of(c):
    ev = {"log_format": c["fmt"]}
    if c.get("std"):                  # the keys Logger.emit adds to every event
        ev.update(log_logger=Logger(namespace=STD_NS), log_level=LogLevel.lookupByName(c["std"]), log_namespace=STD_NS,
                  log_source=None, log_time=1234.5)
    for k, v in c["fields"]:
        ev[k] = build(v)
    for k, v in c.get("xkeys", ()):   # keys that are not str (never named by the format)
        ev[build(k)] = build(v)
    return ev


# ---------------------------------------------------------------------------------------------
# running the real code

def _fmt_text(ev):
    out = formatEvent(ev)
    try:
        if "log_flattened" in ev:
            ref = flatFormat(ev)
        else:
            f = ev.get("log_format")
            ref = "" if f is None else formatWithCall(f, ev)
    except Exception as e:
        if not out.startswith("Unable to format event"):
            return "?unformattable-text-missing"
        return "!" + type(e).__name__
    if out != ref:
        return "?formatEvent-differs-from-internals"
    return "ok:" + enc_text(out)


def _parse_line(s):
    out = []
    try:
        for lit, name, spec, conv in string.Formatter().parse(s):
            if name is None:
                out.append("L" + enc_text(lit))
            else:
                out.append("F" + enc_text(lit) + enc_text(name) + enc_text(spec)
                           + ("-" if conv is None else str(ord(conv)) + ";"))
        out.append("ok")
    except ValueError:
        out.append("!ValueError")
    return "".join(out)


def run_impl(c):
    if c["op"] == "parse":
        return _parse_line(c["s"])
    orig = _fmt_text(event_of(c))
    ev2 = event_of(c)
    keys = "-"
    try:
        flattenEvent(ev2)
        flat = _fmt_text(ev2)
        if isinstance(ev2.get("log_flattened"), dict):
            keys = "".join(enc_text(k) for k in ev2["log_flattened"])
        try:
            flattenEvent(ev2)
            flat2 = _fmt_text(ev2)
        except Exception as e:
            flat2 = "!" + type(e).__name__
        try:                          # history: an event flattened earlier is serialized later
            fj = _fmt_text(eventFromJSON(eventAsJSON(ev2)))
        except Exception as e:
            fj = "!" + type(e).__name__
    except Exception as e:
        flat = flat2 = fj = "!" + type(e).__name__
    try:
        text = eventAsJSON(event_of(c))
        ev4 = eventFromJSON(text)
        json_ = _fmt_text(ev4)
        jev = enc_py(ev4)
        try:                          # history: the loaded event is serialized and loaded once more (log forwarding)
            json2 = _fmt_text(eventFromJSON(eventAsJSON(eventFromJSON(text))))
        except Exception as e:
            json2 = "!" + type(e).__name__
        try:                          # history: the loaded event is flattened again
            ev6 = eventFromJSON(text)
            flattenEvent(ev6)
            jflat = _fmt_text(ev6)
        except Exception as e:
            jflat = "!" + type(e).__name__
    except Exception as e:
        json_ = jev = json2 = jflat = "!" + type(e).__name__
    return (f"orig={orig}|flat={flat}|flat2={flat2}|json={json_}|keys={keys}|jev={jev}"
            f"|json2={json2}|jflat={jflat}|fj={fj}")


def model_line(c):
    if c["op"] == "parse":
        return "parse " + enc_text(c["s"])
    if c.get("oracle_only"):
        return None
    return "all D" + "k" + enc_text("log_format") + "T" + enc_text(c["fmt"]) + \
        "".join("k" + enc_text(k) + enc_spec(v) for k, v in c["fields"]) + "e"


# ---------------------------------------------------------------------------------------------
# the property on the implementation

def _fields_of(fmt):
    try:
        return [(n, s, cv) for _, n, s, cv in string.Formatter().parse(fmt) if n is not None]
    except ValueError:
        return []


def _features(c):
    fs = _fields_of(c["fmt"])
    feats = set()
    for n, s, cv in fs:
        if s:
            feats.add("spec")
        if cv == "a":
            feats.add("ascii")
        if "()" in n[:-2]:
            feats.add("midcall")
        if any(seg.startswith("_") for seg in n.replace("[", ".").split(".")[1:]):
            feats.add("wrapattr")
    if '"fo"' in json.dumps(c["fields"]):
        feats.add("customfmt")
    return feats


AFTER = ("flat", "flat2", "json", "json2", "jflat", "fj")


def _plain_objects(x):
    """the same value tree with every __format__-carrying object replaced by a plain one (same str/repr)"""
    if isinstance(x, dict):
        if "fo" in x and len(x) == 1:
            return {"o": [x["fo"][0], x["fo"][1], [], None]}
        return {k: _plain_objects(v) for k, v in x.items()}
    if isinstance(x, list):
        return [_plain_objects(v) for v in x]
    return x


def _parts(out):
    d = {}
    for p in out.split("|"):
        k, _, v = p.partition("=")
        d[k] = v
    return d


def _rebuild(its):
    out = ""
    for lit, n, s, cv in its:
        out += lit.replace("{", "{{").replace("}", "}}")
        if n is not None:
            out += "{" + n + ("!" + cv if cv else "") + (":" + s if s else "") + "}"
    return out


def oracle(c, out):
    if c["op"] != "all":
        return None
    if out.startswith("!"):
        return {"key": "harness-raised", "detail": out}
    p = _parts(out)
    for k in ("orig",) + AFTER:
        if p[k].startswith("?"):
            return {"key": "unformattable-text", "detail": f"{k}: {p[k]}"}
    if not p["orig"].startswith("ok:"):
        return None            # the original does not format: outside the property's domain
    bad = [k for k in AFTER if p[k] != p["orig"]]
    if not bad:
        return None
    feats = _features(c)

    def explained_by(c2):
        """a known finding explains the difference only if every text after flattening / JSON is exactly what the
        event formats to once the finding's cause (format specs / the __format__ method) is taken away"""
        p2 = _parts(run_impl(c2))
        return p2.get("orig", "").startswith("ok:") and all(p[k] == p2["orig"] for k in AFTER)
    if "customfmt" in feats:
        key = "custom-format-ignored"
        if not explained_by(dict(c, fields=_plain_objects(c["fields"]))):
            key = "flat-or-json-differs"
    elif "wrapattr" in feats:
        key = "wrapper-attribute-leak"
    elif "midcall" in feats:
        key = "midchain-call-not-flattened"
    elif "ascii" in feats:
        key = "ascii-conversion-lost"
    elif "spec" in feats:
        key = "format-spec-dropped"
        # the known finding explains the difference only if every flattened / JSON text is the text WITHOUT the specs
        # (tightened after mutant m11: a flattened event that no longer formats at all is not "the spec was dropped")
        c2 = dict(c, fmt=_rebuild([(lit, n, "", cv) for lit, n, _, cv in string.Formatter().parse(c["fmt"])]))
        if not explained_by(c2):
            key = "flat-or-json-differs"
    else:
        key = "flat-or-json-differs"

    def dec(r):
        if r.startswith("ok:"):
            return repr("".join(chr(int(x)) for x in r[3:-1].split(".") if x))
        return r
    return {"key": key, "detail": f"log_format={c['fmt']!r} fields={[k for k, _ in c['fields']]}: original {dec(p['orig'])}, "
                                  + ", ".join(f"{k} {dec(p[k])}" for k in bad)}


# ---------------------------------------------------------------------------------------------
# cases

def T(s):
    return {"t": s}


def I(n):
    return {"i": n}


def H(s, r, S=(), R=(), L=(), attrs=(), ret=None):
    return {"h": [s, r, [list(a) for a in attrs], ret, [list(a) for a in S], [list(a) for a in R], [list(a) for a in L]]}


def _reent_corpus():
    """re-entrant field values (seeded change C56-2): a field whose text is produced by going through the flatten
    machinery again, followed by a repeated field / a field sharing its key with the inner event"""
    disk = {"fmt": "disk {disk} at {pct}%", "fields": [["disk", T("sda")], ["pct", I(91)]]}
    low = {"fmt": "{host} is low on disk", "fields": [["host", T("db7")]]}
    polled = {"fmt": "pool {pool} polled, pool size {size}", "fields": [["pool", T("p0")], ["size", I(3)]]}
    rep = {"fmt": "{a} {a!r} {a}", "fields": [["a", T("q'")]]}
    nested = {"fmt": "<{rec}> {a} {rec!r}", "fields": [["a", I(7)], ["rec", H("n-", "N-", S=[["fmt", "json", "", rep]], R=[["json", "", "", rep]])]]}
    out = []
    for prep in ("json", "flat", "raw"):
        out.append({"op": "all", "fmt": "{host}: forwarding <{record}> received from {host}",
                    "fields": [["host", T("db1")], ["record", H("", "", S=[["fmt", prep, "", disk]], R=[["fmt", prep, "", disk]])]]})
    out += [
        {"op": "all", "fmt": "<{record}> relayed by {host}",
         "fields": [["host", T("gw")], ["record", H("", "", S=[["fmt", "json", "", low]])]]},
        {"op": "all", "fmt": "{name}: {pool.status()} ({name})",
         "fields": [["name", T("p0")], ["pool", {"o": ["P", "<P>", [["status", H("st", "<st>", L=[["log", "", "", polled]], ret=T("3 idle"))]], None]}]]},
        {"op": "all", "fmt": "{name}: {pool()} ({name}) {name}",
         "fields": [["name", T("p0")], ["pool", H("st", "<st>", L=[["json", "", "", polled]], ret=T("3 idle"))]]},
        {"op": "all", "fmt": "{a} {h.m} {a} {h!r} {a!r} {h} {a!r}",
         "fields": [["a", T("v")], ["h", H("hs", "hr", S=[["flatfmt", "", "", rep]], R=[["extract", "raw", "a!r", rep]],
                                           L=[["extract", "json", "a", rep], ["json", "", "", rep]], attrs=[["m", I(5)]])]]},
        {"op": "all", "fmt": "{a} {h} {a} {h!a} {a}",
         "fields": [["a", I(1)], ["h", H("é", "€", S=[["extract", "flat", "nope", rep]], R=[["fmt", "flat", "", nested]])]]},
        {"op": "all", "fmt": "{a} {rec} {a} {rec!r} {a}", "fields": nested["fields"]},
        {"op": "all", "fmt": "{a} {o.m} {a} {f()} {a}",
         "fields": [["a", I(1)], ["o", {"o": ["o-s", "o-r", [["m", H("x", "y", S=[["json", "", "", rep]])]], None]}],
                    ["f", {"o": ["f-s", "f-r", [], H("x", "y", S=[["fmt", "json", "", rep]])]}]]},
        {"op": "all", "fmt": "{a} {h} {a} {h} {a}", "oracle_only": True,
         "fields": [["a", T("v")], ["h", H("m", "m", S=[["mutfmt", "", "", rep]])]]},
    ]
    return out


def _audit_corpus():
    """witnesses of the blind spots the white-box mutation audit found (harness/mutants/C56): histories (an event that
    went through JSON is flattened / serialized again), values and keys outside str/int/list/dict, and format specs
    that change nothing (the known finding must not hide a flattened event that no longer formats)"""
    P = {"o": ["O-str", "O-repr", [["a", I(5)]], None]}
    X = {"oracle_only": True}
    return [
        {"op": "all", "fmt": "{o} {o.a} {o!r} {o}", "fields": [["o", P]]},                            # m02 (second hop)
        {"op": "all", "fmt": "{t} {t!r} {u} {e}", "fields": [["t", {"tu": [I(1), I(2)]}], ["u", {"tu": [T("one")]}], ["e", {"tu": []}]], **X},   # m04
        {"op": "all", "fmt": "{s} {s!r} {s!s}", "fields": [["s", {"ss": ["secret", "***", None]}]], **X},  # m05
        {"op": "all", "fmt": "{n} {n!r}", "fields": [["n", {"is": [5, "five"]}]], **X},
        {"op": "all", "fmt": "{a}", "fields": [["a", I(1)]], "xkeys": [[{"tu": [I(1), I(2)]}, T("x")]], **X},   # m06
        {"op": "all", "fmt": "{a} {a[1]}", "fields": [["a", {"dk": [[I(1), T("x")], [T("k"), T("y")], [{"tu": []}, I(0)]]}]], **X},  # m06/m07
        {"op": "all", "fmt": "{a} {b!r} {c}", "fields": [["a", {"f": "nan"}], ["b", {"f": "inf"}], ["c", {"l": [{"f": "-inf"}]}]], **X},  # m08
        {"op": "all", "fmt": "{a} {a.name} {b} {l.name}", "fields": [["a", {"nc": "red"}], ["b", {"nc": "info"}], ["l", {"lv": "warn"}]], **X},  # m10
        {"op": "all", "fmt": "{log_failure.value} {log_failure.getErrorMessage()} {log_level.name} {log_logger} in {log_namespace}",
         "fields": [["log_failure", {"fl": "boom"}]], "std": "error", **X},
        {"op": "all", "fmt": "{a} {x:{w}}", "fields": [["a", I(1)], ["x", T("ab")], ["w", I(0)]]},      # m11: a spec that changes nothing
        {"op": "all", "fmt": "{a} {n:d} {a!r:s}", "fields": [["a", T("v")], ["n", I(42)]]},
    ]


def corpus():
    o = {"o": ["O-str", "O-repr", [["a", I(5)], ["f", {"o": ["f-s", "f-r", [], {"o": ["r-s", "r-r", [["y", I(5)]], None]}]}]], None]}
    fn = {"o": ["fn-s", "<fn>", [], {"o": ["r-s", "r-r", [["y", T("why")]], None]}]}
    return [
        {"op": "all", "fmt": "{n:05d}", "fields": [["n", I(42)]]},
        {"op": "all", "fmt": "{x:{w}}", "fields": [["x", T("ab")], ["w", I(5)]]},
        {"op": "all", "fmt": "{x!r:>8}", "fields": [["x", T("ab")]]},
        {"op": "all", "fmt": "{x!a}", "fields": [["x", T("é€")]]},
        {"op": "all", "fmt": "{x().y}", "fields": [["x", fn]]},
        {"op": "all", "fmt": "{o.f().y} {o.f()} {o.a}", "fields": [["o", o]]},
        {"op": "all", "fmt": "line {x} {x!r}", "fields": [["x", {"y": "474554202f20485454502f312e31"}]], "oracle_only": True},
        {"op": "all", "fmt": "{o.m} {l[0]}", "fields": [["o", {"o": ["s", "r", [["m", {"y": "c3a9"}]], None]}], ["l", {"l": [{"y": ""}]}]], "oracle_only": True},
        {"op": "all", "fmt": "{x.__class__.__name__}", "fields": [["x", I(3)]], "oracle_only": True},
        {"op": "all", "fmt": "{x._wrapped}", "fields": [["x", I(3)]], "oracle_only": True},
        {"op": "all", "fmt": "{x} and {x!r}", "fields": [["x", {"fo": ["fo-s", "fo-r"]}]], "oracle_only": True},
        {"op": "all", "fmt": "{x} {x} {x!r} {x!s} {x}", "fields": [["x", T("q'\"\\")]]},
        {"op": "all", "fmt": "a{{b}}c {x[1]} {d[k]} {d[k][0]}", "fields": [["x", {"l": [I(1), I(-2)]}], ["d", {"d": [["k", T("vé")]]}]]},
        {"op": "all", "fmt": "{x[0]()}", "fields": [["x", {"l": [fn]}]]},
        {"op": "all", "fmt": "{} {0} {missing} {x!z}", "fields": [["x", I(1)]]},
        {"op": "all", "fmt": "lit only }} {{", "fields": [["x", I(1)]]},
        {"op": "all", "fmt": "{log_format}", "fields": []},
        {"op": "all", "fmt": "{x:/2} {x} {x}", "fields": [["x", T("v")]]},
        {"op": "all", "fmt": "{x:{w:{v}}}", "fields": [["x", I(1)], ["w", I(2)], ["v", I(3)]]},
        {"op": "all", "fmt": "{x", "fields": [["x", I(1)]]},
        {"op": "all", "fmt": "{x} }", "fields": [["x", I(1)]]},
    ] + _reent_corpus() + _audit_corpus() + [
        {"op": "parse", "s": "a{{b}}{x[a:b!r]!r:>{w}}{y!s}}}{"},
        {"op": "parse", "s": "{x[}"},
        {"op": "parse", "s": "{a!r"},
        {"op": "parse", "s": "{a!rx}"},
    ]


def _text(rng, n=None, alpha=TEXT_ALPHA):
    n = rng.choice([0, 1, 1, 2, 3, 5]) if n is None else n
    return "".join(rng.choice(alpha) for _ in range(n))


def _val(rng, depth, allow_call=True):
    r = rng.random()
    if depth <= 0 or r < 0.45:
        k = rng.random()
        if k < 0.45:
            return T(_text(rng))
        if k < 0.8:
            return I(rng.choice([0, 1, 7, 42, -1, -305, 255, 10, 99, 100, 2**70, rng.randint(-10**6, 10**6)]))
        if k < 0.86:
            return {"b": rng.random() < 0.5}
        if k < 0.93:                  # bytes with deterministic str/repr: valid UTF-8, invalid UTF-8, empty
            return {"y": rng.choice(["", "474554202f20485454502f312e31", "c3a9", "ff00fe", "61", "0a27"])}
        if k < 0.96:
            return {"f": rng.choice(["0.5", "-1.25", "1e+300", "3.0", "0.1", "nan", "inf", "-inf"])}
        return {"n": None}
    if r < 0.6:
        return {"l": [_val(rng, depth - 1) for _ in range(rng.randint(0, 3))]}
    if r < 0.75:
        keys = rng.sample(NAMES + ["1", "a b", "é", "k:!"], rng.randint(0, 3))
        return {"d": [[k, _val(rng, depth - 1)] for k in keys]}
    attrs = [[k, _val(rng, depth - 1)] for k in rng.sample(NAMES, rng.randint(0, 3))]
    ret = _val(rng, depth - 1) if (allow_call and rng.random() < 0.5) else None
    return {"o": [_text(rng, alpha=TEXT_ALPHA[:14]), _text(rng, alpha=TEXT_ALPHA[:14]), attrs, ret]}


def _kind(v):
    return next(iter(v))


# legal-but-unusual values and keys (white-box mutation audit): containers other than list/dict, subclasses of the
# basic types with their own __str__, non-finite floats, constants, Failures, dicts whose keys are not all str
EXOTIC = ("tu", "se", "ss", "is", "nc", "lv", "fl", "lg", "dk")
XPATHS = {"fl": ["", ".value", ".getErrorMessage()", ".type", ".value.args[0]"], "nc": ["", ".name"], "lv": ["", ".name"],
          "lg": ["", ".namespace"], "ss": ["", "", "[0]"], "se": [""], "is": ["", ".real"]}


WRAPPER_ATTRS = ["._wrapped", ".__class__.__name__", ".__class__", ".__dict__", ".__module__", ".__doc__"]


def _xkey(rng):
    """a dict key that is not a str"""
    r = rng.random()
    if r < 0.3:
        return {"tu": [I(rng.choice([0, 1, 2])) for _ in range(rng.choice([0, 1, 2]))]}
    if r < 0.5:
        return I(rng.choice([0, 1, 2, 7, -1]))
    if r < 0.65:
        return {"y": rng.choice(["", "6b", "ff"])}
    if r < 0.75:
        return {"nc": rng.choice(["red", "info"])}
    if r < 0.85:
        return {"se": [I(1)][:rng.choice([0, 1])]}
    return rng.choice([{"n": None}, {"b": True}, {"f": "0.5"}, {"f": "nan"}])


def _xval(rng, depth):
    k = rng.choice(["tu", "tu", "se", "ss", "ss", "is", "nc", "nc", "lv", "fl", "lg", "dk", "dk", "f", "y", "wrap", "wrap"])
    if k == "tu":
        return {"tu": [_val(rng, depth - 1) for _ in range(rng.choice([0, 1, 1, 2, 3]))]}
    if k == "se":
        return {"se": [rng.choice([I(7), T("a"), {"tu": []}])][:rng.choice([0, 1, 1])]}
    if k == "ss":
        raw = _text(rng)
        return {"ss": [raw, rng.choice([raw, "***", _text(rng)]), rng.choice([None, None, "<ss>"])]}
    if k == "is":
        n = rng.choice([0, 1, 5, -3, 2**70])
        return {"is": [n, rng.choice([str(n), "five", ""])]}
    if k == "nc":
        return {"nc": rng.choice(["red", "info", "x_y"])}
    if k == "lv":
        return {"lv": rng.choice(["debug", "info", "warn", "error", "critical"])}
    if k == "fl":
        return {"fl": _text(rng, alpha=TEXT_ALPHA[:14])}
    if k == "lg":
        return {"lg": rng.choice(["", "a.b", "é"])}
    if k == "dk":
        n = rng.choice([1, 2, 2, 3])
        kvs = []
        for _ in range(n):
            key = _xkey(rng) if rng.random() < 0.7 else T(rng.choice(NAMES + ["k", "1"]))
            if json.dumps(key) not in [json.dumps(q) for q, _ in kvs]:
                kvs.append([key, _val(rng, depth - 1)])
        return {"dk": kvs}
    if k == "f":
        return {"f": rng.choice(["nan", "inf", "-inf"])}
    if k == "y":
        return {"y": rng.choice(["", "ff00fe", "c3a9", "80"])}
    # an ordinary container / object holding an unusual value
    inner = _xval(rng, depth - 1) if depth > 0 else {"tu": []}
    r = rng.random()
    if r < 0.35:
        return {"l": [inner] + [_val(rng, 0) for _ in range(rng.choice([0, 1]))]}
    if r < 0.6:
        return {"d": [[rng.choice(NAMES), inner]]}
    if r < 0.8:
        return {"o": [_text(rng, alpha=TEXT_ALPHA[:14]), _text(rng, alpha=TEXT_ALPHA[:14]), [[rng.choice(NAMES), inner]], None]}
    return {"o": [_text(rng, alpha=TEXT_ALPHA[:14]), _text(rng, alpha=TEXT_ALPHA[:14]), [], inner]}


def _path(rng, name, v, midcall, broken):
    """a field name walking value v from event key `name`; returns (fieldName, final value spec or None)"""
    out = name
    after_bracket = False
    for _ in range(6):
        k = _kind(v)
        if broken and rng.random() < 0.15:
            out += rng.choice([".nope", "[99]", "[zz]", "()", ".", "[", "[]", "]x", ".a.", "..a"])
            return out, None
        stop = rng.random() < 0.3
        if k in XPATHS:
            return out + ("" if after_bracket and k == "fl" else rng.choice(XPATHS[k])), None
        if k in ("o", "h"):
            s, r, attrs, ret = v[k][:4]
            if ret is not None and not after_bracket and rng.random() < 0.6:
                out += "()"
                v = ret
                after_bracket = True          # "()" may only be followed by "." or "[": fine either way
                if not midcall:
                    return out, v
                after_bracket = False
                # after "()" only '.'/'[' segments make sense; loop continues on the returned value
                if _kind(v) in ("o", "h") and v[_kind(v)][3] is not None:
                    return out, v             # "x()()" is not call syntax
                continue
            if attrs and not stop:
                kk, vv = rng.choice(attrs)
                out += "." + kk
                v = vv
                after_bracket = False
                continue
            return out, v
        if stop:
            return out, v
        if k in ("l", "tu") and v[k]:
            i = rng.randrange(len(v[k]))
            out += f"[{i}]"
            v = v[k][i]
            after_bracket = True
            continue
        if k == "dk" and v["dk"]:
            kk, vv = rng.choice(v["dk"])
            if _kind(kk) == "i" and kk["i"] >= 0:
                out += f"[{kk['i']}]"           # an index lookup that finds an int key
            elif _kind(kk) == "t" and not kk["t"].isdigit():
                out += f"[{kk['t']}]"
            else:
                return out, v
            v = vv
            after_bracket = True
            continue
        if k == "d" and v["d"]:
            kk, vv = rng.choice(v["d"])
            if "]" in kk:
                return out, v
            out += f"[{kk}]"
            v = vv if not kk.isdigit() else None
            after_bracket = True
            if v is None:
                return out, None
            continue
        if k == "t" and v["t"] and rng.random() < 0.3:
            i = rng.randrange(len(v["t"]))
            out += f"[{i}]"
            return out, T(v["t"][i])
        return out, v
    return out, v


INT_SPECS = ["05d", ">8", "x", "#x", "+d", "^7", "08b", " d", "<5", "*^9", "=+6", "o", "X", "#06X", "3", "+", "-08", "d", "#b",
             "{w}", "0{w}d", ">{w}", "q", ".2", "5s", "z"]
TEXT_SPECS = [">8", "<5", "^7", ".2", "10.3", "*>6", "s", "5s", "3", "08", "{w}", ">{w}", ".{w}", "+", "=5", "d", "#", "x<4", "\u00e9^5"]


def _literal(rng):
    parts = []
    for _ in range(rng.choice([0, 1, 1, 2])):
        parts.append(rng.choice(["a", "msg ", "{{", "}}", "é", "=", " ", ":", "!r", "[0]", "x.y", "()", "/2", "!s:"]))
    return "".join(parts)


def _gen_all(rng, mode):
    nfields = rng.randint(1, 4)
    fields = []
    used = rng.sample(NAMES + ["o", "fn", "lst"], nfields)
    for k in used:
        fields.append([k, _val(rng, 3)])
    xkeys, std = [], None
    if mode == "exotic":
        for i in rng.sample(range(nfields), min(nfields, rng.choice([1, 1, 2]))):
            fields[i][1] = _xval(rng, 2)
        if rng.random() < 0.35:
            xkeys = [[_xkey(rng), _val(rng, 1)] for _ in range(rng.choice([1, 1, 2]))]
            xkeys = [kv for i, kv in enumerate(xkeys) if json.dumps(kv[0]) not in [json.dumps(q[0]) for q in xkeys[:i]]]
        if rng.random() < 0.3:
            std = rng.choice(["debug", "info", "warn", "error", "critical"])
    if mode == "spec":
        fields.append(["w", I(rng.choice([0, 1, 5, 9]))])
        fields.append(["n", I(rng.choice([42, -42, 0, 255, 10**9]))])
    broken = mode == "broken"
    refs = []
    for _ in range(rng.randint(1, 4)):
        k, v = rng.choice(fields)
        name, fin = _path(rng, k, v, mode == "midcall", broken)
        if std and rng.random() < 0.4:
            name, fin = rng.choice(["log_level", "log_level.name", "log_namespace", "log_logger", "log_source", "log_time",
                                    "log_logger.namespace"]), None
        elif mode == "exotic" and rng.random() < 0.12:
            # attribute names that PotentialCallWrapper itself has: both paths must resolve them the same way
            name, fin = k + rng.choice(WRAPPER_ATTRS), None
        r = rng.random()
        conv = None
        if r < 0.2:
            conv = "s"
        elif r < 0.45:
            conv = "r"
        elif mode == "ascii" and r < 0.8:
            conv = "a"
        elif broken and r < 0.5:
            conv = rng.choice(["z", "R", "!", "0"])
        spec = ""
        if mode == "spec" and rng.random() < 0.7:
            if fin is not None and _kind(fin) == "i" and conv is None:
                spec = rng.choice(INT_SPECS)
            elif conv is not None or (fin is not None and _kind(fin) == "t"):
                spec = rng.choice(TEXT_SPECS)
            else:
                spec = rng.choice(["", ">5", "s", "{w}"])
        refs.append("{" + name + ("!" + conv if conv else "") + (":" + spec if spec or rng.random() < 0.05 else "") + "}")
    # repeated fields exercise the /n key numbering
    if rng.random() < 0.5:
        refs += [rng.choice(refs) for _ in range(rng.randint(1, 3))]
        rng.shuffle(refs)
    fmt = _literal(rng)
    for r in refs:
        fmt += r + _literal(rng)
    if broken and rng.random() < 0.3:
        fmt += rng.choice(["{", "}", "{x", "{a!}", "{a!r", "{a!rs}", "{a:{", "{a[}", "{{}", "{a{b}}"])
    c = {"op": "all", "fmt": fmt, "fields": fields, "mode": mode}
    if xkeys:
        c["xkeys"] = xkeys
    if std:
        c["std"] = std
    if mode == "exotic" or '"y"' in json.dumps(fields) or '"f"' in json.dumps(fields):
        c["oracle_only"] = True       # bytes / float / unusual values have no Lean model: judged by the oracle on the real code only
    return c


def _has(v, kinds):
    return any(('"%s"' % k) in json.dumps(v) for k in kinds)


def _val_m(rng, depth):
    """a value the Lean model knows (no bytes / float leaves)"""
    while True:
        v = _val(rng, depth)
        if not _has(v, ("y", "f")):
            return v


HOOK_ALPHA = TEXT_ALPHA[:14]


def _inner_event(rng, depth, shared):
    """a small spec-free event for a hook to work on; its field names (and so its flatten keys) are drawn
    from the names the outer event uses, so that inner and outer keys coincide"""
    pool = list(dict.fromkeys(shared + NAMES[:3]))
    names = rng.sample(pool, min(len(pool), rng.randint(1, 3)))
    fields = []
    for k in names:
        if depth > 0 and rng.random() < 0.25:
            fields.append([k, _hook(rng, depth - 1, shared)])
        else:
            fields.append([k, _val_m(rng, 1)])
    refs = []
    for _ in range(rng.randint(1, 3)):
        k, v = rng.choice(fields)
        name, _fin = _path(rng, k, v, False, False)
        conv = rng.choice([None, None, None, "s", "r", "r", "a"])
        refs.append("{" + name + ("!" + conv if conv else "") + "}")
    if rng.random() < 0.5:
        refs += [rng.choice(refs) for _ in range(rng.randint(1, 2))]
    if rng.random() < 0.08:
        refs.append(rng.choice(["{nope}", "{" + names[0] + ".zz}", "{" + names[0] + "[0]}"]))
    fmt = _literal(rng)
    for r in refs:
        fmt += r + _literal(rng)
    return {"fmt": fmt, "fields": fields}


def _action(rng, depth, shared, mut=False):
    e = _inner_event(rng, depth, shared)
    r = rng.random()
    if mut and r < 0.3:
        return ["mutfmt", "", "", e]
    if r < 0.35:
        return ["fmt", rng.choice(["flat", "json", "json", "raw"]), "", e]
    if r < 0.55:
        return ["json", "", "", e]
    if r < 0.7:
        return ["flatfmt", "", "", e]
    if r < 0.85:
        fields = [n for _, n, _, cv in string.Formatter().parse(e["fmt"]) if n is not None] or ["nope"]
        f = rng.choice(fields) + rng.choice(["", "", "!r", "!s", "!a"])
        return ["extract", rng.choice(["raw", "flat", "json"]), f, e]
    return ["log", "", "", e]


def _script(rng, depth, shared, p, mut=False):
    if rng.random() >= p:
        return []
    return [_action(rng, depth, shared, mut) for _ in range(rng.choice([1, 1, 1, 2]))]


def _hook(rng, depth, shared, mut=False):
    attrs = [[k, _val_m(rng, 1)] for k in rng.sample(NAMES, rng.randint(0, 2))]
    ret = _val_m(rng, 1) if rng.random() < 0.5 else None
    S = _script(rng, depth, shared, 0.7, mut)
    R = _script(rng, depth, shared, 0.5, mut)
    L = _script(rng, depth, shared, 0.6 if (ret is not None or attrs) else 0.0, mut)
    if not (S or R or L):
        S = [_action(rng, depth, shared, mut)]
    return {"h": [_text(rng, alpha=HOOK_ALPHA), _text(rng, alpha=HOOK_ALPHA), attrs, ret, S, R, L]}


def _gen_reent(rng, mut=False):
    """an outer event with plain fields and re-entrant objects; the fields referenced AFTER a re-entrant one repeat
    earlier (field, conversion) pairs of the outer event or use the names the inner events use"""
    nplain = rng.randint(1, 3)
    used = rng.sample(NAMES, nplain)
    fields = [[k, _val_m(rng, 2)] for k in used]
    hooks = []
    for hn in rng.sample(["h", "rec", "pool"], rng.choice([1, 1, 2])):
        hk = _hook(rng, rng.choice([0, 0, 1, 2]), used, mut)
        r = rng.random()
        if r < 0.6:
            fields.append([hn, hk])
        elif r < 0.8:           # the hook is an attribute of a plain object
            fields.append([hn, {"o": ["o-s", "o-r", [["m", hk]], None]}])
        else:                   # the hook is what a plain callable returns
            fields.append([hn, {"o": ["o-s", "o-r", [], hk]}])
        hooks.append(fields[-1])
    rng.shuffle(fields)

    def ref(k, v, force_conv=False):
        name, _fin = _path(rng, k, v, rng.random() < 0.3, False)
        conv = rng.choice([None, None, "s", "r", "r", "a"])
        return "{" + name + ("!" + conv if conv else "") + "}"
    plain = [f for f in fields if f not in hooks]
    before = [ref(*rng.choice(plain)) for _ in range(rng.randint(0, 2))]
    mid = [ref(*rng.choice(hooks)) for _ in range(rng.randint(1, 2))]
    after = []
    for _ in range(rng.randint(1, 3)):
        r = rng.random()
        if r < 0.5 and before:
            after.append(rng.choice(before))            # repeats an earlier field of the outer event
        elif r < 0.7:
            after.append(rng.choice(mid))               # the re-entrant field again
        else:
            after.append(ref(*rng.choice(plain)))       # a (possibly shared-name) later field
    refs = before + mid + after
    if rng.random() < 0.15:
        rng.shuffle(refs)
    fmt = _literal(rng)
    for r in refs:
        fmt += r + _literal(rng)
    c = {"op": "all", "fmt": fmt, "fields": fields, "mode": "reent-mut" if mut else "reent"}
    if mut:
        c["oracle_only"] = True
    return c


MALFORMED_ALPHA = ["{", "}", "{", "}", "[", "]", "!", ":", ".", "(", ")", "a", "b", "0", " ", "r"]


def generate(rng, tier):
    n = 2500 if tier == "quick" else 60000
    modes = ["plain"] * 8 + ["spec"] * 3 + ["ascii", "midcall", "broken", "broken"] + ["exotic"] * 5
    for i in range(n):
        r = rng.random()
        if r < (0.25 if tier == "quick" else 0.15):
            yield _gen_reent(rng, mut=rng.random() < 0.12)
        elif r < 0.8:
            yield _gen_all(rng, rng.choice(modes))
        elif r < 0.9:
            yield {"op": "parse", "s": _text(rng, rng.randint(0, 10), MALFORMED_ALPHA)}
        else:
            c = _gen_all(rng, "plain")
            c["fmt"] = _text(rng, rng.randint(1, 9), MALFORMED_ALPHA)
            c["mode"] = "malformed"
            yield c


def shrink(c):
    if c["op"] != "all":
        s = c["s"]
        for i in range(len(s)):
            yield {"op": "parse", "s": s[:i] + s[i + 1:]}
        return
    fmt, fields = c["fmt"], c["fields"]
    base = {k: v for k, v in c.items() if k not in ("fmt", "fields")}
    # drop a whole replacement field or a literal chunk
    try:
        items = list(string.Formatter().parse(fmt))
    except ValueError:
        items = []

    rebuild = _rebuild
    for i in range(len(items)):
        yield dict(base, fmt=rebuild(items[:i] + items[i + 1:]), fields=fields)
    for i, (lit, n, s, cv) in enumerate(items):
        if lit:
            yield dict(base, fmt=rebuild(items[:i] + [("", n, s, cv)] + items[i + 1:]), fields=fields)
    for i in range(len(fields)):
        yield dict(base, fmt=fmt, fields=fields[:i] + fields[i + 1:])
    for drop in ("xkeys", "std"):
        if drop in base:
            yield dict({k: v for k, v in base.items() if k != drop}, fmt=fmt, fields=fields)
    xk = base.get("xkeys", [])
    for i in range(len(xk)):
        if len(xk) > 1:
            yield dict(base, fmt=fmt, fields=fields, xkeys=xk[:i] + xk[i + 1:])
    for i, (k, v) in enumerate(fields):
        kind = _kind(v)
        if kind == "t" and v["t"]:
            yield dict(base, fmt=fmt, fields=fields[:i] + [[k, T(v["t"][1:])]] + fields[i + 1:])
        if kind in ("l", "d", "tu", "dk", "se") and v[kind]:
            yield dict(base, fmt=fmt, fields=fields[:i] + [[k, {kind: v[kind][1:]}]] + fields[i + 1:])
        if kind == "h":
            h = v["h"]
            for j in (4, 5, 6):              # drop one action of one script
                for a in range(len(h[j])):
                    h2 = list(h)
                    h2[j] = h[j][:a] + h[j][a + 1:]
                    yield dict(base, fmt=fmt, fields=fields[:i] + [[k, {"h": h2}]] + fields[i + 1:])
            for j in (4, 5, 6):              # shrink the inner event of an action
                for a, (akind, prep, field, e) in enumerate(h[j]):
                    for sub in shrink({"op": "all", "fmt": e["fmt"], "fields": e["fields"]}):
                        h2 = list(h)
                        h2[j] = h[j][:a] + [[akind, prep, field, {"fmt": sub["fmt"], "fields": sub["fields"]}]] + h[j][a + 1:]
                        yield dict(base, fmt=fmt, fields=fields[:i] + [[k, {"h": h2}]] + fields[i + 1:])


def tag(c, out):
    if c["op"] == "parse":
        return "parse:" + ("err" if out.endswith("!ValueError") else "ok") + ":" + str(min(out.count("F"), 3))
    p = _parts(out) if "|" in out else {}
    fs = _fields_of(c["fmt"])
    look = "".join(sorted({ch for n, _, _ in fs for ch in n if ch in ".[("}))
    convs = "".join(sorted({cv or "-" for _, _, cv in fs}))
    spec = "S" if any(s for _, s, _ in fs) else ""
    rep = "R" if len({(n, s, cv) for n, s, cv in fs}) < len(fs) else ""

    def cls(r):
        return "ok" if r.startswith("ok:") else r
    oc = "/".join(cls(p.get(k, "?")) for k in ("orig", "flat", "json"))
    hk = _hook_info(c["fields"])
    code = {"fmt:flat": "F", "fmt:json": "J", "fmt:raw": "W", "json": "j", "flatfmt": "t", "extract:raw": "x",
            "extract:flat": "X", "extract:json": "Y", "log": "l", "mutfmt": "m"}
    hooks = ("H" + "".join(sorted(code.get(a, "?") for a in hk)) + ("K" if _shares_keys(c) else "")) if hk else ""
    dumped = json.dumps([c["fields"], c.get("xkeys", [])])
    exo = "".join(sorted(k[0] + k[-1] for k in EXOTIC if ('{"%s":' % k) in dumped))
    exo = ("X" + exo + ("k" if c.get("xkeys") else "") + ("s" if c.get("std") else "")) if (exo or c.get("xkeys") or c.get("std")) else ""
    hist = "" if len({cls(p.get(k, "?")) for k in AFTER}) <= 1 else "h"
    return f"{c.get('mode', 'corpus')}:{look}:{convs}:{spec}{rep}{hooks}{exo}:{min(len(fs), 4)}:{oc}{hist}"


def _hook_info(x, acc=None):
    """the set of (action kind + prep) used by the hooks inside a value tree"""
    acc = set() if acc is None else acc
    if isinstance(x, dict):
        if "h" in x and isinstance(x["h"], list) and len(x["h"]) == 7:
            for sc in x["h"][4:]:
                for kind, prep, field, e in sc:
                    acc.add(kind + (":" + prep if prep else ""))
                    _hook_info(e["fields"], acc)
            _hook_info(x["h"][2], acc)
            _hook_info(x["h"][3], acc)
        else:
            for v in x.values():
                _hook_info(v, acc)
    elif isinstance(x, list):
        for v in x:
            _hook_info(v, acc)
    return acc


def _inner_fmts(x, acc):
    if isinstance(x, dict):
        if "h" in x and isinstance(x["h"], list) and len(x["h"]) == 7:
            for sc in x["h"][4:]:
                for kind, prep, field, e in sc:
                    acc.append(e["fmt"])
                    _inner_fmts(e["fields"], acc)
            _inner_fmts(x["h"][2], acc)
            _inner_fmts(x["h"][3], acc)
        else:
            for v in x.values():
                _inner_fmts(v, acc)
    elif isinstance(x, list):
        for v in x:
            _inner_fmts(v, acc)
    return acc


def _shares_keys(c):
    """does the outer format repeat a field, or share a (field, conversion) with an inner event?"""
    outer = [(n, cv or "s") for n, s, cv in _fields_of(c["fmt"])]
    if len(set(outer)) < len(outer):
        return True
    inner = {(n, cv or "s") for f in _inner_fmts(c["fields"], []) for n, s, cv in _fields_of(f)}
    return bool(inner & set(outer))
