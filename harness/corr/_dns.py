"""Shared by corr/C32.py and corr/C33.py: case <-> real twisted.names.dns objects <-> canonical text.

Canonical text (the same grammar the Lean driver parses/prints, lean/TwistedModel/Dns/Text.lean):
  msg  := hdr SP nq SP nan SP nns SP nadd (SP item)*
  hdr  := id,answer,opCode,recDes,recAv,auth,rCode,trunc,maxSize,authenticData,checkingDisabled
  item := q:<name>:<type>:<cls> | r:<name>:<type>:<cls>:<ttl>:<k|u|->:<vals>
  val  := n<dec> | i<dec> | b<hex> | l[<hex>(/<hex>)*] | a<prefixLen>/<suffix>/<prefix>
A case's message is {"hdr":[11 ints], "q":[[namehex,type,cls]..], "an"/"ns"/"ad":[{"n","t","c","ttl","pk","v":[val..]}..]}.
"""
import os
import subprocess
from pathlib import Path

from twisted.names import dns

DRIVER = Path(__file__).resolve().parent.parent.parent / "lean" / ".lake" / "build" / "bin" / "driver"


def hx(b):
    return b.hex() if b else "-"


def unhx(s):
    return b"" if s == "-" else bytes.fromhex(s)


# class -> [(attribute, kind)]: N Name, C Charstr, b bytes, n unsigned int, i signed int, l list of bytes
_SIMPLE = [("name", "N")]
ATTRS = {
    dns.Record_A: [("address", "b")],
    dns.Record_NS: _SIMPLE, dns.Record_MD: _SIMPLE, dns.Record_MF: _SIMPLE, dns.Record_CNAME: _SIMPLE,
    dns.Record_MB: _SIMPLE, dns.Record_MG: _SIMPLE, dns.Record_MR: _SIMPLE, dns.Record_PTR: _SIMPLE,
    dns.Record_DNAME: _SIMPLE,
    dns.Record_SOA: [("mname", "N"), ("rname", "N"), ("serial", "n"), ("refresh", "i"), ("retry", "i"),
                     ("expire", "i"), ("minimum", "n")],
    dns.Record_NULL: [("payload", "b")],
    dns.Record_WKS: [("address", "b"), ("protocol", "n"), ("map", "b")],
    dns.Record_HINFO: [("cpu", "b"), ("os", "b")],
    dns.Record_MINFO: [("rmailbx", "N"), ("emailbx", "N")],
    dns.Record_MX: [("preference", "n"), ("name", "N")],
    dns.Record_TXT: [("data", "l")], dns.Record_SPF: [("data", "l")],
    dns.Record_RP: [("mbox", "N"), ("txt", "N")],
    dns.Record_AFSDB: [("subtype", "n"), ("hostname", "N")],
    dns.Record_AAAA: [("address", "b")],
    dns.Record_SRV: [("priority", "n"), ("weight", "n"), ("port", "n"), ("target", "N")],
    dns.Record_NAPTR: [("order", "n"), ("preference", "n"), ("flags", "C"), ("service", "C"), ("regexp", "C"),
                       ("replacement", "N")],
    dns.Record_SSHFP: [("algorithm", "n"), ("fingerprintType", "n"), ("fingerprint", "b")],
    dns.Record_TSIG: [("algorithm", "N"), ("timeSigned", "n"), ("fudge", "n"), ("MAC", "b"), ("originalID", "n"),
                      ("error", "n"), ("otherData", "b")],
}
BY_TYPE = {cls.TYPE: cls for cls in list(ATTRS) + [dns.Record_A6]}
# field kinds per TYPE, as the statement's "in-range" reading needs them (independent of the Lean table)
KINDS = {
    1: ["raw4"], 6: ["N", "N", "u32", "i32", "i32", "i32", "u32"], 10: ["rest"], 11: ["raw4", "u8", "rest"],
    13: ["s8", "s8"], 14: ["N", "N"], 15: ["u16", "N"], 16: ["txt"], 99: ["txt"], 17: ["N", "N"], 18: ["u16", "N"],
    28: ["raw16"], 33: ["u16", "u16", "u16", "N"], 35: ["u16", "u16", "s8", "s8", "s8", "N"], 38: ["a6"],
    44: ["u8", "u8", "rest"], 250: ["N", "u48", "u16", "s16", "u16", "u16", "s16"],
}
for _t in (2, 3, 4, 5, 7, 8, 9, 12, 39):
    KINDS[_t] = ["N"]


def parse_val(s):
    k, r = s[0], s[1:]
    if k in "ni":
        return int(r)
    if k == "b":
        return unhx(r)
    if k == "l":
        return [unhx(x) for x in r.split("/")] if r else []
    if k == "a":
        p, sfx, pre = r.split("/")
        return (int(p), unhx(sfx), unhx(pre))
    raise ValueError(s)


def build_payload(r):
    """the Record_* object described by rr-dict r (attributes set directly, so out-of-range values survive)"""
    if r["pk"] == "-":
        return None
    vals = [parse_val(v) for v in r["v"]]
    if r["pk"] == "u":
        return dns.UnknownRecord(vals[0], ttl=r["ttl"])
    cls = BY_TYPE[r["t"]]
    if cls is dns.Record_A6:
        p, sfx, pre = vals[0]
        o = cls(p, ttl=r["ttl"])               # the constructor derives `.bytes` from prefixLen
        o.suffix, o.prefix = sfx, dns.Name(pre)
        return o
    o = cls(ttl=r["ttl"])
    for (attr, kind), v in zip(ATTRS[cls], vals, strict=True):
        setattr(o, attr, dns.Name(v) if kind == "N" else dns.Charstr(v) if kind == "C" else v)
    return o


def build_rr(r, auth):
    return dns.RRHeader(unhx(r["n"]), r["t"], r["c"], r["ttl"], build_payload(r), auth=bool(auth))


def build_sections(m, target, auth):
    target.queries = [dns.Query(unhx(n), t, c) for n, t, c in m["q"]]
    target.answers = [build_rr(r, auth) for r in m["an"]]
    target.authority = [build_rr(r, auth) for r in m["ns"]]
    target.additional = [build_rr(r, auth) for r in m["ad"]]


def build_message(m):
    h = m["hdr"]
    msg = dns.Message(id=h[0], answer=h[1], opCode=h[2], recDes=h[3], recAv=h[4], auth=h[5], rCode=h[6], trunc=h[7],
                      maxSize=h[8], authenticData=h[9], checkingDisabled=h[10])
    build_sections(m, msg, h[5])
    return msg


def build_edns(m):
    h = m["hdr"]
    msg = dns._EDNSMessage(id=h[0], answer=h[1], opCode=h[2], recDes=h[3], recAv=h[4], auth=h[5], rCode=h[6],
                           trunc=h[7], maxSize=h[8], authenticData=h[9], checkingDisabled=h[10],
                           ednsVersion=None if h[11] < 0 else h[11], dnssecOK=h[12])
    build_sections(m, msg, h[5])
    return msg


def show_val(kind, v):
    if kind == "N":
        return "b" + hx(v.name)
    if kind == "C":
        return "b" + hx(v.string)
    if kind == "b":
        return "b" + hx(v)
    if kind == "n":
        return f"n{int(v)}"
    if kind == "i":
        return f"i{int(v)}"
    if kind == "l":
        return "l" + "/".join(hx(x) for x in v)
    raise ValueError(kind)


def show_payload(p):
    if p is None:
        return "-:_"
    if type(p) is dns.UnknownRecord:
        return "u:b" + hx(p.data)
    if type(p) is dns.Record_A6:
        return f"k:a{p.prefixLen}/{hx(p.suffix)}/{hx(p.prefix.name)}"
    return "k:" + ",".join(show_val(k, getattr(p, a)) for a, k in ATTRS[type(p)])


def show_rr(r):
    return f"r:{hx(r.name.name)}:{r.type}:{r.cls}:{r.ttl}:{show_payload(r.payload)}"


def show_sections(m):
    items = [f"q:{hx(q.name.name)}:{q.type}:{q.cls}" for q in m.queries]
    items += [show_rr(r) for r in m.answers + m.authority + m.additional]
    return " ".join([str(len(m.queries)), str(len(m.answers)), str(len(m.authority)), str(len(m.additional))] + items)


def _i(x):
    return int(x)


def show_message(m):
    return (f"{m.id},{_i(m.answer)},{m.opCode},{_i(m.recDes)},{_i(m.recAv)},{_i(m.auth)},{m.rCode},{_i(m.trunc)},"
            f"{m.maxSize},{_i(m.authenticData)},{_i(m.checkingDisabled)} " + show_sections(m))


def show_edns(m):
    v = -1 if m.ednsVersion is None else m.ednsVersion
    return (f"{m.id},{_i(m.answer)},{m.opCode},{_i(m.recDes)},{_i(m.recAv)},{_i(m.auth)},{m.rCode},{_i(m.trunc)},"
            f"{m.maxSize},{_i(m.authenticData)},{_i(m.checkingDisabled)},{v},{_i(m.dnssecOK)} " + show_sections(m))


def case_text(m):
    """canonical text of the message *described by the case* (what an independent reader should see)"""
    items = [f"q:{n}:{t}:{c}" for n, t, c in m["q"]]
    for sec in ("an", "ns", "ad"):
        for r in m[sec]:
            items.append(f"r:{r['n']}:{r['t']}:{r['c']}:{r['ttl']}:{r['pk']}:{','.join(r['v']) if r['v'] else '_'}")
    return (",".join(str(x) for x in m["hdr"]) + " "
            + " ".join([str(len(m["q"])), str(len(m["an"])), str(len(m["ns"])), str(len(m["ad"]))] + items))


# ------------------------------------------------------------------------------------------------
# the Lean driver as an independent RFC 1035 reader (`C32 rfc <hex>`), batched

_rfc_cache = {}
_rfc_pending = set()


def rfc_want(b):
    if b.hex() not in _rfc_cache:
        _rfc_pending.add(b.hex())


def rfc_read(b):
    h = b.hex()
    if h not in _rfc_cache:
        _rfc_pending.add(h)
        todo = sorted(_rfc_pending)
        _rfc_pending.clear()
        p = subprocess.run([str(DRIVER)], input="".join(f"C32 rfc {x or '-'}\n" for x in todo), capture_output=True,
                           text=True, timeout=1800)
        out = p.stdout.split("\n")
        if p.returncode != 0 or len(out) < len(todo):
            raise RuntimeError("driver failed for rfc batch: " + p.stderr[-500:])
        for x, o in zip(todo, out):
            _rfc_cache[x] = o
        if len(_rfc_cache) > 200000:
            _rfc_cache.clear()
            return rfc_read(b)
    return _rfc_cache[h]


# ------------------------------------------------------------------------------------------------
# the statement's preconditions, evaluated on the case (plain Python, independent of the Lean model)

def labels_ok(n):
    return n == b"" or all(1 <= len(l) <= 63 for l in n.split(b"."))


def has_long_label(n):
    """an unrepresentable name in the statement's sense: proper labels, at least one over 63 bytes"""
    ls = n.split(b".")
    return all(len(l) >= 1 for l in ls) and any(len(l) > 63 for l in ls)


_RANGE = {"u8": 1 << 8, "u16": 1 << 16, "u32": 1 << 32, "u48": 1 << 48}


def val_ok(kind, s):
    """(in range?, [names])"""
    try:
        v = parse_val(s)
    except Exception:
        return False, []
    if kind in _RANGE:
        return s[0] == "n" and 0 <= v < _RANGE[kind], []
    if kind == "i32":
        return s[0] == "i" and -(1 << 31) <= v < (1 << 31), []
    if kind in ("raw4", "raw16"):
        return s[0] == "b" and len(v) == int(kind[3:]), []
    if kind == "N":
        return s[0] == "b", [v]
    if kind == "s8":
        return s[0] == "b" and len(v) <= 255, []
    if kind == "s16":
        return s[0] == "b" and len(v) <= 65535, []
    if kind == "rest":
        return s[0] == "b", []
    if kind == "txt":
        return s[0] == "l" and all(len(x) <= 255 for x in v), []
    if kind == "a6":
        if s[0] != "a":
            return False, []
        p, sfx, pre = v
        ok = 0 <= p <= 128 and len(sfx) == 16 and (p != 0 or pre == b"")
        # RFC 2874: the suffix holds the low 128-p bits; the p leading bits are absent from the wire (zero here)
        ok = ok and int.from_bytes(sfx, "big") < (1 << (128 - p))
        return ok, ([pre] if p else [])
    return False, []


def rr_ok(r):
    """(well-formed in the statement's sense apart from names?, names)"""
    names = [unhx(r["n"])]
    ok = 0 <= r["t"] < 65536 and 0 <= r["c"] < 65536 and 0 <= r["ttl"] < (1 << 32)
    if r["pk"] == "-":
        return False, names
    if r["pk"] == "u":
        return ok and r["t"] not in KINDS and len(r["v"]) == 1 and r["v"][0][0] == "b" and len(unhx(r["v"][0][1:])) < 65536, names
    kinds = KINDS.get(r["t"])
    if kinds is None or len(kinds) != len(r["v"]):
        return False, names
    for k, s in zip(kinds, r["v"]):
        o, ns = val_ok(k, s)
        ok = ok and o
        names += ns
    # RDLENGTH is 16 bits: keep the RDATA comfortably inside (names add at most their own length + 2)
    ok = ok and sum(len(s) for s in r["v"]) // 2 + 600 < 65536
    return ok, names


def msg_ok(m, edns=False):
    """(in-range?, all names)"""
    h = m["hdr"]
    ok = 0 <= h[0] < 65536 and all(h[i] in (0, 1) for i in (1, 3, 4, 5, 7, 9, 10)) and 0 <= h[2] < 16
    ok = ok and 0 <= h[8]
    if edns:
        if h[11] < 0:
            ok = ok and h[12] == 0 and h[8] == 512 and 0 <= h[6] < 16
        else:
            ok = ok and h[11] < 256 and h[12] in (0, 1) and h[8] < 65536 and 0 <= h[6] < 4096
    else:
        ok = ok and 0 <= h[6] < 16
    names = []
    for n, t, c in m["q"]:
        ok = ok and 0 <= t < 65536 and 0 <= c < 65536
        names.append(unhx(n))
    for sec in ("q", "an", "ns", "ad"):
        ok = ok and len(m[sec]) < 65536
    for sec in ("an", "ns", "ad"):
        for r in m[sec]:
            o, ns = rr_ok(r)
            ok = ok and o and not (edns and r["t"] == 41)
            names += ns
    return ok, names
