"""C57 — log observers and filters: real LogPublisher / LogLevelFilterPredicate / FilteringLogObserver /
LimitedHistoryLogObserver vs the Lean model, and the property oracle on the implementation's behaviour."""
import itertools

from twisted.logger import (
    FilteringLogObserver,
    LimitedHistoryLogObserver,
    LogLevel,
    LogLevelFilterPredicate,
    LogPublisher,
    PredicateResult,
)

HEADLINE = ("TwistedProps.C57.every_observer_gets_every_event_once_in_order / failures_reported_to_others / "
            "filter_passes_iff_level_ge_most_specific_prefix / history_replays_last_N_in_order")
RULE = ("pub: 0..6 recording observers with per-call scripts (return / raise / removeObserver+addObserver of any "
        "observer incl. itself, then return or raise), constructor list + add/remove/emit histories, plus ALL "
        "configurations of <=3 observers over 6 first-call behaviours; filter: set/clear/query/event histories over "
        "namespaces built from a small segment alphabet (prefix near-misses, empty segments, leading/trailing dots, "
        "non-ASCII), all 5 levels, missing/None level and namespace, predicate lists mixing the level predicate with "
        "yes/no/maybe/invalid; hist: sizes None,0,1,2,3,5,-1 with observe/replay strings; "
        "distinct = (op, shape signature: #observers, raise nesting depth, mutation kind | set of step outcomes | size class)")
ASSUMES = [
    "observers raise Exception subclasses (BaseException propagates by design: `except Exception`)",
    "an observer object is registered at most once (addObserver guarantees it; the constructor is given distinct observers)",
    "observer code re-enters only the publisher under test through addObserver/removeObserver (it holds no reference to "
    "the private error publishers); it does not mutate the event dict",
    "events handed to the level predicate carry LogLevel constants (a foreign NamedConstant makes `<` raise TypeError)",
    "an event 'has a namespace' when log_namespace is a non-empty str: the documented behaviour (class docstring, "
    "test_filtering) is that events without a level or namespace are dropped",
    "replayTo's target observer returns normally and does not feed the same history observer",
]
TRUSTED = ["CPython list iterator / list.remove / collections.deque(maxlen) / str.split / str.join semantics as transcribed"]
MANIFEST = {
    "text": "Lean theorems (TwistedProps/C57.lean) for every observer behaviour (returning, raising, re-entering "
            "addObserver/removeObserver), every publisher state and every add/remove/emit history: each registered observer "
            "receives each event exactly once in registration order, every raise is reported exactly once to every other "
            "observer of that publisher and never to the raiser, the error recursion is bounded by the observer count; "
            "logLevelForNamespace equals the level of the longest configured dotted prefix (else the default) for all "
            "configurations and namespaces, FilteringLogObserver passes iff level >= that; a LimitedHistoryLogObserver replays "
            "exactly the last N events in order for every event stream. Model tied to twisted.logger by differential runs.",
    "note": "trusts Lean kernel, the hand-written model of _observer.py/_filter.py/_buffer.py (differentially tied), "
            "CPython list/deque/str semantics",
    "technique": "Lean 4 proof (induction over observer lists, fuel-irrelevance for the error recursion, split/join lemmas) "
                 "+ differential tie + independent oracle",
    "design_ref": "DESIGN.md §7.8 C57",
}

LV = [LogLevel.debug, LogLevel.info, LogLevel.warn, LogLevel.error, LogLevel.critical]
OK = [False, [], []]
# which model of LogPublisher.__call__ the tie runs: "publive" = live-list iteration (the code before the repair),
# "pub" = snapshot iteration (the repaired code)
MODEL_PUB = "pub"


# ------------------------------------------------------------------------------------------
# encoding

def _ids(l):
    return ",".join(str(i) for i in l)


def _act(a):
    return ("x" if a[0] else "o") + ":" + ".".join(map(str, a[1])) + ":" + ".".join(map(str, a[2]))


def _ns(t):
    return "_".join(str(ord(ch)) for ch in t) if t else "-"


def model_line(c):
    op = c["op"]
    if op in ("pub",):
        behs = ";".join((",".join(_act(a) for a in sc) or "-") for sc in c["behs"]) or "_"
        return f"{MODEL_PUB} {_ids(c['init']) or '-'} {behs} {','.join(c['ops']) or '-'}"
    if op == "filter":
        steps = []
        for s in c["steps"]:
            if s[0] == "c":
                steps.append("c")
            elif s[0] == "s":
                steps.append(f"s:{_ns(s[1])}:{s[2]}")
            elif s[0] == "q":
                steps.append(f"q:{_ns(s[1])}")
            else:
                steps.append(f"e:{'~' if s[1] is None else s[1]}:{'~' if s[2] is None else _ns(s[2])}")
        return f"filter {c['default']} {','.join(c['preds']) or '-'} {';'.join(steps)}"
    return f"hist {'N' if c['size'] is None else c['size']} {c['steps'] or '-'}"


# ------------------------------------------------------------------------------------------
# the real code

class Boom(Exception):
    def __init__(self, obs, token):
        Exception.__init__(self, obs, token)
        self.obs, self.token = obs, token


class World:
    def __init__(self, scripts):
        self.trace = []
        self.obs = [Rec(i, sc, self) for i, sc in enumerate(scripts)]
        self.pub = None

    def token(self, event):
        if "n" in event:
            return str(event["n"])
        f = event.get("log_failure")
        b = event.get("observer")
        if f is not None and isinstance(b, Rec) and isinstance(f.value, Boom) and f.value.obs == b.i:
            return f"r{b.i}({f.value.token})"
        return "?"


class Rec:
    """a recording observer with a script: what its 1st, 2nd, … call does"""

    def __init__(self, i, script, world):
        self.i, self.script, self.world, self.n = i, script, world, 0

    def __call__(self, event):
        w = self.world
        tok = w.token(event)
        w.trace.append(f"{self.i}>{tok}")
        raises, removes, adds = self.script[self.n] if self.n < len(self.script) else OK
        self.n += 1
        for r in removes:
            w.pub.removeObserver(w.obs[r])
        for a in adds:
            w.pub.addObserver(w.obs[a])
        if raises:
            raise Boom(self.i, tok)


def _registered(w):
    return [o.i for o in w.pub._observers]


def run_pub(c):
    w = World(c["behs"])
    w.pub = LogPublisher(*[w.obs[i] for i in c["init"]])
    k = 0
    for op in c["ops"]:
        if op == "e":
            w.trace.append("@" + _ids(_registered(w)))
            w.pub({"n": k})
            k += 1
        elif op[0] == "a":
            w.pub.addObserver(w.obs[int(op[1:])])
        else:
            w.pub.removeObserver(w.obs[int(op[1:])])
    return ";".join(w.trace) + "|main=" + _ids(_registered(w))


class ConstPredicate:
    def __init__(self, r):
        self.r = r

    def __call__(self, event):
        return self.r


def run_filter(c):
    pred = LogLevelFilterPredicate(defaultLogLevel=LV[c["default"]])
    consts = {"y": PredicateResult.yes, "n": PredicateResult.no, "m": PredicateResult.maybe, "i": "bogus"}
    preds = [pred if p == "L" else ConstPredicate(consts[p]) for p in c["preds"]]
    pos, neg = [], []
    obs = FilteringLogObserver(pos.append, preds, neg.append)
    style = c.get("none_style", 0)
    out = []
    for s in c["steps"]:
        if s[0] == "c":
            pred.clearLogLevels()
            out.append("ok")
        elif s[0] == "s":
            try:
                pred.setLogLevelForNamespace(s[1], LV[s[2]] if s[2] < 5 else "level%d" % s[2])
                out.append("ok")
            except Exception as e:
                out.append("!" + type(e).__name__)
        elif s[0] == "q":
            out.append(str(LV.index(pred.logLevelForNamespace(s[1]))))
        else:
            ev = {"log_format": "x"}
            if s[1] is not None:
                ev["log_level"] = LV[s[1]]
            elif style:
                ev["log_level"] = None
            if s[2] is not None:
                ev["log_namespace"] = s[2]
            elif style:
                ev["log_namespace"] = None
            direct = pred(dict(ev)).name
            del pos[:], neg[:]
            try:
                obs(ev)
                if (len(pos), len(neg)) == (1, 0) and pos[0] is ev:
                    sent = "pos"
                elif (len(pos), len(neg)) == (0, 1) and neg[0] is ev:
                    sent = "neg"
                else:
                    sent = f"?{len(pos)}/{len(neg)}"
            except TypeError:
                sent = "!TypeError"
            out.append(direct + "/" + sent)
    return ";".join(out)


def run_hist(c):
    try:
        h = LimitedHistoryLogObserver(c["size"])
    except ValueError:
        return "!raised ValueError"
    out, k = [], 0
    for ch in c["steps"]:
        if ch == "e":
            h({"n": k})
            k += 1
        else:
            got = []
            h.replayTo(got.append)
            out.append("[" + _ids(e["n"] for e in got) + "]")
    return ";".join(out) or "-"


def run_impl(c):
    return {"pub": run_pub, "filter": run_filter, "hist": run_hist}[c["op"]](c)


# ------------------------------------------------------------------------------------------
# the property, evaluated on what the implementation did (independent of the Lean model)

def _oracle_pub(c, out):
    if out.startswith("!raised"):
        return {"key": "publisher-raised", "detail": f"{model_line(c)}: {out}"}
    body, _ = out.rsplit("|main=", 1)
    scripts = c["behs"]
    ncalls = [0] * len(scripts)
    segs = []
    for ent in body.split(";") if body else []:
        if ent.startswith("@"):
            segs.append(([int(x) for x in ent[1:].split(",") if x], []))
        else:
            o, tok = ent.split(">", 1)
            o = int(o)
            act = scripts[o][ncalls[o]] if ncalls[o] < len(scripts[o]) else OK
            ncalls[o] += 1
            if not segs:
                return {"key": "delivery-without-emit", "detail": out}
            segs[-1][1].append((o, tok, act))
    if len(segs) != sum(1 for op in c["ops"] if op == "e"):
        return {"key": "segments", "detail": out}
    where = model_line(c)
    for k, (R, dels) in enumerate(segs):
        tok = str(k)
        removed_by_other, removed, added = set(), set(), set()
        for o, t, act in dels:
            removed |= set(act[1])
            removed_by_other |= {r for r in act[1] if r != o}
            added |= set(act[2])
        # (1) the event: exactly once to each registered observer, in registration order
        got = [o for o, t, _ in dels if t == tok]
        required = [o for o in R if o not in removed_by_other]
        if len(set(got)) != len(got):
            return {"key": "delivered-twice", "detail": f"{where}: event {k} delivered to {got}, registered {R}"}
        if [o for o in got if o in required] != required:
            key = "skipped-after-removal" if removed else "not-delivered-once-in-order"
            return {"key": key, "detail": f"{where}: event {k} delivered to {got}, registered {R} "
                                          f"(must reach {required} in this order)"}
        if any(o not in R and o not in added for o in got):
            return {"key": "delivered-to-unregistered", "detail": f"{where}: event {k} delivered to {got}, registered {R}"}
        # (2) failures are reported to the other observers, never to the raiser; (3) nothing else is reported
        expected_reports = set()
        for b, t, act in dels:
            if not act[0]:
                continue
            rt = f"r{b}({t})"
            expected_reports.add(rt)
            rec = [o for o, t2, _ in dels if t2 == rt]
            if b in rec:
                return {"key": "reported-to-raiser", "detail": f"{where}: {rt} delivered to {rec}"}
            if len(set(rec)) != len(rec):
                return {"key": "reported-twice", "detail": f"{where}: {rt} delivered to {rec}"}
            if t == tok:
                must = [o for o in R if o != b and o not in removed]
                if [o for o in rec if o in must] != must or any(o not in R and o not in added for o in rec):
                    return {"key": "failure-not-reported", "detail": f"{where}: {rt} delivered to {rec}, "
                                                                     f"must reach {must} (registered {R})"}
            else:
                # raised inside an error publisher: its observers are exactly the recipients of t
                must = [o for o, t2, _ in dels if t2 == t and o != b]
                if rec != must:
                    return {"key": "failure-not-reported", "detail": f"{where}: {rt} delivered to {rec}, must be {must}"}
        for o, t, _ in dels:
            if t != tok and t not in expected_reports:
                return {"key": "spurious-event", "detail": f"{where}: observer {o} received {t}"}
    return None


def _best_level(cfg, ns):
    """level of the most specific configured dotted prefix of ns, else the default"""
    cands = [k for k in cfg if k != "" and (ns == k or ns.startswith(k + "."))]
    return cfg[max(cands, key=len)] if cands else cfg[""]


def _oracle_filter(c, out):
    if out.startswith("!raised"):
        return {"key": "filter-raised", "detail": f"{model_line(c)}: {out}"}
    res = out.split(";")
    cfg = {"": c["default"]}
    for i, (s, r) in enumerate(zip(c["steps"], res)):
        where = f"{model_line(c)} step {i}"
        if s[0] == "c":
            cfg = {"": c["default"]}
        elif s[0] == "s":
            if s[2] < 5:
                cfg[s[1] or ""] = s[2]
                exp = "ok"
            else:
                exp = "!InvalidLogLevelError"
            if r != exp:
                return {"key": "set-level", "detail": f"{where}: {r} expected {exp}"}
        elif s[0] == "q":
            exp = str(_best_level(cfg, s[1]))
            if r != exp:
                return {"key": "level-for-namespace", "detail": f"{where}: namespace {s[1]!r} cfg {cfg} gave {r} expected {exp}"}
        else:
            lvl, ns = s[1], s[2]
            if lvl is None or not ns:
                want = "no"
            else:
                want = "maybe" if lvl >= _best_level(cfg, ns) else "no"
            sent = None
            for p in c["preds"]:
                a = want if p == "L" else {"y": "yes", "n": "no", "m": "maybe", "i": "invalid"}[p]
                if a == "yes":
                    sent = "pos"
                elif a == "no":
                    sent = "neg"
                elif a == "invalid":
                    sent = "!TypeError"
                if sent:
                    break
            exp = want + "/" + (sent or "pos")
            if r != exp:
                key = "filter-decision" if lvl is not None and ns else "filter-decision-no-level-or-namespace"
                return {"key": key, "detail": f"{where}: level {lvl} namespace {ns!r} cfg {cfg} preds {c['preds']} gave {r} expected {exp}"}
    return None


def _oracle_hist(c, out):
    if c["size"] is not None and c["size"] < 0:
        return None if out == "!raised ValueError" else {"key": "hist-negative-size", "detail": out}
    if out.startswith("!raised"):
        return {"key": "hist-raised", "detail": f"{model_line(c)}: {out}"}
    exp, k = [], 0
    for ch in c["steps"]:
        if ch == "e":
            k += 1
        else:
            allev = list(range(k))
            last = allev if c["size"] is None else (allev[-c["size"]:] if c["size"] > 0 else [])
            exp.append("[" + _ids(last) + "]")
    exp = ";".join(exp) or "-"
    if out != exp:
        return {"key": "history-replay", "detail": f"{model_line(c)}: replayed {out} expected {exp}"}
    return None


def oracle(c, out):
    return {"pub": _oracle_pub, "filter": _oracle_filter, "hist": _oracle_hist}[c["op"]](c, out)


# ------------------------------------------------------------------------------------------
# cases

def corpus():
    x, o = [True, [], []], [False, [], []]
    return [
        # observer 0 removes itself while being called: observer 1 must still get the event
        {"op": "pub", "init": [0, 1, 2], "behs": [[[False, [0], []]], [], []], "ops": ["e", "e"]},
        {"op": "pub", "init": [0, 1], "behs": [[[False, [0], []]], []], "ops": ["e"]},
        {"op": "pub", "init": [0, 1, 2], "behs": [[x], [o], [x]], "ops": ["e"]},
        {"op": "pub", "init": [0, 1, 2], "behs": [[x, x, x], [x, x, x], [x, x, x]], "ops": ["e", "e"]},
        {"op": "pub", "init": [2, 0], "behs": [[o], [x], [x, o]], "ops": ["e", "a1", "e", "r2", "e", "a1"]},
        {"op": "pub", "init": [0, 1], "behs": [[[True, [1], [2]]], [x], [x, x]], "ops": ["e", "e"]},
        {"op": "pub", "init": [], "behs": [], "ops": ["e"]},
        {"op": "filter", "default": 1, "preds": ["L"], "steps": [["s", "twext.web2", 0], ["s", "twext.web2.dav", 2],
            ["e", 0, "twext.web2"], ["e", 0, "twext.web2.dav"], ["e", 3, "twext.web2.dav.x"], ["e", 1, "twext.web22"],
            ["e", 4, ""], ["e", None, "twext"], ["e", 4, None], ["q", ""], ["q", "twext.web2.davx"], ["c"], ["q", "twext.web2"]]},
        {"op": "filter", "default": 3, "preds": ["L"], "steps": [["s", "a.", 0], ["s", ".a", 0], ["s", "a..b", 4],
            ["q", "a..b.c"], ["q", "a.."], ["q", "a..c"], ["q", ".a.b"], ["q", "."], ["q", "a"], ["s", "", 2], ["q", ".x"], ["s", "a", 9]]},
        {"op": "filter", "default": 1, "preds": ["m", "L", "y"], "steps": [["e", 0, "a"], ["e", 1, "a"]]},
        {"op": "filter", "default": 1, "preds": ["i"], "steps": [["e", 0, "a"]], "none_style": 1},
        {"op": "hist", "size": 5, "steps": "eeeeeeeeeer"},
        {"op": "hist", "size": 0, "steps": "eer"},
        {"op": "hist", "size": None, "steps": "reerer"},
        {"op": "hist", "size": -1, "steps": "e"},
    ]


FIRST = [[False, [], []], [True, [], []], "rs", "rsx", "an", "rn"]


def _small_exhaustive():
    """all configurations of 1..3 observers over six first-call behaviours (return, raise, remove self,
    remove self and raise, add the next observer, remove the next observer), two emits"""
    for n in (1, 2, 3):
        for combo in itertools.product(range(len(FIRST)), repeat=n):
            behs = []
            for i, b in enumerate(combo):
                f = FIRST[b]
                nxt = (i + 1) % n
                act = {"rs": [False, [i], []], "rsx": [True, [i], []], "an": [False, [], [nxt]],
                       "rn": [False, [nxt], []]}.get(f, f) if isinstance(f, str) else f
                behs.append([act])
            yield {"op": "pub", "init": list(range(n)), "behs": behs, "ops": ["e", "e"]}


SEGS = ["a", "b", "ab", "", "é", "x1", "a", "b"]


def _namespace(rng):
    return ".".join(rng.choice(SEGS) for _ in range(rng.choice([1, 1, 2, 2, 3, 3, 4, 5])))


def _gen_pub(rng):
    n = rng.choice([0, 1, 2, 2, 3, 3, 4, 5, 6])
    p_raise = rng.choice([0.0, 0.2, 0.5, 0.9, 1.0])
    mode = rng.choice(["none"] * 5 + ["self"] * 2 + ["any"] * 3)
    behs = []
    for i in range(n):
        sc = []
        for _ in range(rng.choice([0, 1, 1, 2, 3, 4, 6] if n <= 4 else [0, 1, 1, 2, 3])):
            rem, add = [], []
            if mode == "self" and rng.random() < 0.4:
                rem = [i]
            elif mode == "any" and rng.random() < 0.5:
                rem = [rng.randrange(n) for _ in range(rng.choice([0, 1, 1, 2]))]
                add = [rng.randrange(n) for _ in range(rng.choice([0, 0, 1, 2]))]
            sc.append([rng.random() < p_raise, rem, add])
        behs.append(sc)
    init = list(range(n))
    rng.shuffle(init)
    init = init[: rng.choice([n, n, n, max(0, n - 1), rng.randint(0, n)])]
    ops = []
    for _ in range(rng.choice([1, 1, 2, 3, 4, 6])):
        r = rng.random()
        if r < 0.65 or n == 0:
            ops.append("e")
        elif r < 0.85:
            ops.append(f"a{rng.randrange(n)}")
        else:
            ops.append(f"r{rng.randrange(n)}")
    return {"op": "pub", "init": init, "behs": behs, "ops": ops}


def _gen_filter(rng):
    pool = [_namespace(rng) for _ in range(3)]
    def near(ns):
        parts = ns.split(".")
        r = rng.random()
        if r < 0.45:
            return ".".join(parts[: rng.randint(1, len(parts))])
        if r < 0.6:
            return ns + rng.choice(["x", ".", ".a", "a"])
        if r < 0.7:
            return ns[: rng.randint(0, len(ns))]
        if r < 0.8:
            return "." + ns
        return _namespace(rng)
    steps = []
    for _ in range(rng.choice([2, 4, 6, 9, 12])):
        r = rng.random()
        ns = rng.choice(pool)
        if r < 0.35:
            steps.append(["s", rng.choice([near(ns), near(ns), ""]), rng.choice([0, 1, 2, 3, 4, 0, 4, 7])])
        elif r < 0.4:
            steps.append(["c"])
        elif r < 0.6:
            steps.append(["q", rng.choice([ns, near(ns), ""])])
        else:
            steps.append(["e", rng.choice([0, 1, 2, 3, 4, 0, 2, 4, None]), rng.choice([ns, ns, ns, near(ns), "", None])])
    preds = rng.choice([["L"]] * 6 + [[], ["m", "L"], ["L", "n"], ["L", "y"], ["y", "L"], ["n", "L"], ["L", "i"], ["i", "L"],
                                       ["m", "m", "L", "m"]])
    return {"op": "filter", "default": rng.randrange(5), "preds": preds, "steps": steps, "none_style": rng.randrange(2)}


def _gen_hist(rng):
    size = rng.choice([None, 0, 1, 2, 3, 5, -1, 2, 3])
    steps = "".join(rng.choice("eeer") for _ in range(rng.choice([0, 1, 3, 6, 9, 14]))) + rng.choice(["", "r"])
    return {"op": "hist", "size": size, "steps": steps}


def generate(rng, tier):
    yield from _small_exhaustive()
    n = 2200 if tier == "quick" else 60000
    for _ in range(n):
        r = rng.random()
        if r < 0.5:
            yield _gen_pub(rng)
        elif r < 0.9:
            yield _gen_filter(rng)
        else:
            yield _gen_hist(rng)


def search(rng, tier, disagreeing):
    """property-directed: every single-act perturbation of the disagreeing publisher cases + a deeper random run"""
    for c in disagreeing:
        if c.get("op") != "pub":
            continue
        n = len(c["behs"])
        for i in range(n):
            for act in ([False, [i], []], [True, [i], []], [True, [], []], [False, [], []]):
                d = dict(c)
                d["behs"] = [list(sc) for sc in c["behs"]]
                d["behs"][i] = [act] + d["behs"][i][1:]
                yield d
    for _ in range(3000 if tier == "quick" else 20000):
        yield _gen_pub(rng)


def shrink(c):
    if c["op"] == "pub":
        ops, behs = c["ops"], c["behs"]
        for i in range(len(ops)):
            yield dict(c, ops=ops[:i] + ops[i + 1:])
        for i, sc in enumerate(behs):
            for j in range(len(sc)):
                yield dict(c, behs=behs[:i] + [sc[:j] + sc[j + 1:]] + behs[i + 1:])
                a = sc[j]
                for simpler in ([a[0], [], a[2]], [a[0], a[1], []], [False, a[1], a[2]], [a[0], a[1][1:], a[2]]):
                    if simpler != a:
                        yield dict(c, behs=behs[:i] + [sc[:j] + [simpler] + sc[j + 1:]] + behs[i + 1:])
        for i in range(len(c["init"])):
            yield dict(c, init=c["init"][:i] + c["init"][i + 1:])
    elif c["op"] == "filter":
        st = c["steps"]
        for i in range(len(st)):
            yield dict(c, steps=st[:i] + st[i + 1:])
        for i in range(len(c["preds"])):
            yield dict(c, preds=c["preds"][:i] + c["preds"][i + 1:])
    else:
        s = c["steps"]
        for i in range(len(s)):
            yield dict(c, steps=s[:i] + s[i + 1:])


def tag(c, out):
    if c["op"] == "pub":
        depth = 0
        for ent in out.split("|")[0].split(";"):
            depth = max(depth, ent.count("("))
        acts = [a for sc in c["behs"] for a in sc]
        mut = ("self" if any(a[1] for a in acts) else "") + ("add" if any(a[2] for a in acts) else "")
        return f"pub:n{len(c['behs'])}:depth{min(depth, 5)}:{mut or 'plain'}:ops{''.join(sorted(set(o[0] for o in c['ops'])))}"
    if c["op"] == "filter":
        return "filter:" + ",".join(sorted(set(out.split(";"))))[:80] + ":" + "".join(c["preds"])
    size = c["size"]
    ne = c["steps"].count("e")
    cls = "N" if size is None else "neg" if size < 0 else "0" if size == 0 else ("lt" if ne < size else "eq" if ne == size else "gt")
    return f"hist:{cls}:{'r' if 'r' in c['steps'] else 'nor'}"
