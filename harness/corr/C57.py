"""C57 — log observers and filters: real LogPublisher / LogLevelFilterPredicate / FilteringLogObserver /
LimitedHistoryLogObserver vs the Lean model, and the property oracle on the implementation's behaviour."""
import itertools

from constantly import NamedConstant, Names

from twisted.logger import (
    FilteringLogObserver,
    LimitedHistoryLogObserver,
    LogLevel,
    LogLevelFilterPredicate,
    LogPublisher,
    PredicateResult,
)

HEADLINE = ("TwistedProps.C57.every_observer_gets_every_event_once_in_order / reentrant_publish_once_in_order / "
            "failures_reported_to_others / filter_passes_iff_level_ge_most_specific_prefix / history_replays_last_N_in_order / "
            "history_replays_last_N_reentrant")
RULE = ("pub: 0..6 recording observers with per-call scripts: a command list over removeObserver(x) / addObserver(x) of any "
        "observer incl. itself / `p` = publish a fresh event through the SAME publisher (re-entrant publish; the nested "
        "delivery runs the same scripts, to any depth), in any order, then return or raise — also when called by an error "
        "publisher with a failure report; constructor list + add/remove/emit histories; plus ALL configurations of <=3 "
        "observers over 12 first-call behaviours (8 for n=3 in the quick tier; thorough adds 4 observers over 6) incl. "
        "publish, publish-then-remove-self, remove-self-then-publish, publish-and-raise, publish-then-add/remove-next; "
        "in ~55% of the random publisher cases some or all observers are handed to the API as BOUND METHODS (a new, equal "
        "method object at every addObserver/removeObserver/constructor use), in ~55% the raising observers raise one of 19 "
        "other Exception classes (KeyError, StopIteration, MemoryError, RecursionError, AssertionError, OSError, Warning, "
        "CancelledError, one whose str/repr raise, one equal to everything, multiple inheritance, …); ~8% of all cases are "
        "LONG histories: 9..40 events with one or two observers that raise at every call for ever (script default `~x:`); "
        "filter: set/clear/query/event histories over "
        "namespaces built from a segment alphabet (prefix near-misses, empty segments, leading/trailing dots, "
        "non-ASCII, upper/lower-case twins, white space, trailing/embedded newlines, regular-expression metacharacters; "
        "15% of the cases use namespaces 9..19 segments deep, configured at depths near the end), all 5 levels and 9 "
        "things that are not levels (None, int, str, the LogLevel class, constants of other containers incl. ones named like "
        "a level), missing/None level and namespace, predicate lists mixing the level predicate with "
        "yes/no/maybe/invalid, handed to FilteringLogObserver as list / tuple / one-shot iterator / generator; "
        "hist: sizes None,0,1,2,3,5,-1 with strings over observe / replay / observe the newest event AGAIN (same object or "
        "an equal copy) / replayTo(self), the observer replayed to optionally "
        "logging 0..3 events back into the history observer at its i-th call (re-entrant); "
        "distinct = (op, shape signature: #observers, raise nesting depth, mutation kind, re-entrant publish nesting depth, "
        "registration change after a nested publish, how observers are handed over, exception class, long history | set of "
        "step outcomes, predicate container, odd/deep namespaces | size class, repeated events / self replay)")
ASSUMES = [
    "observers raise Exception subclasses — ANY of them (the model's `raises` flag abstracts the class; the tie runs 20 "
    "classes) — BaseException propagates by design: `except Exception`",
    "observers are compared the way the publisher's API compares them (`in` / list.remove: identity or equality): the bound "
    "methods `obj.m` of one object are ONE observer; an observer is registered at most once (addObserver guarantees it; the "
    "constructor is given distinct observers); the oracle judges 'registered' from the history of constructor / addObserver / "
    "removeObserver calls, not from the publisher's private list",
    "an observer that raises at every call for ever (the long histories) does not also publish at every call",
    "observer code re-enters only the publisher under test — through addObserver/removeObserver and by calling it with a "
    "NEW event (it holds no reference to the private error publishers; it does not publish the event it is handling "
    "again); it does not mutate the event dict",
    "re-entrant publishing is well-founded (an observer does not publish on every event it sees for ever): the model "
    "bounds the nesting by a fuel the driver sets above the number of publish commands in the scripts and reports "
    "`!overflow` if it is ever hit; every theorem holds for every fuel, and a run that does not hit the bound is "
    "proved independent of it (run_fuel_irrelevant, overflow_sticky)",
    "events handed to the level predicate carry LogLevel constants (a foreign NamedConstant makes `<` raise TypeError)",
    "an event 'has a namespace' when log_namespace is a non-empty str: the documented behaviour (class docstring, "
    "test_filtering) is that events without a level or namespace are dropped",
    "replayTo's target observer returns normally (it may log to the same history observer meanwhile, and it may BE the "
    "history observer); an event logged twice (the same dict or an equal one) is two events",
    "FilteringLogObserver is given its predicates as any Iterable (the model's predicate list is the constructor's copy)",
]
TRUSTED = ["CPython list iterator / list.remove / collections.deque(maxlen) / str.split / str.join semantics as transcribed"]
MANIFEST = {
    "text": "Lean theorems (TwistedProps/C57.lean) for every observer behaviour (returning, raising, re-entering "
            "addObserver/removeObserver AND publishing further events through the same publisher while being called, in any "
            "order, to any depth), every publisher state and every add/remove/emit history: each call of the publisher — by the "
            "application or re-entrantly by an observer — hands its event to each observer registered when that call started "
            "exactly once, in registration order, undisturbed by the nested calls; every raise is reported exactly once to "
            "every other observer of that publisher and never to the raiser, the error recursion is bounded by the observer "
            "count; logLevelForNamespace equals the level of the longest configured dotted prefix (else the default) for all "
            "configurations and namespaces, FilteringLogObserver passes iff level >= that; a LimitedHistoryLogObserver replays "
            "exactly the last N events in order for every event stream (repeated events included), also when the observer replayed to logs to it meanwhile "
            "or is the history observer itself (history_replay_to_self*). Model tied to twisted.logger by differential runs, which also vary what the "
            "model abstracts: how observers are handed over (objects / bound methods), the Exception class raised, the predicate container "
            "(list / one-shot iterator), what is passed as a non-level.",
    "note": "trusts Lean kernel, the hand-written model of _observer.py/_filter.py/_buffer.py (differentially tied), "
            "CPython list/deque/str semantics; re-entrant publishing is modelled with a nesting bound (theorems hold for "
            "every bound; a run that does not hit it is proved independent of it)",
    "technique": "Lean 4 proof (induction over observer lists and over the re-entrancy depth against an abstract "
                 "specification of the nested call, projection of the trace onto the deliveries of one call, fuel-irrelevance "
                 "for the error recursion, split/join lemmas) + differential tie + independent oracle",
    "design_ref": "DESIGN.md §7.8 C57",
}

LV = [LogLevel.debug, LogLevel.info, LogLevel.warn, LogLevel.error, LogLevel.critical]
OK = [False, [], []]
# which model of LogPublisher.__call__ the tie runs: "publive" = live-list iteration (the code before the repair),
# "pub" = snapshot iteration (the repaired code)
MODEL_PUB = "pub"


# ------------------------------------------------------------------------------------------
# encoding

def _ids(l):
    return ",".join(str(i) for i in l)


def _norm(a):
    """an act is [raises, cmds] with cmds over "r<id>" (removeObserver), "a<id>" (addObserver), "p" (publish a
    fresh event through the publisher under test: re-entrant publish); the older form [raises, removes, adds]
    (removes first, then adds) is still accepted"""
    if len(a) == 3:
        return [bool(a[0]), [f"r{r}" for r in a[1]] + [f"a{x}" for x in a[2]]]
    return [bool(a[0]), list(a[1])]


def _act(a):
    a = _norm(a)
    return ("x" if a[0] else "o") + ":" + ".".join(a[1])


def _ns(t):
    return "_".join(str(ord(ch)) for ch in t) if t else "-"


def model_line(c):
    op = c["op"]
    if op in ("pub",):
        dflt = c.get("dflt") or []
        behs = ";".join((",".join(_act(a) for a in sc) or "-") + ("~x:" if i < len(dflt) and dflt[i] else "")
                        for i, sc in enumerate(c["behs"])) or "_"
        return f"{MODEL_PUB} {_ids(c['init']) or '-'} {behs} {','.join(c['ops']) or '-'}"
    if op == "filter":
        steps = []
        for s in c["steps"]:
            if s[0] == "c":
                steps.append("c")
            elif s[0] == "s":
                steps.append(f"s:{_ns(s[1])}:{s[2]}")
            elif s[0] == "q":
                steps.append(f"q:{_ns(s[1])}")
            else:
                steps.append(f"e:{'~' if s[1] is None else s[1]}:{'~' if s[2] is None else _ns(s[2])}")
        return f"filter {c['default']} {','.join(c['preds']) or '-'} {';'.join(steps)}"
    feed = c.get("feed") or []
    return f"hist {'N' if c['size'] is None else c['size']} {c['steps'] or '-'}" + (f" {_ids(feed)}" if feed else "")


# ------------------------------------------------------------------------------------------
# the real code

class Boom(Exception):
    def __init__(self, obs, token):
        Exception.__init__(self, obs, token)
        self.obs, self.token = obs, token


class Grumpy(Exception):
    """an exception that cannot be rendered"""

    def __str__(self):
        raise RuntimeError("no str")

    __repr__ = __str__


class Chameleon(Exception):
    """an exception equal to everything"""

    def __eq__(self, other):
        return True

    def __hash__(self):
        return 0


class LegacyError(KeyError, RuntimeError):
    pass


def _cancelled():
    from twisted.internet.defer import CancelledError
    return CancelledError()


# what a raising observer raises: Exception subclasses of every flavour (the statement: "even when some observers
# raise"); index 0 is the plain application exception
EXC = [
    None, KeyError, StopIteration, MemoryError, RecursionError, AssertionError, OSError, SystemError,
    StopAsyncIteration, Grumpy, Chameleon, DeprecationWarning, ZeroDivisionError, UnicodeError, LegacyError,
    NotImplementedError, _cancelled, ConnectionResetError, TimeoutError, BufferError,
]


def _make_exc(kind, obs, token):
    cls = EXC[kind % len(EXC)]
    e = Boom(obs, token) if cls is None else cls()
    e._c57 = (obs, token)
    return e


def _oid(o):
    """the id of a registered observer: a Rec, or a bound method of one"""
    return o.i if isinstance(o, Rec) else o.__self__.i


class World:
    def __init__(self, scripts, dflt=(), kinds=(), exc=()):
        self.trace = []
        self.obs = [Rec(i, [_norm(a) for a in sc], self) for i, sc in enumerate(scripts)]
        for i, o in enumerate(self.obs):
            o.dflt = bool(dflt[i]) if i < len(dflt) else False
            o.exc = exc[i] if i < len(exc) else 0
        self.kinds = list(kinds)
        self.pub = None
        self.nsub = 0
        self.lt = False

    def handle(self, i):
        """what the application / an observer hands to the publisher API for observer i: the callable object itself,
        or (kind 1) its bound method `observe` — a NEW method object at every use, equal to the earlier ones"""
        if i < len(self.kinds) and self.kinds[i] == 1:
            return self.obs[i].observe
        return self.obs[i]

    def event(self, key, k):
        # with `lt` the events carry a "log_trace" list: LogPublisher.__call__ then takes its tracing branch
        return {key: k, "log_trace": []} if self.lt else {key: k}

    def token(self, event):
        if "n" in event:
            return str(event["n"])
        if "s" in event:
            return f"s{event['s']}"
        f = event.get("log_failure")
        b = event.get("observer")
        try:
            bi = _oid(b)
        except AttributeError:
            return "?"
        mark = getattr(f.value, "_c57", None) if f is not None else None
        if mark is not None and mark[0] == bi:
            return f"r{bi}({mark[1]})"
        return "?"


class Rec:
    """a recording observer with a script: what its 1st, 2nd, … call does"""

    def __init__(self, i, script, world):
        self.i, self.script, self.world, self.n = i, script, world, 0

    def __call__(self, event):
        w = self.world
        tok = w.token(event)
        w.trace.append(f"{self.i}>{tok}")
        raises, cmds = self.script[self.n] if self.n < len(self.script) else (self.dflt, [])
        self.n += 1
        for cmd in cmds:
            if cmd == "p":
                # re-entrant publish of a fresh event through the publisher that is calling us; the bracket
                # entries are bookkeeping for the oracle only (compare() drops them)
                j = w.nsub
                w.nsub += 1
                w.trace.append(f"[s{j}@{_ids(_registered(w))}")
                w.pub(w.event("s", j))
                w.trace.append(f"]s{j}")
            elif cmd[0] == "r":
                w.pub.removeObserver(w.handle(int(cmd[1:])))
            else:
                w.pub.addObserver(w.handle(int(cmd[1:])))
        if raises:
            raise _make_exc(self.exc, self.i, tok)

    def observe(self, event):
        return self(event)


def _registered(w):
    return [_oid(o) for o in w.pub._observers]


def run_pub(c):
    w = World(c["behs"], c.get("dflt") or (), c.get("kinds") or (), c.get("exc") or ())
    w.lt = bool(c.get("lt"))
    w.pub = LogPublisher(*[w.handle(i) for i in c["init"]])
    k = 0
    for op in c["ops"]:
        if op == "e":
            w.trace.append("@" + _ids(_registered(w)))
            w.pub(w.event("n", k))
            k += 1
        elif op[0] == "a":
            w.pub.addObserver(w.handle(int(op[1:])))
        else:
            w.pub.removeObserver(w.handle(int(op[1:])))
    return ";".join(w.trace) + "|main=" + _ids(_registered(w))


def compare(c, impl_out, model_out):
    if c["op"] == "pub" and "|main=" in impl_out:
        body, main = impl_out.rsplit("|main=", 1)
        impl_out = ";".join(e for e in body.split(";") if e[:1] not in ("[", "]")) + "|main=" + main
    return impl_out == model_out


class OtherLevels(Names):
    """constants of a foreign container, named like log levels"""
    info = NamedConstant()
    critical = NamedConstant()


def _level_arg(k):
    """the `level` argument of setLogLevelForNamespace for code k: 0..4 the LogLevel constants, >= 5 things that
    are not log levels (strings, None, ints, NamedConstants of other containers — also ones named like a level)"""
    if k < 5:
        return LV[k]
    return {5: None, 6: 1, 8: PredicateResult.maybe, 10: OtherLevels.info, 11: "info", 12: OtherLevels.critical,
            13: LogLevel}.get(k, "level%d" % k)


class ConstPredicate:
    def __init__(self, r):
        self.r = r

    def __call__(self, event):
        return self.r


def run_filter(c):
    pred = LogLevelFilterPredicate(defaultLogLevel=LV[c["default"]])
    consts = {"y": PredicateResult.yes, "n": PredicateResult.no, "m": PredicateResult.maybe, "i": "bogus"}
    preds = [pred if p == "L" else ConstPredicate(consts[p]) for p in c["preds"]]
    pos, neg = [], []
    # the predicates are handed over as any Iterable: a list, a tuple, or a one-shot iterator / generator
    pk = c.get("pk", 0)
    handed = preds if pk == 0 else tuple(preds) if pk == 1 else iter(preds) if pk == 2 else (p for p in preds)
    obs = FilteringLogObserver(pos.append, handed, neg.append)
    style = c.get("none_style", 0)
    out = []
    for s in c["steps"]:
        if s[0] == "c":
            pred.clearLogLevels()
            out.append("ok")
        elif s[0] == "s":
            try:
                pred.setLogLevelForNamespace(s[1], _level_arg(s[2]))
                out.append("ok")
            except Exception as e:
                out.append("!" + type(e).__name__)
        elif s[0] == "q":
            out.append(str(LV.index(pred.logLevelForNamespace(s[1]))))
        else:
            ev = {"log_format": "x"}
            if c.get("lt"):
                ev["log_trace"] = []
            if s[1] is not None:
                ev["log_level"] = LV[s[1]]
            elif style:
                ev["log_level"] = None
            if s[2] is not None:
                ev["log_namespace"] = s[2]
            elif style:
                ev["log_namespace"] = None
            direct = pred(dict(ev)).name
            del pos[:], neg[:]
            try:
                obs(ev)
                if (len(pos), len(neg)) == (1, 0) and pos[0] is ev:
                    sent = "pos"
                elif (len(pos), len(neg)) == (0, 1) and neg[0] is ev:
                    sent = "neg"
                else:
                    sent = f"?{len(pos)}/{len(neg)}"
            except TypeError:
                sent = "!TypeError"
            out.append(direct + "/" + sent)
    return ";".join(out)


def run_hist(c):
    try:
        h = LimitedHistoryLogObserver(c["size"])
    except ValueError:
        return "!raised ValueError"
    feed = c.get("feed") or []
    out, k = [], [0]
    last = [None]           # the newest event object (created by the application or by the target observer)

    def fresh():
        last[0] = {"n": k[0]}
        k[0] += 1
        return last[0]

    for ch in c["steps"]:
        if ch == "e" or (ch in "dc" and last[0] is None):
            h(fresh())
        elif ch == "d":
            h(last[0])                  # the same event object once more
        elif ch == "c":
            h(dict(last[0]))            # an equal event
        elif ch == "s":
            h.replayTo(h)               # the history observer replayed to itself
        else:
            got = []

            def target(ev):
                # the observer replayed to logs to the history observer itself (re-entrant): feed[i] events at its i-th call
                got.append(ev)
                i = len(got) - 1
                for _ in range(feed[i] if i < len(feed) else 0):
                    h(fresh())

            try:
                h.replayTo(target)
                out.append("[" + _ids(e["n"] for e in got) + "]")
            except Exception as e:
                out.append("[" + _ids(e["n"] for e in got) + "]!" + type(e).__name__)
    return ";".join(out) or "-"


def run_impl(c):
    return {"pub": run_pub, "filter": run_filter, "hist": run_hist}[c["op"]](c)


# ------------------------------------------------------------------------------------------
# the property, evaluated on what the implementation did (independent of the Lean model)

class _Publish:
    """one call of the publisher under test: by the application (`@`) or by an observer (`[s<j>@ … ]s<j>`)"""

    def __init__(self, tok, R, start, parent):
        self.tok, self.R, self.start, self.end, self.parent = tok, R, start, None, parent
        self.removed, self.removed_by_other, self.added = set(), set(), set()


def _root(tok):
    while tok.startswith("r") and "(" in tok:
        tok = tok[tok.index("(") + 1:-1]
    return tok


def _oracle_pub(c, out):
    """Judged from the statement: EVERY call of the publisher — by the application or by an observer that is itself
    being called (re-entrant) — delivers its event exactly once to each observer registered when the call started,
    in registration order, during that call; every raise is reported to the other observers, never to the raiser."""
    if out.startswith("!raised"):
        return {"key": "publisher-raised", "detail": f"{model_line(c)}: {out}"}
    body, _ = out.rsplit("|main=", 1)
    scripts = [[_norm(a) for a in sc] for sc in c["behs"]]
    dflt = c.get("dflt") or []
    ncalls = [0] * len(scripts)
    pubs, dels, stack, ntop = {}, [], [], 0
    entries = body.split(";") if body else []
    # "registered" is judged from the history of the publisher's API — constructor arguments, addObserver /
    # removeObserver calls of the application and of the observers, in the order they happened — not from the
    # publisher's private list (the ids in the @ / [ markers are only what the tie compares)
    reg = list(c["init"])
    top_ops = list(c["ops"])
    pending = []            # per open nested publish: the commands its caller still runs once it returns
    opening = [False]       # the last command run was `p`: the next entry must open that nested publish

    def run_cmds(cmds):
        for i, cmd in enumerate(cmds):
            if cmd == "p":
                pending.append(cmds[i + 1:])
                opening[0] = True
                return
            k = int(cmd[1:])
            if cmd[0] == "a":
                if k not in reg:
                    reg.append(k)
            elif k in reg:
                reg.remove(k)

    for idx, ent in enumerate(entries):
        if ent.startswith("@"):
            if len(stack) > 1 or opening[0] or pending:
                return {"key": "markers", "detail": out}
            if stack:
                stack[0].end = idx
            while top_ops and top_ops[0] != "e":
                run_cmds([top_ops.pop(0)])
            if not top_ops:
                return {"key": "segments", "detail": out}
            top_ops.pop(0)
            P = _Publish(str(ntop), list(reg), idx, None)
            ntop += 1
            stack = [P]
            pubs[P.tok] = P
        elif ent.startswith("["):
            tok, ids = ent[1:].split("@", 1)
            if not stack or tok in pubs or not opening[0]:
                return {"key": "markers", "detail": out}
            opening[0] = False
            P = _Publish(tok, list(reg), idx, stack[-1])
            stack.append(P)
            pubs[tok] = P
        elif ent.startswith("]"):
            if len(stack) < 2 or stack[-1].tok != ent[1:] or opening[0] or not pending:
                return {"key": "markers", "detail": out}
            stack.pop().end = idx
            run_cmds(pending.pop())
        else:
            o, tok = ent.split(">", 1)
            o = int(o)
            act = scripts[o][ncalls[o]] if ncalls[o] < len(scripts[o]) else [bool(dflt[o]) if o < len(dflt) else False, []]
            ncalls[o] += 1
            if not stack:
                return {"key": "delivery-without-emit", "detail": out}
            if opening[0]:
                return {"key": "markers", "detail": out}
            dels.append((o, tok, act, idx))
            run_cmds(act[1])
            for P in stack:
                for cmd in act[1]:
                    if cmd[0] == "r":
                        P.removed.add(int(cmd[1:]))
                        if int(cmd[1:]) != o:
                            P.removed_by_other.add(int(cmd[1:]))
                    elif cmd[0] == "a":
                        P.added.add(int(cmd[1:]))
    if len(stack) > 1 or opening[0] or pending:
        return {"key": "markers", "detail": out}
    for P in pubs.values():
        if P.end is None:
            P.end = len(entries)
    if ntop != sum(1 for op in c["ops"] if op == "e"):
        return {"key": "segments", "detail": out}
    where = model_line(c)
    by_tok = {}
    for o, t, act, idx in dels:
        by_tok.setdefault(t, []).append((o, idx))
    # (1) each published event: exactly once to each registered observer, in registration order, during that call
    for tok, P in pubs.items():
        R = P.R
        kind = "event" if P.parent is None else "re-entrantly published event"
        got = [o for o, _ in by_tok.get(tok, [])]
        if any(not (P.start < idx < P.end) for _, idx in by_tok.get(tok, [])):
            return {"key": "delivered-outside-publish", "detail": f"{where}: {kind} {tok} delivered to {got}, registered {R}"}
        required = [o for o in R if o not in P.removed_by_other]
        if len(set(got)) != len(got):
            return {"key": "delivered-twice", "detail": f"{where}: {kind} {tok} delivered to {got}, registered {R}"}
        if [o for o in got if o in required] != required:
            key = "skipped-after-removal" if P.removed else "not-delivered-once-in-order"
            return {"key": key, "detail": f"{where}: {kind} {tok} delivered to {got}, registered {R} "
                                          f"(must reach {required} in this order)"}
        if any(o not in R and o not in P.added for o in got):
            return {"key": "delivered-to-unregistered", "detail": f"{where}: {kind} {tok} delivered to {got}, registered {R}"}
    # (2) failures are reported to the other observers, never to the raiser; (3) nothing else is delivered
    expected_reports = set()
    for b, t, act, idx in dels:
        if not act[0]:
            continue
        rt = f"r{b}({t})"
        expected_reports.add(rt)
        rec = [o for o, _ in by_tok.get(rt, [])]
        P = pubs.get(_root(t))
        if b in rec:
            return {"key": "reported-to-raiser", "detail": f"{where}: {rt} delivered to {rec}"}
        if len(set(rec)) != len(rec):
            return {"key": "reported-twice", "detail": f"{where}: {rt} delivered to {rec}"}
        if P is not None and any(not (P.start < i < P.end) for _, i in by_tok.get(rt, [])):
            return {"key": "reported-outside-publish", "detail": f"{where}: {rt} delivered to {rec}"}
        if t in pubs:
            P = pubs[t]
            must = [o for o in P.R if o != b and o not in P.removed]
            if [o for o in rec if o in must] != must or any(o not in P.R and o not in P.added for o in rec):
                return {"key": "failure-not-reported", "detail": f"{where}: {rt} delivered to {rec}, "
                                                                 f"must reach {must} (registered {P.R})"}
        else:
            # raised inside an error publisher: its observers are exactly the recipients of t
            must = [o for o, _ in by_tok.get(t, []) if o != b]
            if rec != must:
                return {"key": "failure-not-reported", "detail": f"{where}: {rt} delivered to {rec}, must be {must}"}
    for o, t, _, _ in dels:
        if t not in pubs and t not in expected_reports:
            return {"key": "spurious-event", "detail": f"{where}: observer {o} received {t}"}
    return None


def _best_level(cfg, ns):
    """level of the most specific configured dotted prefix of ns, else the default"""
    cands = [k for k in cfg if k != "" and (ns == k or ns.startswith(k + "."))]
    return cfg[max(cands, key=len)] if cands else cfg[""]


def _oracle_filter(c, out):
    if out.startswith("!raised"):
        return {"key": "filter-raised", "detail": f"{model_line(c)}: {out}"}
    res = out.split(";")
    cfg = {"": c["default"]}
    for i, (s, r) in enumerate(zip(c["steps"], res)):
        where = f"{model_line(c)} step {i}"
        if s[0] == "c":
            cfg = {"": c["default"]}
        elif s[0] == "s":
            if s[2] < 5:
                cfg[s[1] or ""] = s[2]
                exp = "ok"
            else:
                exp = "!InvalidLogLevelError"
            if r != exp:
                return {"key": "set-level", "detail": f"{where}: {r} expected {exp}"}
        elif s[0] == "q":
            exp = str(_best_level(cfg, s[1]))
            if r != exp:
                return {"key": "level-for-namespace", "detail": f"{where}: namespace {s[1]!r} cfg {cfg} gave {r} expected {exp}"}
        else:
            lvl, ns = s[1], s[2]
            if lvl is None or not ns:
                want = "no"
            else:
                want = "maybe" if lvl >= _best_level(cfg, ns) else "no"
            sent = None
            for p in c["preds"]:
                a = want if p == "L" else {"y": "yes", "n": "no", "m": "maybe", "i": "invalid"}[p]
                if a == "yes":
                    sent = "pos"
                elif a == "no":
                    sent = "neg"
                elif a == "invalid":
                    sent = "!TypeError"
                if sent:
                    break
            exp = want + "/" + (sent or "pos")
            if r != exp:
                key = "filter-decision" if lvl is not None and ns else "filter-decision-no-level-or-namespace"
                return {"key": key, "detail": f"{where}: level {lvl} namespace {ns!r} cfg {cfg} preds {c['preds']} gave {r} expected {exp}"}
    return None


def _oracle_hist(c, out):
    """replayTo hands over exactly the last N events observed before the call, in order — also when the observer
    replayed to logs to the history observer meanwhile; what it logs is history for the next replay"""
    if c["size"] is not None and c["size"] < 0:
        return None if out == "!raised ValueError" else {"key": "hist-negative-size", "detail": out}
    if out.startswith("!raised"):
        return {"key": "hist-raised", "detail": f"{model_line(c)}: {out}"}
    feed = c.get("feed") or []
    exp, k, allev = [], 0, []
    window = lambda: list(allev) if c["size"] is None else (allev[-c["size"]:] if c["size"] > 0 else [])
    for ch in c["steps"]:
        if ch == "e" or (ch in "dc" and k == 0):
            allev.append(k)
            k += 1
        elif ch in "dc":
            allev.append(k - 1)         # logged again: one more event (the same object, or an equal one)
        elif ch == "s":
            allev.extend(window())      # the history observer is itself handed the last N events, which it observes
        else:
            last = list(allev) if c["size"] is None else (allev[-c["size"]:] if c["size"] > 0 else [])
            exp.append("[" + _ids(last) + "]")
            for i in range(len(last)):
                for _ in range(feed[i] if i < len(feed) else 0):
                    allev.append(k)
                    k += 1
    exp = ";".join(exp) or "-"
    if out != exp:
        key = "history-replay-reentrant" if "!" in out else "history-replay"
        return {"key": key, "detail": f"{model_line(c)}: replayed {out} expected {exp}"}
    return None


def oracle(c, out):
    return {"pub": _oracle_pub, "filter": _oracle_filter, "hist": _oracle_hist}[c["op"]](c, out)


# ------------------------------------------------------------------------------------------
# cases

def corpus():
    x, o = [True, [], []], [False, [], []]
    return [
        # observer 0 removes itself while being called: observer 1 must still get the event
        {"op": "pub", "init": [0, 1, 2], "behs": [[[False, [0], []]], [], []], "ops": ["e", "e"]},
        {"op": "pub", "init": [0, 1], "behs": [[[False, [0], []]], []], "ops": ["e"]},
        {"op": "pub", "init": [0, 1, 2], "behs": [[x], [o], [x]], "ops": ["e"]},
        {"op": "pub", "init": [0, 1, 2], "behs": [[x, x, x], [x, x, x], [x, x, x]], "ops": ["e", "e"]},
        {"op": "pub", "init": [2, 0], "behs": [[o], [x], [x, o]], "ops": ["e", "a1", "e", "r2", "e", "a1"]},
        {"op": "pub", "init": [0, 1], "behs": [[[True, [1], [2]]], [x], [x, x]], "ops": ["e", "e"]},
        {"op": "pub", "init": [], "behs": [], "ops": ["e"]},
        # re-entrant publishing: an observer publishes another event through the same publisher while it is called.
        # (a) observers first, chatty (publishes), oneShot (removes itself), last — the one-shot observer unregisters
        #     AFTER the nested publish has returned, still during the outer delivery: `last` must get the outer event
        {"op": "pub", "init": [0, 1, 2, 3], "behs": [[], [[False, []], [False, ["p"]]], [[False, []], [False, []], [False, ["r2"]]], []],
         "ops": ["e", "e", "e"]},
        # (b) the same observer publishes and then removes itself / adds another / removes an earlier one
        {"op": "pub", "init": [0, 1], "behs": [[[False, ["p", "r0"]]], []], "ops": ["e", "e"]},
        {"op": "pub", "init": [0, 1], "behs": [[[False, ["p", "a2"]]], [], []], "ops": ["e", "e"]},
        {"op": "pub", "init": [0, 1, 2], "behs": [[], [[False, ["p", "r0"]]], []], "ops": ["e", "e"]},
        {"op": "pub", "init": [0, 1, 2], "behs": [[[False, ["r0", "p"]]], [], []], "ops": ["e", "e"]},
        # (c) removal during the nested delivery itself; nested publish two levels deep, then removal at each level
        {"op": "pub", "init": [0, 1, 2], "behs": [[[False, ["p"]]], [[False, []], [False, ["r1"]]], []], "ops": ["e", "e"]},
        {"op": "pub", "init": [0, 1, 2], "behs": [[[False, ["p", "r0"]], [False, ["p", "a0"]]], [[False, ["r1"]]], []], "ops": ["e", "e"]},
        # (d) raising after a nested publish; publishing from a failure report (observer called by an error publisher)
        #     and unregistering afterwards; every observer publishes and raises
        {"op": "pub", "init": [0, 1, 2], "behs": [[[True, ["p", "r0"]]], [], [[True, []]]], "ops": ["e", "e"]},
        {"op": "pub", "init": [0, 1, 2], "behs": [[[True, []]], [[False, []], [False, ["p", "r1"]]], []], "ops": ["e", "e"]},
        {"op": "pub", "init": [0, 1, 2], "behs": [[[True, ["p"]]], [[True, ["p"]]], [[True, ["p", "r2"]]]], "ops": ["e"]},
        # events carrying a log_trace list (the tracing branch of __call__), with a raise and a nested publish
        {"op": "pub", "init": [0, 1, 2], "behs": [[[True, ["p", "r0"]]], [], [[True, []]]], "ops": ["e", "e"], "lt": 1},
        # observers handed over as bound methods (a new, equal method object at every call of the API): added twice,
        # removed, re-registering themselves while being called and raising (witness of the defect fixed in
        # _errorLoggerForObserver: the raiser was told about its own failure)
        {"op": "pub", "init": [0], "behs": [[]], "ops": ["a0", "e", "r0", "e"], "kinds": [1]},
        {"op": "pub", "init": [0], "behs": [[[True, ["r0", "a0"]]]], "ops": ["e"], "kinds": [1]},
        {"op": "pub", "init": [0, 1], "behs": [[[True, ["r0", "a0"]]], [[False, ["a1", "r0"]]]], "ops": ["e", "a0", "a1", "e"], "kinds": [1, 1]},
        # what is raised is any Exception: KeyError, StopIteration, MemoryError, RecursionError, one that cannot be
        # rendered, one equal to everything, …
        {"op": "pub", "init": [0, 1, 2], "behs": [[[True, []]], [[True, []], [True, []]], []], "ops": ["e", "e"], "exc": [3, 9, 0]},
        {"op": "pub", "init": [0, 1, 2], "behs": [[[True, []]], [[True, []], [True, []]], [[True, ["p"]]]], "ops": ["e"], "exc": [4, 10, 2]},
        # an observer that raises at every call still gets every event (12 events, then 40)
        {"op": "pub", "init": [0, 1], "behs": [[], []], "ops": ["e"] * 12, "dflt": [1, 0]},
        {"op": "pub", "init": [0, 1, 2], "behs": [[], [], []], "ops": ["e"] * 40, "dflt": [0, 1, 1], "kinds": [0, 1, 0], "exc": [0, 1, 3]},
        # (e) two nested publishes by one observer with a registration change in between and after
        {"op": "pub", "init": [0, 1, 2], "behs": [[[False, ["p", "r1", "p", "a1", "r0"]]], [], []], "ops": ["e", "e"]},
        {"op": "filter", "default": 1, "preds": ["L"], "steps": [["s", "twext.web2", 0], ["s", "twext.web2.dav", 2],
            ["e", 0, "twext.web2"], ["e", 0, "twext.web2.dav"], ["e", 3, "twext.web2.dav.x"], ["e", 1, "twext.web22"],
            ["e", 4, ""], ["e", None, "twext"], ["e", 4, None], ["q", ""], ["q", "twext.web2.davx"], ["c"], ["q", "twext.web2"]]},
        {"op": "filter", "default": 3, "preds": ["L"], "steps": [["s", "a.", 0], ["s", ".a", 0], ["s", "a..b", 4],
            ["q", "a..b.c"], ["q", "a.."], ["q", "a..c"], ["q", ".a.b"], ["q", "."], ["q", "a"], ["s", "", 2], ["q", ".x"], ["s", "a", 9]]},
        {"op": "filter", "default": 1, "preds": ["m", "L", "y"], "steps": [["e", 0, "a"], ["e", 1, "a"]]},
        {"op": "filter", "default": 1, "preds": ["i"], "steps": [["e", 0, "a"]], "none_style": 1},
        # namespaces are compared as they are: case, white space, a trailing newline, regular-expression characters
        {"op": "filter", "default": 1, "preds": ["L"], "steps": [["s", "Twisted.Web", 0], ["q", "twisted.web.x"], ["q", "Twisted.Web.x"],
            ["s", "a", 3], ["q", "a\n"], ["q", "a\n.b"], ["q", " a"], ["q", "a "], ["s", "a*", 4], ["q", "aa.b"], ["q", "a*.b"],
            ["s", "a.b", 2], ["q", "axb.c"], ["e", 1, "A.b"], ["e", 1, "a.b\n"]]},
        # a long namespace configured at depth 10: the most specific prefix is found however deep it is
        {"op": "filter", "default": 1, "preds": ["L"], "steps": [["s", "a.b.a.b.a.b.a.b.a.b", 4], ["s", "a.b.a", 0],
            ["q", "a.b.a.b.a.b.a.b.a.b.x"], ["q", "a.b.a.b.a.b.a.b.a.b.x.y.z"], ["q", "a.b.a.b.a.b.a.b.a"], ["e", 3, "a.b.a.b.a.b.a.b.a.b.c"]]},
        # the predicates are handed over as a one-shot iterator: every event is judged by all of them
        {"op": "filter", "default": 2, "preds": ["m", "L"], "steps": [["e", 0, "a"], ["e", 0, "a"], ["e", 4, "a"], ["e", 1, "a"]], "pk": 2},
        {"op": "filter", "default": 2, "preds": ["L"], "steps": [["e", 0, "a"], ["e", 0, "a"]], "pk": 3},
        # things that are not log levels are refused, and leave the configuration alone
        {"op": "filter", "default": 1, "preds": ["L"], "steps": [["s", "a", k] for k in (5, 6, 8, 10, 11, 12, 13)] + [["e", 1, "a.b"], ["q", "a"]]},
        {"op": "hist", "size": 5, "steps": "eeeeeeeeeer"},
        {"op": "hist", "size": 0, "steps": "eer"},
        {"op": "hist", "size": None, "steps": "reerer"},
        {"op": "hist", "size": -1, "steps": "e"},
        # the observer replayed to logs to the history observer while it is being replayed to (re-entrant)
        {"op": "hist", "size": None, "steps": "eeer", "feed": [1]},
        {"op": "hist", "size": 3, "steps": "eeeerr", "feed": [0, 2, 1]},
        {"op": "hist", "size": 5, "steps": "eerer", "feed": [1, 1, 1, 1, 1, 1]},
        {"op": "hist", "size": 1, "steps": "err", "feed": [3]},
        {"op": "hist", "size": 0, "steps": "er", "feed": [1]},
        # repeated events (the same object / an equal one logged again) count; the history observer replayed to itself
        {"op": "hist", "size": 5, "steps": "eddecr"},
        {"op": "hist", "size": 2, "steps": "edcdr"},
        {"op": "hist", "size": None, "steps": "eesr"},
        {"op": "hist", "size": 3, "steps": "eesresr"},
        {"op": "hist", "size": 3, "steps": "eeeesr"},
        # minimised witness of the defect fixed in LimitedHistoryLogObserver.replayTo (deque mutated during iteration:
        # RuntimeError even though the one buffered event had been handed over)
        {"op": "hist", "size": 3, "steps": "er", "feed": [1]},
    ]


# first-call behaviours for the exhaustive small configurations; S = the observer itself, N = the next observer
FIRST = [
    [False, []], [True, []], [False, ["rS"]], [True, ["rS"]], [False, ["aN"]], [False, ["rN"]],
    [False, ["p"]], [False, ["p", "rS"]], [False, ["rS", "p"]], [True, ["p"]], [False, ["p", "rN"]], [False, ["p", "aN"]],
]
FIRST_CORE = [0, 1, 2, 5, 6, 7, 8, 11]


def _small_exhaustive(tier="quick"):
    """all configurations of 1..3 observers over first-call behaviours (return, raise, remove self, remove self and
    raise, add / remove the next observer, publish re-entrantly, publish then remove self, remove self then publish,
    publish and raise, publish then remove / add the next observer), two emits.  n = 3 in the quick tier: the 8 core
    behaviours; thorough: all 12, and 4 observers over 6."""
    plans = [(1, range(len(FIRST))), (2, range(len(FIRST))), (3, FIRST_CORE if tier == "quick" else range(len(FIRST)))]
    if tier != "quick":
        plans.append((4, [0, 1, 2, 6, 7, 8]))
    for n, alphabet in plans:
        for combo in itertools.product(alphabet, repeat=n):
            behs = []
            for i, b in enumerate(combo):
                nxt = (i + 1) % n
                raises, cmds = FIRST[b]
                behs.append([[raises, [cm.replace("S", str(i)).replace("N", str(nxt)) for cm in cmds]]])
            yield {"op": "pub", "init": list(range(n)), "behs": behs, "ops": ["e", "e"]}


PLAIN = ["a", "b", "ab", "", "é", "x1", "a", "b"]
ODD = ["A", "B", "Ab", "É", "a\n", "\n", " a", "a ", "a*", "[ab]", "ß", "a\\", "a$", "^a", "a|b", "(a)", "a\t", "\u0130"]
SEGS = PLAIN * 7 + ODD
# things that are not log levels (see _level_arg)
BAD_LEVELS = [5, 6, 7, 8, 9, 10, 11, 12, 13]


def _namespace(rng, depths=(1, 1, 2, 2, 3, 3, 4, 5)):
    return ".".join(rng.choice(SEGS) for _ in range(rng.choice(depths)))


def _variant(rng, ns):
    """a near miss of ns that is a different string: other case, padded with white space / a newline, a regular-
    expression reading of it"""
    r = rng.randrange(8)
    if r == 0:
        return ns.swapcase()
    if r == 1:
        return ns.upper()
    if r == 2:
        return ns.lower()
    if r == 3:
        return ns + "\n"
    if r == 4:
        return rng.choice([" ", "\t", "\n"]) + ns
    if r == 5:
        return ns + " "
    if r == 6:
        i = rng.randrange(len(ns) + 1)
        return ns[:i] + rng.choice(["\n", ".\n", "\n."]) + ns[i:]
    return ns.replace(".", rng.choice(["x", "-", ".."]), 1)


def _gen_pub(rng):
    n = rng.choice([0, 1, 2, 2, 3, 3, 4, 5, 6])
    p_raise = rng.choice([0.0, 0.2, 0.5, 0.9, 1.0])
    mode = rng.choice(["none"] * 4 + ["self"] * 2 + ["any"] * 3 + ["pub"] * 2 + ["pubself"] * 3 + ["pubany"] * 4)
    budget = [rng.choice([1, 2, 3, 5])]      # re-entrant publishes in the whole case (each one fans out to every observer)

    def pub_cmd():
        if budget[0] > 0:
            budget[0] -= 1
            return ["p"]
        return []

    behs = []
    for i in range(n):
        sc = []
        for _ in range(rng.choice([0, 1, 1, 2, 3, 4, 6] if n <= 4 else [0, 1, 1, 2, 3])):
            cmds = []
            if mode == "self" and rng.random() < 0.4:
                cmds = [f"r{i}"]
            elif mode == "any" and rng.random() < 0.5:
                cmds = [f"r{rng.randrange(n)}" for _ in range(rng.choice([0, 1, 1, 2]))]
                cmds += [f"a{rng.randrange(n)}" for _ in range(rng.choice([0, 0, 1, 2]))]
            elif mode == "pub" and rng.random() < 0.4:
                cmds = pub_cmd()
            elif mode == "pubself":
                # publishers and one-shot observers: publish, unregister self, both in either order, or nothing
                r = rng.random()
                if r < 0.25:
                    cmds = pub_cmd()
                elif r < 0.45:
                    cmds = [f"r{i}"]
                elif r < 0.6:
                    cmds = pub_cmd() + [f"r{i}"]
                elif r < 0.7:
                    cmds = [f"r{i}"] + pub_cmd()
            elif mode == "pubany" and rng.random() < 0.6:
                for _ in range(rng.choice([1, 1, 2, 3, 4])):
                    r = rng.random()
                    cmds += pub_cmd() if r < 0.4 else [f"r{rng.randrange(n)}"] if r < 0.75 else [f"a{rng.randrange(n)}"]
            sc.append([rng.random() < p_raise, cmds])
        behs.append(sc)
    init = list(range(n))
    rng.shuffle(init)
    init = init[: rng.choice([n, n, n, max(0, n - 1), rng.randint(0, n)])]
    ops = []
    for _ in range(rng.choice([1, 1, 2, 3, 4, 6])):
        r = rng.random()
        if r < 0.65 or n == 0:
            ops.append("e")
        elif r < 0.85:
            ops.append(f"a{rng.randrange(n)}")
        else:
            ops.append(f"r{rng.randrange(n)}")
    c = {"op": "pub", "init": init, "behs": behs, "ops": ops, "lt": int(rng.random() < 0.25)}
    return _dress(rng, c)


def _dress(rng, c):
    """how the observers are handed to the publisher (callable objects / bound methods, a new method object at every
    addObserver / removeObserver call) and what the raising ones raise (Exception subclasses of every flavour)"""
    n = len(c["behs"])
    r = rng.random()
    if r < 0.3:
        c["kinds"] = [1] * n
    elif r < 0.55:
        c["kinds"] = [rng.randrange(2) for _ in range(n)]
    r = rng.random()
    if r < 0.35:
        c["exc"] = [rng.randrange(len(EXC)) for _ in range(n)]
    elif r < 0.55:
        c["exc"] = [rng.randrange(1, len(EXC))] * n
    return c


def _gen_pub_long(rng):
    """long histories: one or two observers raise at EVERY call (for ever: `dflt`), 9..40 events"""
    n = rng.choice([1, 2, 2, 3, 3, 4])
    behs = []
    for i in range(n):
        sc = []
        for _ in range(rng.choice([0, 0, 1, 2, 3])):
            r = rng.random()
            cmds = [f"r{rng.randrange(n)}"] if r < 0.15 else [f"a{rng.randrange(n)}"] if r < 0.3 else []
            sc.append([rng.random() < 0.4, cmds])
        behs.append(sc)
    dflt = [0] * n
    for i in rng.sample(range(n), rng.choice([1, 1, 2]) if n > 1 else 1):
        dflt[i] = 1
    m = rng.choice([9, 10, 12, 14, 16, 16, 20, 33, 40] if n <= 3 else [9, 10, 12, 14])
    ops = []
    for _ in range(m):
        ops.append("e")
        r = rng.random()
        if r < 0.06:
            ops.append(f"r{rng.randrange(n)}")
        elif r < 0.15:
            ops.append(f"a{rng.randrange(n)}")
    init = list(range(n))
    rng.shuffle(init)
    c = {"op": "pub", "init": init, "behs": behs, "ops": ops, "lt": int(rng.random() < 0.2), "dflt": dflt}
    return _dress(rng, c)


def _gen_filter(rng):
    pool = [_namespace(rng) for _ in range(3)]
    deep = rng.random() < 0.2
    def near(ns):
        parts = ns.split(".")
        r = rng.random()
        if r < 0.2 and ns:
            return _variant(rng, ns)
        if deep and r < 0.5:
            return ".".join(parts[: rng.randint(max(1, len(parts) - 4), len(parts))])
        if r < 0.45:
            return ".".join(parts[: rng.randint(1, len(parts))])
        if r < 0.6:
            return ns + rng.choice(["x", ".", ".a", "a"])
        if r < 0.7:
            return ns[: rng.randint(0, len(ns))]
        if r < 0.8:
            return "." + ns
        return _namespace(rng)
    if deep:
        # long namespaces (9..14 segments) configured at every depth
        # that share a long prefix
        p0 = _namespace(rng, (9, 10, 11, 12, 14))
        pool = [p0, p0 + "." + _namespace(rng), p0.rsplit(".", 1)[0] + "." + _namespace(rng, (1, 2, 3))]
    steps = []
    configured = []
    twins = rng.random() < 0.3

    def twin(ns):
        """in `twins` cases: a look-alike of a namespace that IS configured (other case, white space or a newline
        appended / prepended / inserted, a `.` replaced), or something below such a look-alike"""
        if twins and configured and rng.random() < 0.6:
            v = _variant(rng, rng.choice(configured))
            return v + rng.choice(["", "", "." + rng.choice(PLAIN[:3])])
        return ns

    for _ in range(rng.choice([2, 4, 6, 9, 12])):
        r = rng.random()
        ns = rng.choice(pool)
        if r < 0.35:
            k = rng.choice([near(ns), near(ns), ""])
            lvl = rng.choice([0, 1, 2, 3, 4, 0, 4, rng.choice(BAD_LEVELS)])
            steps.append(["s", k, lvl])
            if k and lvl < 5:
                configured.append(k)
        elif r < 0.4:
            steps.append(["c"])
            del configured[:]
        elif r < 0.6:
            steps.append(["q", twin(rng.choice([ns, near(ns), ""]))])
        else:
            steps.append(["e", rng.choice([0, 1, 2, 3, 4, 0, 2, 4, None]), twin(rng.choice([ns, ns, ns, near(ns), "", None]))])
    preds = rng.choice([["L"]] * 6 + [[], ["m", "L"], ["L", "n"], ["L", "y"], ["y", "L"], ["n", "L"], ["L", "i"], ["i", "L"],
                                       ["m", "m", "L", "m"]])
    return {"op": "filter", "default": rng.randrange(5), "preds": preds, "steps": steps, "none_style": rng.randrange(2),
            "lt": int(rng.random() < 0.25), "pk": rng.choice([0, 0, 1, 2, 2, 3])}


def _gen_hist(rng):
    size = rng.choice([None, 0, 1, 2, 3, 5, -1, 2, 3])
    alphabet = rng.choice(["eeer", "eeer", "eedcr", "eeersr", "edcsr"])
    steps = "".join(rng.choice(alphabet) for _ in range(rng.choice([0, 1, 3, 6, 9, 14]))) + rng.choice(["", "r"])
    c = {"op": "hist", "size": size, "steps": steps}
    if rng.random() < 0.4:
        c["feed"] = [rng.choice([0, 0, 1, 1, 2, 3]) for _ in range(rng.choice([1, 1, 2, 3, 6]))]
    return c


def generate(rng, tier):
    yield from _small_exhaustive(tier)
    n = 2200 if tier == "quick" else 60000
    for _ in range(n):
        r = rng.random()
        if r < 0.42:
            yield _gen_pub(rng)
        elif r < 0.5:
            yield _gen_pub_long(rng)
        elif r < 0.9:
            yield _gen_filter(rng)
        else:
            yield _gen_hist(rng)


def search(rng, tier, disagreeing):
    """property-directed: every single-act perturbation of the disagreeing publisher cases + a deeper random run"""
    for c in disagreeing:
        if c.get("op") != "pub":
            continue
        n = len(c["behs"])
        for i in range(n):
            for act in ([False, [f"r{i}"]], [True, [f"r{i}"]], [True, []], [False, []], [False, ["p"]],
                        [False, ["p", f"r{i}"]], [False, [f"r{i}", "p"]], [True, ["p"]]):
                d = dict(c)
                d["behs"] = [list(sc) for sc in c["behs"]]
                d["behs"][i] = [act] + d["behs"][i][1:]
                yield d
    for _ in range(3000 if tier == "quick" else 20000):
        yield _gen_pub(rng)


def shrink(c):
    if c["op"] == "pub":
        ops, behs = c["ops"], c["behs"]
        for i in range(len(ops)):
            yield dict(c, ops=ops[:i] + ops[i + 1:])
        for i, sc in enumerate(behs):
            for j in range(len(sc)):
                yield dict(c, behs=behs[:i] + [sc[:j] + sc[j + 1:]] + behs[i + 1:])
                a = _norm(sc[j])
                for simpler in [[False, a[1]]] + [[a[0], a[1][:m] + a[1][m + 1:]] for m in range(len(a[1]))]:
                    if simpler != a:
                        yield dict(c, behs=behs[:i] + [sc[:j] + [simpler] + sc[j + 1:]] + behs[i + 1:])
        for i in range(len(c["init"])):
            yield dict(c, init=c["init"][:i] + c["init"][i + 1:])
        for f in ("kinds", "exc", "dflt"):
            if any(c.get(f) or []):
                yield {k: v for k, v in c.items() if k != f}
                for i, v in enumerate(c[f]):
                    if v:
                        yield dict(c, **{f: c[f][:i] + [0] + c[f][i + 1:]})
    elif c["op"] == "filter":
        st = c["steps"]
        for i in range(len(st)):
            yield dict(c, steps=st[:i] + st[i + 1:])
        for i in range(len(c["preds"])):
            yield dict(c, preds=c["preds"][:i] + c["preds"][i + 1:])
        if c.get("pk"):
            yield dict(c, pk=0)
    else:
        s = c["steps"]
        for i in range(len(s)):
            yield dict(c, steps=s[:i] + s[i + 1:])
        f = c.get("feed") or []
        for i in range(len(f)):
            yield dict(c, feed=f[:i] + f[i + 1:])
            if f[i] > 0:
                yield dict(c, feed=f[:i] + [f[i] - 1] + f[i + 1:])


def tag(c, out):
    if c["op"] == "pub":
        depth = nest = lvl = 0
        for ent in out.split("|")[0].split(";"):
            depth = max(depth, ent.count("("))
            lvl += 1 if ent[:1] == "[" else -1 if ent[:1] == "]" else 0
            nest = max(nest, lvl)
        cmds = [cm for sc in c["behs"] for a in sc for cm in _norm(a)[1]]
        mut = ("rem" if any(cm[0] == "r" for cm in cmds) else "") + ("add" if any(cm[0] == "a" for cm in cmds) else "")
        # a registration change that follows a re-entrant publish inside one observer call / anywhere in the case
        after = any("p" in _norm(a)[1] and any(cm != "p" for cm in _norm(a)[1][_norm(a)[1].index("p"):])
                    for sc in c["behs"] for a in sc)
        kinds = c.get("kinds") or []
        handed = "meth" if kinds and all(kinds) else "mixed" if any(kinds) else "obj"
        raised = sorted(set((c.get("exc") or [0] * 99)[int(e.split(">")[0])] for e in out.split("|")[0].split(";")
                            if e[:1].isdigit() and f"r{e.split('>')[0]}({e.split('>', 1)[1]})" in out)) if depth else []
        exc = "noexc" if not raised else "boom" if raised == [0] else "exc%d" % (raised[-1] if len(raised) == 1 else 99)
        ne = sum(1 for o in c["ops"] if o == "e")
        long = "+long%d" % (8 if ne < 20 else 20) if any(c.get("dflt") or []) and ne >= 8 else ""
        return (f"pub{'+lt' if c.get('lt') else ''}:n{len(c['behs'])}:depth{min(depth, 5)}:{mut or 'plain'}:nest{min(nest, 4)}"
                f"{'+after' if after else ''}:ops{''.join(sorted(set(o[0] for o in c['ops'])))}:{handed}:{exc}{long}")
    if c["op"] == "filter":
        names = [s[1] if s[0] in "sq" else s[2] for s in c["steps"] if s[0] != "c"]
        names = [n for n in names if n]
        odd = "+odd" if any(ch.isspace() or ch.isupper() or ch in "*[]\\$^|()" for n in names for ch in n) else ""
        deep = "+deep" if any(n.count(".") >= 9 for n in names) else ""
        return ("filter:" + ",".join(sorted(set(out.split(";"))))[:80] + ":" + "".join(c["preds"]) + f":pk{c.get('pk', 0)}"
                + odd + deep)
    size = c["size"]
    ne = c["steps"].count("e")
    cls = "N" if size is None else "neg" if size < 0 else "0" if size == 0 else ("lt" if ne < size else "eq" if ne == size else "gt")
    fed = "feed" if any(c.get("feed") or []) and "r" in c["steps"] else "nofeed"
    rep = "".join(ch for ch in "dcs" if ch in c["steps"])
    return f"hist:{cls}:{'r' if 'r' in c['steps'] else 'nor'}:{fed}:{'!' if '!' in out else 'ok'}:{rep or 'plain'}"
