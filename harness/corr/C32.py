"""C32 — DNS messages round-trip through the wire format: real twisted.names.dns vs the Lean model + oracle."""
import json
import struct

from twisted.names import dns

from corr import _dns as D
from corr._dns import hx, unhx

HEADLINE = "TwistedProps.C32.message_round_trip"
RULE = ("messages over every Record_* class (+UnknownRecord, payload-less headers, OPT), names drawn from a pool with shared "
        "suffixes, case variants, labels of 1/62/63/64/65/191/192/200/255/256 bytes, bytes >= 0xC0 and NULs inside labels, "
        "root, trailing/leading/double dots; field values at 0/max/out-of-range; maxSize in {0, 12..full size, 512, 4096, <12}; "
        "every maxSize from 12 to the full size for a few messages (every cut point of the truncation clause); RDATA of 65535/65536 "
        "bytes; large messages crossing offset 2^14; NAMES PLACED AT CHOSEN OFFSETS (about a tenth of the quick cases + 30 corpus cases): "
        "a filler record without names puts a chosen label of one name - owner name or a name inside RDATA of NS/CNAME/PTR/DNAME/MX/"
        "AFSDB/SOA/MINFO/RP/TSIG (compressed) or SRV/NAPTR/A6 (uncompressed) - at B+delta, B = 2^14 mostly (the name STRADDLES the "
        "14-bit limit of a compression pointer: it starts below, a later label / its pointer / its zero octet starts at, just before "
        "or just after 2^14), also 2^15, 3*2^14, 2^16 and every power of two from 2^8 to 2^13 (each bit of a pointer's offset), "
        "delta in -40..40 dense around 0 and +12 (header size); the name, its suffixes, case variants and longer names ending in "
        "them are then used again as owner names and inside RDATA, in the same and later sections, with no limit / a limit that "
        "fits / a cut near the name; _EDNSMessage (version None/0/1, 12-bit rCode, sizes around 512) and _OPTHeader "
        "with options; mutated/truncated encodings through Message.fromStr; "
        "OBJECTS WITH A HISTORY (about 260 quick cases + 10 corpus cases; c['h']): records DECODED from one message (well-formed, "
        "RDATA with names mostly) put into a new message with other questions / another order / twice / next to fresh records "
        "(k=xfer: the forwarder's and the cache's path - a decoded RRHeader carries rdlength, a decoded payload its own state), a "
        "message encoded, decoded, given its maxSize back and encoded again (k=reenc, driver `rt2`), a Message / _EDNSMessage object "
        "that was ENCODED BEFORE - unchanged (k=twice) or without its last 1-3 records, with another id / other flags, with one "
        "record being another record (k=edit: records appended in place, record replaced, attributes set, then encoded again), "
        "equal names / payloads / records being ONE Name / Record_* / RRHeader / Query object throughout the message (share), with "
        "repeated items; for the model a message is a value, so the model line is that of the final message; "
        "EVERY CUT POINT INSIDE A RECORD OF EVERY TYPE (about 1400 quick cases): for each Record_* class and UnknownRecord a small "
        "message with such a record (the richest RDATA of a few tries) between two A records, under every maxSize from the record's "
        "first byte to one past its last (owner name, fixed part, inside and between all RDATA fields); LONG POINTER CHAINS AND LONG "
        "NAMES (40 quick cases + 3 corpus): 3..130 names each one label longer than the one before (decoding the k-th follows k-1 "
        "pointers), as questions / owners / RDATA names, in growing, shrinking and random order, labels of 1..63 bytes, names far "
        "beyond 255 bytes; "
        "distinct = (op, record types present, compression used?, truncated?, outcome class, history kind, cut type, chain depth class)")
ASSUMES = [
    "Message.maxSize is not a wire field: a decoded Message has maxSize 0 and equality is judged with maxSize set aside "
    "(for _EDNSMessage it travels in the OPT record and is compared)",
    "RRHeader.auth and a payload's own ttl are not wire fields: parseRecords fills them from the message's auth flag and the "
    "header's ttl; messages are generated with rr.auth == message.auth and payload.ttl == rr.ttl (otherwise == cannot hold)",
    "a name is 'made of 1 to 63-byte labels' when it is b'' (root) or every b'.'-separated label has 1..63 bytes; the 255-octet "
    "bound on a whole name (RFC 1035 2.3.4) is not part of the statement and is not enforced by Twisted (reported, not judged)",
    "in range: flags 0/1, opCode/rCode < 16 (rCode < 4096 with EDNS), 16/32/48-bit fields, SOA refresh/retry/expire signed 32-bit "
    "(struct 'l'), character-strings <= 255 bytes, RDATA < 64 KiB (theorem encode_succeeds: rdataMax, the RDATA's size with names "
    "written in full, < 65536 - at 65536 bytes RRHeader.encode raises struct.error, theorem encode_fails_only_on_oversize_rdata), A6: prefixLen <= 128, suffix without the prefixLen leading bits, "
    "prefix name only when prefixLen > 0; UnknownRecord only for TYPEs without a Record_* class; no payload-less headers",
    "the truncation clause is judged for maxSize >= 12 (a limit below the 12-byte header cannot be met by any message); "
    "'decodes to a prefix of the original records' is read as: Message.fromStr returns (no exception) the same header with TC set "
    "and a flat proper prefix of questions ++ answers ++ authority ++ additional (a section is cut only if the later ones are empty)",
    "message-level refusal (unrepresentable_name_refused_message) is stated for messages that are otherwise in range and whose "
    "labels are non-empty; ValueError is what is raised unless an earlier record with >= 64 KiB of RDATA raises struct.error first",
    "histories (c['h']) use well-formed source messages and well-formed earlier states; the property is judged on the FINAL message's "
    "value against the bytes the object with that history produced - the statement speaks of messages, not of freshly built objects; "
    "decoding is always done by a fresh Message / _EDNSMessage (Message.decode appends to the answers / authority / additional lists "
    "an object already holds - only queries is reset - so a decoder object with a past is outside what is judged here)",
    "dnspython is not installed: the independent decoder is lean/TwistedModel/Dns/Rfc1035.lean (written from the RFCs, shares only "
    "data types and the printer with the model of Twisted's codec), run through the driver on the bytes the real encoder produced "
    "- weaker independence than a third-party library (partial)",
]
TRUSTED = ["lean/TwistedModel/Dns/Rfc1035.lean as the independent reader (no theorem is stated about it)"]
MANIFEST = {
    "text": "Lean theorems (TwistedProps/C32.lean) over the model of Name/Query/RRHeader/Record_*/Message encode+decode with the "
            "compression dictionary. message_round_trip: every well-formed Message whose RDATA stay below 64 KiB IS encoded "
            "(encode_succeeds; the only failure on well-formed input is struct.error on RDLENGTH, which does occur from 65536 bytes on - "
            "encode_fails_on_oversize_rdata, encode_succeeds_iff), decodes to itself when within "
            "its size limit (names of 1..63-byte labels round-trip at any offset with any dictionary state: pointer chains strictly "
            "descend, so the visited-set check never fires; no bound on message size or offsets - a name may lie below, across or "
            "beyond offset 2^14: name_records_suffixes_at_their_own_offsets / suffix_beyond_2_14_not_recorded / "
            "fresh_name_records_exactly say that each suffix is recorded at the offset of its own first label and only when that "
            "offset is below 2^14, two_names_round_trip that a later use of any name with the dictionary left behind reads back), and when over the limit is cut to exactly maxSize bytes with TC set "
            "that decode, without an exception, to the same header and a flat proper prefix of its questions and records (a "
            "name/field/record cut anywhere raises EOFError and nothing else, which parseRecords/Message.decode catch). "
            "unrepresentable_name_refused_message: a label over 63 bytes anywhere in a message makes toStr raise ValueError. "
            "reencode_decoded_message / reencode_any_number_of_times: the message fromStr returns, given its maxSize back, is "
            "encoded to the same bytes, for any number of decode/encode rounds (the model's encoder is a function of the message's "
            "value; the tie checks that the real encoder is too: decoded records in new messages, objects encoded before and "
            "changed since, shared objects, driver op rt2). "
            "Model tied to dns.py by differential runs over all record classes, every cut point (also inside every field of every record type), "
            "pointer chains up to 130 hops, names over 255 bytes, and names placed at chosen offsets "
            "(straddling 2^14, 2^15, 3*2^14, 2^16; pointer targets in every band below 2^14); round trip, refusal, "
            "truncation-prefix and an independent RFC 1035 reader checked on the real code by the oracle.",
    "note": "trusts Lean kernel, the hand model of dns.py (differentially tied), the Lean RFC 1035 reader standing in for dnspython",
    "technique": "Lean 4 proof (validity relation for compressed names + induction over fields/records/sections; EOFError-at-the-cut "
                 "lemmas for every decoder; exact encoder outcome per item) + differential tie",
    "design_ref": "DESIGN.md §7 C32",
}

# ------------------------------------------------------------------------------------------------
# generators

_LABELS = [b"a", b"b", b"www", b"example", b"Example", b"EXAMPLE", b"com", b"COM", b"org", b"x" * 62, b"y" * 63,
           b"\x00", b"\xc0\x0c", b"\xff", b"a b", b"_tcp", b"xn--nxasmq6b", b"1", b"in-addr", b"arpa"]
_BAD_LABELS = [b"L" * 64, b"M" * 65, b"N" * 191, b"O" * 192, b"P" * 200, b"Q" * 255, b"R" * 256, b"S" * 300]


def _name(rng, pool, p_bad=0.03):
    r = rng.random()
    if pool and r < 0.35:
        return rng.choice(pool)
    if pool and r < 0.6:                       # new labels in front of a known suffix
        base = rng.choice(pool)
        if base:
            cut = base.split(b".")
            base = b".".join(cut[rng.randrange(len(cut)):])
        n = b".".join([rng.choice(_LABELS) for _ in range(rng.randint(1, 2))] + ([base] if base else []))
    elif r < 0.65:
        n = b""
    elif r < 0.65 + p_bad:
        ls = [rng.choice(_LABELS) for _ in range(rng.randint(0, 2))]
        ls.insert(rng.randint(0, len(ls)), rng.choice(_BAD_LABELS))
        n = b".".join(ls)
    elif r < 0.65 + 2 * p_bad:
        n = rng.choice([b".", b"a.", b".a", b"a..b", b"example.com.", b"..", b"a.b..", b"." + b"z" * 70])
    elif r < 0.65 + 3 * p_bad:
        n = b".".join([bytes([rng.randrange(256)]).replace(b".", b"-") * rng.choice([1, 3, 63]) for _ in range(rng.randint(1, 6))])
    else:
        n = b".".join(rng.choice(_LABELS) for _ in range(rng.randint(1, 4)))
    if rng.random() < 0.3 and n:
        n = bytes(c ^ 0x20 if (65 <= c <= 90 or 97 <= c <= 122) and rng.random() < 0.5 else c for c in n)
    pool.append(n)
    return n


def _num(rng, bits, p_out=0.01):
    r = rng.random()
    if r < p_out:
        return (1 << bits) + rng.randrange(3)
    return rng.choice([0, 1, (1 << bits) - 1, 1 << (bits - 1), rng.randrange(1 << bits), rng.randrange(1 << min(bits, 8))])


def _bytes(rng, n):
    return bytes(rng.choice([0, 0xFF, 0xC0, 0x2E, 0x41, rng.randrange(256)]) for _ in range(n))


def _str8(rng, p_out=0.01):
    return _bytes(rng, 256 + rng.randrange(3) if rng.random() < p_out else rng.choice([0, 1, 3, 10, 255, rng.randrange(60)]))


TYPES = sorted(D.KINDS)


def _vals(rng, t, pool, big=False):
    out = []
    for k in D.KINDS[t]:
        if k in ("u8", "u16", "u32", "u48"):
            out.append(f"n{_num(rng, int(k[1:]))}")
        elif k == "i32":
            v = rng.choice([0, 1, -1, 2**31 - 1, -2**31, rng.randrange(-2**31, 2**31)])
            if rng.random() < 0.01:
                v = rng.choice([2**31, -2**31 - 1])
            out.append(f"i{v}")
        elif k in ("raw4", "raw16"):
            n = int(k[3:])
            if rng.random() < 0.01:
                n += rng.choice([-1, 1])
            out.append("b" + hx(_bytes(rng, n)))
        elif k == "N":
            out.append("b" + hx(_name(rng, pool)))
        elif k == "s8":
            out.append("b" + hx(_str8(rng)))
        elif k == "s16":
            out.append("b" + hx(_bytes(rng, rng.choice([0, 1, 16, 20, 32, rng.randrange(300)]))))
        elif k == "rest":
            n = rng.choice([0, 1, 4, 20, rng.randrange(200)])
            if big:
                n = rng.choice([16400, 17000, 30000])
            out.append("b" + hx(_bytes(rng, n)))
        elif k == "txt":
            out.append("l" + "/".join(hx(_str8(rng)) for _ in range(rng.choice([0, 1, 1, 2, 3, 5]))))
        elif k == "a6":
            p = rng.choice([0, 0, 8, 64, 120, 128, 128, rng.randrange(129), rng.randrange(129), 1, 121, 127])
            if rng.random() < 0.04:
                p = rng.choice([129, 136, 200, 255, 256])
            sfx = rng.getrandbits(128) & ((1 << max(0, 128 - p)) - 1) if rng.random() < 0.9 else rng.getrandbits(128)
            pre = _name(rng, pool) if (p != 0) == (rng.random() < 0.95) else b""
            out.append(f"a{p}/{sfx.to_bytes(16, 'big').hex()}/{hx(pre)}")
    return out


def _rr(rng, pool, big=False):
    r = rng.random()
    ttl = rng.choice([0, 1, 300, 3600, 2**31 - 1, 2**32 - 1, rng.randrange(2**32)])
    if rng.random() < 0.005:
        ttl = 2**32
    cls = rng.choice([1, 1, 1, 3, 4, 255, rng.randrange(65536)])
    n = hx(_name(rng, pool))
    if big:
        t = rng.choice([10, 10, 11, 44])
        return {"n": n, "t": t, "c": cls, "ttl": ttl, "pk": "k", "v": _vals(rng, t, pool, big=True)}
    if r < 0.86:
        t = rng.choice(TYPES)
        return {"n": n, "t": t, "c": cls, "ttl": ttl, "pk": "k", "v": _vals(rng, t, pool)}
    if r < 0.95:
        t = rng.choice([41, 19, 27, 29, 40, 43, 46, 52, 249, 251, 255, 256, 65535, rng.randrange(65536)])
        if rng.random() < 0.1:
            t = rng.choice(TYPES)              # UnknownRecord under a known TYPE: does not round-trip (tie only)
        return {"n": n, "t": t, "c": cls, "ttl": ttl, "pk": "u", "v": ["b" + hx(_bytes(rng, rng.choice([0, 1, 4, 30])))]}
    return {"n": n, "t": rng.choice(TYPES + [41, 300]), "c": cls, "ttl": ttl, "pk": "-", "v": []}


def _hdr(rng, maxSize):
    f = lambda: rng.choice([0, 1])          # noqa: E731
    h = [_num(rng, 16, 0.003), f(), rng.randrange(16), f(), f(), f(), rng.randrange(16), f(), maxSize, f(), f()]
    if rng.random() < 0.02:
        h[rng.choice([1, 3, 4, 5, 7, 9, 10])] = rng.choice([2, 3, 255])      # `& 1` in encode
    if rng.random() < 0.02:
        h[rng.choice([2, 6])] = rng.choice([16, 17, 255])                     # `& 0xF`
    return h


def _message(rng, big=False):
    pool = []
    m = {"hdr": None, "q": [], "an": [], "ns": [], "ad": []}
    for _ in range(rng.choice([0, 1, 1, 1, 2, 3])):
        m["q"].append([hx(_name(rng, pool)), rng.choice(TYPES + [255, 252, 41]), rng.choice([1, 1, 255, 3])])
    for sec, w in (("an", [0, 1, 1, 2, 4]), ("ns", [0, 0, 1, 2]), ("ad", [0, 0, 1, 3])):
        for _ in range(rng.choice(w)):
            m[sec].append(_rr(rng, pool))
    if big:
        where = rng.choice(["an", "ns", "ad"])
        m[where].insert(rng.randint(0, len(m[where])), _rr(rng, pool, big=True))
        for _ in range(rng.randint(2, 4)):       # the same fresh names twice, beyond offset 2^14
            nm = b".".join([b"late", rng.choice(_LABELS), b"example", b"net"])
            for _ in range(2):
                m["ad"].append({"n": hx(nm), "t": 2, "c": 1, "ttl": 5, "pk": "k", "v": ["b" + hx(b"ns." + nm)]})
    m["hdr"] = _hdr(rng, 0)
    return m


def _full_size(m):
    """size of the untruncated encoding on the real code (None when it cannot be encoded)"""
    try:
        msg = D.build_message(_x(m))
        msg.maxSize = 0
        return len(msg.toStr())
    except Exception:
        return None


def _rt_case(rng, big=False):
    m = _message(rng, big)
    r = rng.random()
    if r < 0.45:
        m["hdr"][8] = 0
    elif r < 0.6:
        m["hdr"][8] = rng.choice([512, 4096, 65535])
    elif r < 0.95:
        full = _full_size(m) or 100
        m["hdr"][8] = rng.choice([12, 13, full - 1, full, full + 1, max(12, full - 2), rng.randint(12, max(12, full)),
                                  rng.randint(12, max(12, full)), max(12, full // 2)])
        if m["hdr"][8] < 12:
            m["hdr"][8] = 12
    else:
        m["hdr"][8] = rng.randrange(1, 12)
    return {"op": "rt", "m": m}


def _edns_case(rng):
    m = _message(rng)
    if rng.random() < 0.3:                       # sizes around the 512-byte default of the inner Message
        pool = []
        for _ in range(rng.randint(1, 4)):
            m["an"].append({"n": hx(_name(rng, pool, 0)), "t": 16, "c": 1, "ttl": 60, "pk": "k",
                            "v": ["l" + "/".join(hx(_bytes(rng, rng.choice([100, 200, 255]))) for _ in range(rng.randint(1, 2)))]})
    h = m["hdr"]
    ver = rng.choice([-1, 0, 0, 0, 1, 255])
    if ver < 0 and rng.random() < 0.9:
        h += [ver, 0]
        h[8] = 512
    else:
        h += [ver, rng.choice([0, 1])]
        h[8] = rng.choice([512, 512, 1232, 4096, 65535, 100, 0, 300])
        h[6] = rng.choice([0, 3, 15, 16, 0xFFF, rng.randrange(4096)])
        if rng.random() < 0.01:
            h[rng.choice([6, 8, 11])] = rng.choice([4096, 65536, 256])
    if rng.random() < 0.03:
        m["ad"].append({"n": "-", "t": 41, "c": 4096, "ttl": 0, "pk": "u", "v": ["b-"]})
    return {"op": "edns", "m": m}


def _opt_case(rng):
    opts = [[_num(rng, 16, 0.005), hx(_bytes(rng, rng.choice([0, 1, 8, 40])))] for _ in range(rng.choice([0, 0, 1, 2, 4]))]
    return {"op": "opt", "hdr": [_num(rng, 16, 0.005), _num(rng, 8, 0.005), _num(rng, 8, 0.005), rng.choice([0, 1])], "opts": opts}


def _dec_case(rng):
    """a valid encoding, cut or with a few bytes changed (Message.fromStr on both sides)"""
    m = _message(rng)
    if rng.random() < 0.06:                      # a message with a name at a chosen offset, damaged near that name / its later uses
        oc = _offset_case_try(rng, "quick")
        if oc is not None:
            try:
                b = bytearray(_wire(oc["m"]))
                tail = max(12, len(b) - rng.choice([40, 80, 200]))
                r = rng.random()
                if r < 0.3:
                    b = b[:rng.randint(tail, len(b))]
                else:
                    for _ in range(rng.randint(1, 3)):
                        i = rng.randrange(tail, len(b))
                        if b[i] >= 0xC0 and i + 1 < len(b) and rng.random() < 0.7:       # a pointer: to the last offsets there are
                            b[i], b[i + 1] = rng.choice([(0xFF, 0xFF), (0xFF, 0xFE), (0xC0, 0x0C), (0xFF, b[i + 1]), (b[i], 0xFF),
                                                         (0xE0, 0x00), (b[i] ^ 0x20, b[i + 1])])
                        else:
                            b[i] = rng.choice([0, 0xC0, 0xFF, 0xFF, 12, rng.randrange(256)])
                return {"op": "dec", "data": bytes(b).hex()}
            except Exception:
                pass
    try:
        b = bytearray(D.build_message(m).toStr())
    except Exception:
        b = bytearray(b"\x00" * 12)
    r = rng.random()
    if r < 0.4:
        b = b[:rng.randint(0, len(b))]
    elif r < 0.9:
        for _ in range(rng.randint(1, 3)):
            if b:
                i = rng.randrange(len(b))
                b[i] = rng.choice([0, 0xC0, 0xC0, 0xFF, 12, i & 0xFF, rng.randrange(256)])
    return {"op": "dec", "data": bytes(b).hex()}


# ------------------------------------------------------------------------------------------------
# names placed at chosen message offsets (the 14-bit limit of a compression pointer and every bit below it)
#
# A compression pointer is 0xC000 | offset, so what Name.encode may record depends on the ABSOLUTE offset of every
# suffix of every name, and what it writes on a dictionary hit exercises one bit pattern of the offset.  These cases
# put one name (the "straddler") so that a chosen label of it starts at a chosen offset T = B + delta, B in
# {2^14 (mostly), 2^15, 3*2^14, 2^16, 2^8..2^13, 0x3000, 0x3ff0, random}, and then use the name, its suffixes (same and
# other case, with and without new labels in front) again later in the message, as owner names and inside RDATA
# (compressed and uncompressed kinds), in the same and in later sections, with and without a size limit.
# Fillers are written compactly in the case as z<N>[/<hexbyte>] (N copies of one byte), see _x.

_MID = [b"straddle", b"zone", b"sub", b"Kz", b"m", b"w" * 63, b"v" * 30, b"\xc0\x0c", b"\x00\x01", b"cafe"]
_FILL = ["00", "00", "00", "c0", "ff", "03", "2e", "41", "0c"]
_NAME_TYPES = [2, 5, 12, 39, 15, 18, 6, 6, 14, 17, 250, 33, 35, 38]       # RDATA with a name (33/35/38: written uncompressed)
_BOUNDS = [0x100, 0x200, 0x400, 0x800, 0x1000, 0x2000, 0x3000, 0x3FF0]


def _xv(v):
    if v[:1] != "z":
        return v
    n, _, b = v[1:].partition("/")
    return "b" + ((b or "00") * int(n) if int(n) else "-")


def _x(m):
    """the case's message with the compact fillers z<N>[/<hexbyte>] written out as b<hex>"""
    def xr(r):
        return dict(r, v=[_xv(v) for v in r["v"]]) if any(v[:1] == "z" for v in r["v"]) else r
    return dict(m, an=[xr(r) for r in m["an"]], ns=[xr(r) for r in m["ns"]], ad=[xr(r) for r in m["ad"]])


def _clean_rr(rng, pool, types=None):
    """a record that is well-formed in the statement's sense (in-range values, names of 1..63-byte labels)"""
    for _ in range(50):
        p2 = list(pool)
        r = _rr(rng, p2)
        if types is not None:
            r["t"] = rng.choice(types)
            r["pk"] = "k"
            r["v"] = _vals(rng, r["t"], p2)
        ok, names = D.rr_ok(r)
        if ok and all(D.labels_ok(n) for n in names):
            pool[:] = [n for n in p2 if D.labels_ok(n)]
            return r
    return {"n": hx(b"fallback.example"), "t": 1, "c": 1, "ttl": 1, "pk": "k", "v": ["b01020304"]}


def _filler(rng, n, owner):
    """a record without names whose RDATA has exactly n bytes"""
    fb = rng.choice(_FILL)
    kind = rng.choice(["null", "null", "wks", "sshfp", "unk"])
    base = {"n": hx(owner), "c": 1, "ttl": rng.choice([0, 60]), "pk": "k"}
    if kind == "wks" and n >= 5:
        return dict(base, t=11, v=["b0a000001", "n6", f"z{n - 5}/{fb}"])
    if kind == "sshfp" and n >= 2:
        return dict(base, t=44, v=["n1", "n2", f"z{n - 2}/{fb}"])
    if kind == "unk":
        return dict(base, t=65280, pk="u", v=[f"z{n}/{fb}"])
    return dict(base, t=10, v=[f"z{n}/{fb}"])


def _flip(rng, n):
    return bytes(c ^ 0x20 if (65 <= c <= 90 or 97 <= c <= 122) and rng.random() < 0.5 else c for c in n)


def _wire(m):
    msg = D.build_message(_x(m))
    msg.maxSize = 0
    return msg.toStr()


def _split3(rng, recs):
    a, b = sorted([rng.randint(0, len(recs)), rng.randint(0, len(recs))])
    return recs[:a], recs[a:b], recs[b:]


def _offset_case(rng, tier):
    """see the comment above; falls back to an ordinary large message when the placement cannot be met"""
    for _ in range(8):
        c = _offset_case_try(rng, tier)
        if c is not None:
            return c
    return _rt_case(rng, big=True)


def _offset_case_try(rng, tier):
    r = rng.random()
    if r < 0.62:
        B = 0x4000
    elif r < 0.88:
        B = rng.choice(_BOUNDS + [rng.randrange(0x60, 0x4000)])
    elif r < 0.94 or tier == "quick" and r < 0.97:
        B = rng.choice([0x8000, 0xC000])
    else:
        B = 0x10000
    T = B + rng.choice([0, 0, 0, -1, 1, -2, 2, 3, 11, 12, 13, -12, rng.randint(-40, 40)])
    pool = []
    small = B < 0x800
    q = [[hx(_name(rng, pool, 0)), rng.choice(TYPES), 1] for _ in range(rng.choice([0, 0, 1, 2]) if not small else 0)]
    q = [x for x in q if D.labels_ok(unhx(x[0]))]
    pool[:] = [n for n in pool if D.labels_ok(n)]
    pre = [_clean_rr(rng, pool) for _ in range(rng.choice([0, 1, 1, 2, 3]) if not small else rng.choice([0, 0, 1]))]
    # the straddler: a unique first label, one to three labels never used before it, then nothing / a known suffix
    tok = b"s" + bytes(rng.choice(b"abcdefghijklmnop") for _ in range(rng.choice([0, 2, 4, 19, 62]))) + b"q"
    mid = [rng.choice(_MID) for _ in range(rng.randint(1, 3))]
    known = [n for n in pool if n]
    tail = rng.choice(known).split(b".")[-rng.randint(1, 3):] if known and rng.random() < 0.4 else []
    labels = [tok] + mid + tail
    straddler = b".".join(labels)
    # which part of it starts at T: a fresh label (mostly), the name itself, or what follows the fresh labels
    # (the known suffix = a pointer, or the terminating zero byte)
    w = rng.random()
    j = 0 if w < 0.12 else 1 + len(mid) if w < 0.24 else rng.randint(1, len(mid))
    S = T - sum(1 + len(l) for l in labels[:j])
    # the record holding it
    if rng.random() < 0.5:
        rec = _clean_rr(rng, pool)
        rec["n"] = hx(straddler)
        where = "owner"
    else:
        rec = _clean_rr(rng, pool, _NAME_TYPES)
        kinds = D.KINDS[rec["t"]]
        if rec["t"] == 38:
            p, sfx, _ = rec["v"][0][1:].split("/")
            if int(p) == 0:
                p, sfx = "64", "00" * 8 + sfx[16:]
            rec["v"][0] = f"a{p}/{sfx}/{hx(straddler)}"
        else:
            i = rng.choice([i for i, k in enumerate(kinds) if k == "N"])
            rec["v"][i] = "b" + hx(straddler)
        where = f"rdata{rec['t']}"
    # later uses: the suffix that starts at T (same case, mostly), then whatever _name makes of the straddler's suffixes
    sfx = b".".join(labels[j if 1 <= j <= len(mid) else rng.choice([0, 1]) if j == 0 else len(mid):])
    if rng.random() < 0.3:
        sfx = _flip(rng, sfx)
    if rng.random() < 0.3:
        sfx = rng.choice(_LABELS[:9]) + b"." + sfx
    if rng.random() < 0.5:
        use = {"n": hx(sfx), "t": 1, "c": 1, "ttl": 7, "pk": "k", "v": ["b0a000002"]}
    else:
        use = {"n": hx(rng.choice(known + [b"u.example"])), "t": rng.choice([2, 5, 12, 15]), "c": 1, "ttl": 7, "pk": "k", "v": []}
        use["v"] = (["n10"] if use["t"] == 15 else []) + ["b" + hx(sfx)]
    pool2 = pool + [straddler] * 3 + [b".".join(labels[i:]) for i in range(1, len(labels))]
    post = [_clean_rr(rng, pool2) for _ in range(rng.choice([0, 1, 2, 3]))]
    post.insert(rng.randint(0, len(post)), use)
    if rng.random() < 0.3:
        post.append(dict(use, ttl=8))                          # the same use once more
    # fillers: sized from the position the straddler has when they are empty
    nfill = 2 if B >= 0x10000 else rng.choice([1, 1, 2])
    fills = [_filler(rng, 0, rng.choice(known + [b"pad.example", b"f", b""])) for _ in range(nfill)]
    before = pre + fills
    rng.shuffle(before)
    recs = before + [rec] + post
    an, ns, ad = _split3(rng, recs)
    m = {"q": q, "an": an, "ns": ns, "ad": ad}
    m["hdr"] = [rng.randrange(65536), rng.choice([0, 1]), rng.randrange(16), 0, 0, rng.choice([0, 1]), rng.randrange(16), 0, 0, 0, 0]
    pat = bytes([len(tok)]) + tok + bytes([len(mid[0])]) + mid[0]
    try:
        S0 = _wire(m).find(pat)
    except Exception:
        return None
    need = S - S0
    if S0 < 0 or need < 0 or need > 64000 * nfill:
        return None
    parts = [need] if nfill == 1 else [need // 2 + rng.randint(-min(200, need // 2), min(200, need // 2))]
    if nfill == 2:
        parts.append(need - parts[0])
    for f, n in zip(fills, parts):
        g = _filler(rng, n, unhx(f["n"]))
        f.clear()
        f.update(g)
    try:
        w = _wire(m)
    except Exception:
        return None
    if w.find(pat) != S:                                       # (a filler's kind changed its fixed part: adjust once)
        d = S - w.find(pat)
        z = [v for v in fills[0]["v"] if v[:1] == "z"][0]
        n, _, fb = z[1:].partition("/")
        if int(n) + d < 0:
            return None
        fills[0]["v"][fills[0]["v"].index(z)] = f"z{int(n) + d}/{fb}"
        try:
            w = _wire(m)
        except Exception:
            return None
        if w.find(pat) != S:
            return None
    full = len(w)
    r = rng.random()
    if r < 0.6:
        size = 0
    elif r < 0.7:
        size = rng.choice([65535, full, full + 1])
    elif r < 0.95:
        size = max(12, rng.choice([full - 1, full - 2, T, T + 1, T + 2, T - 1, S, S + 1, rng.randint(S, full), rng.randint(S, full)]))
    else:
        size = 512
    m["hdr"][8] = size
    return {"op": "rt", "m": m, "at": f"{'%#x' % B}:{where}:{j}/{len(labels)}{'+ptr' if tail else ''}"}


# ------------------------------------------------------------------------------------------------
# generators for the histories (see "objects with a history" below), for every cut point inside a record of every
# type, and for long pointer chains / long names

def _wf_case(c):
    m = _x(c["m"])
    ok, names = D.msg_ok(m, edns=c["op"] == "edns")
    return ok and all(D.labels_ok(n) for n in names)


def _dup_items(rng, m):
    """repeat some questions / records of the message (so that `share` has equal items to make one object of)"""
    for sec in ("q", "an", "ns", "ad"):
        for _ in range(rng.choice([0, 0, 1, 2])):
            if m[sec] and len(m[sec]) < 8:
                x = rng.choice(m[sec])
                tgt = m[sec] if sec == "q" else m[rng.choice(["an", "ns", "ad"])]
                tgt.insert(rng.randint(0, len(tgt)), x)


def _xfer_case(rng):
    pool = []
    q = [[hx(_name(rng, pool, 0)), rng.choice(TYPES), 1] for _ in range(rng.choice([0, 1, 1, 2]))]
    q = [x for x in q if D.labels_ok(unhx(x[0]))]
    pool[:] = [n for n in pool if D.labels_ok(n)]
    recs = [_clean_rr(rng, pool, _NAME_TYPES if rng.random() < 0.6 else None) for _ in range(rng.randint(1, 6))]
    an, ns, ad = _split3(rng, recs)
    src = {"hdr": [rng.randrange(65536), 1, 0, 0, 0, rng.choice([0, 1]), 0, 0, 0, 0, 0], "q": q, "an": an, "ns": ns, "ad": ad}
    flat = [("q", x) for x in q] + [("r", x) for x in an + ns + ad]
    # the new message: other questions in front (names from the source's pool: the compression context changes), the
    # source's records in another order / a subset / twice, a few fresh records in between
    known = [n for n in pool if n] or [b"example.org"]
    nq, nmap = [], []
    for _ in range(rng.choice([0, 1, 1, 2])):
        if q and rng.random() < 0.4:
            i = rng.randrange(len(q))
            nq.append(q[i])
            nmap.append(i)
        else:
            n = rng.choice(known)
            if rng.random() < 0.5:
                n = b".".join(n.split(b".")[rng.randrange(len(n.split(b"."))):])
            if rng.random() < 0.3:
                n = rng.choice(_LABELS[:9]) + b"." + n
            if rng.random() < 0.2:
                n = _flip(rng, n)
            nq.append([hx(n), rng.choice(TYPES), 1])
            nmap.append(-1)
    items = []
    idx = list(range(len(q), len(flat)))
    rng.shuffle(idx)
    for i in idx[:rng.randint(1, len(idx))]:
        items.append((flat[i][1], i))
        if rng.random() < 0.15:
            items.append((flat[i][1], i))
    for _ in range(rng.choice([0, 0, 1, 2])):
        items.insert(rng.randint(0, len(items)), (_clean_rr(rng, pool), -1))
    a, b, cc = _split3(rng, items)
    m = {"hdr": _hdr(rng, 0), "q": nq, "an": [x for x, _ in a], "ns": [x for x, _ in b], "ad": [x for x, _ in cc]}
    m["hdr"][8] = 0
    if rng.random() < 0.2:
        full = _full_size(m) or 100
        m["hdr"][8] = max(12, rng.choice([full, full - 1, rng.randint(12, full), 512]))
    h = {"k": "xfer", "src": src, "map": nmap + [i for _, i in a + b + cc]}
    if rng.random() < 0.25:
        h["share"] = True
    return {"op": "rt", "m": m, "h": h}


def _hist_case(rng):
    r = rng.random()
    if r < 0.3:
        return _xfer_case(rng)
    c = _edns_case(rng) if rng.random() < 0.25 else _rt_case(rng) if rng.random() < 0.9 else (_offset_case_try(rng, "quick") or _rt_case(rng))
    m = c["m"]
    if rng.random() < 0.5:
        _dup_items(rng, m)
    nrec = len(m["an"]) + len(m["ns"]) + len(m["ad"])
    r = rng.random()
    if r < 0.25:
        h = {"k": "twice"}
    elif r < 0.65:
        h = {"k": "edit", "drop": rng.choice([0, 1, 1, 2, 3]), "hdr": None, "was": None}
        if rng.random() < 0.4:                                   # another id / other flags the first time (the same maxSize)
            hd = _hdr(rng, m["hdr"][8])
            if rng.random() < 0.5:
                hd = m["hdr"][:1] + hd[1:]
            h["hdr"] = hd[:11]
        if nrec and m["hdr"][8] == 0 and rng.random() < 0.5:     # one record was another record the first time
            i = rng.randrange(nrec)
            old = (m["an"] + m["ns"] + m["ad"])[i]
            new = _clean_rr(rng, [unhx(old["n"])] if D.labels_ok(unhx(old["n"])) else [], [old["t"]] if old["t"] in D.KINDS and rng.random() < 0.7 else None)
            if rng.random() < 0.7:
                new["n"] = old["n"] if D.labels_ok(unhx(old["n"])) else new["n"]
            h["was"] = [i, new]
        if not h["drop"] and not h["hdr"] and not h["was"]:
            h["drop"] = 1
    elif r < 0.85 and c["op"] == "rt":
        h = {"k": "reenc"}
    else:
        h = {}
    if rng.random() < (0.3 if h else 1.0):
        h["share"] = True
    c = dict(c, h=h)
    return c


def _rich_rr(rng, t, pool):
    """a well-formed record of TYPE t (0: an UnknownRecord) with as much RDATA as a few tries give"""
    best = None
    for _ in range(6):
        if t == 0:
            r = {"n": hx(rng.choice(pool)), "t": rng.choice([41, 65280, 255]), "c": 1, "ttl": 60, "pk": "u", "v": ["b" + hx(_bytes(rng, rng.randint(3, 12)))]}
        else:
            r = _clean_rr(rng, list(pool), [t])
        size = sum(len(v) for v in r["v"])
        if size < 110 and (best is None or size > sum(len(v) for v in best["v"])):
            best = r
    return best or r


def _cut_sweep(rng, types=None):
    """for every record type: a small message with a record of that type in the middle, encoded under every size limit from
    the first byte of that record to one past its last byte (the cut falls in the owner name, in the fixed part, inside and
    between all the fields of the RDATA)"""
    pool = [b"example.com", b"mail.example.com", b"ns.Example.org"]
    a = lambda n, ip: {"n": hx(n), "t": 1, "c": 1, "ttl": 60, "pk": "k", "v": [ip]}  # noqa: E731
    for t in ([0] + TYPES if types is None else types):
        rec = _rich_rr(rng, t, pool)
        before = [a(b"example.com", "b0a000001")]
        after = [a(b"www.example.com", "b0a000002")]
        secs = rng.choice([(before + [rec] + after, [], []), (before, [rec], after), (before, [], [rec] + after), ([rec], after, [])])
        m = {"hdr": [rng.randrange(65536), 1, 0, 0, 0, rng.choice([0, 1]), 0, 0, 0, 0, 0], "q": [[hx(b"example.com"), t or 255, 1]],
             "an": secs[0], "ns": secs[1], "ad": secs[2]}
        flat = secs[0] + secs[1] + secs[2]
        i = flat.index(rec)
        try:
            lo = _full_size(dict(m, an=flat[:i], ns=[], ad=[]))
            hi = _full_size(dict(m, an=flat[:i + 1], ns=[], ad=[]))
        except Exception:
            continue
        if lo is None or hi is None:
            continue
        for size in range(lo, min(hi, lo + 120) + 2):
            yield {"op": "rt", "m": dict(m, hdr=m["hdr"][:8] + [size] + m["hdr"][9:]), "cut": f"t{t}"}


def _chain_case(rng):
    """names that extend one another label by label: name k is one label + a pointer to name k-1, so decoding it follows
    k-1 pointers (depths up to 130: more hops than any loop guard should mistake for a loop); names longer than 255
    bytes made of legal labels; the longest name first (every later one is a bare pointer)"""
    depth = rng.choice([3, 8, 15, 16, 17, 18, 19, 20, 31, 32, 33, 40, 63, 64, 65, 100, 127, 128, 130])
    lab = lambda i: rng.choice([b"%d" % i, b"l%d" % i, b"x" * rng.choice([1, 5, 63]), rng.choice(_LABELS[:11])])  # noqa: E731
    names, n = [], rng.choice([b"z", b"example.com", b"y" * 63])
    for i in range(depth):
        names.append(n)
        n = lab(i) + b"." + n
    order = rng.random()
    if order < 0.15:
        names.reverse()
    elif order < 0.3:
        rng.shuffle(names)
    if rng.random() < 0.5:                                      # keep only some of them: hops between 1 and depth
        names = [x for x in names if rng.random() < 0.7] or names
    m = {"hdr": [rng.randrange(65536), 1, 0, 0, 0, rng.choice([0, 1]), 0, 0, 0, 0, 0], "q": [], "an": [], "ns": [], "ad": []}
    for x in names:
        w = rng.random()
        if w < 0.3 and len(m["q"]) < 40 and not (m["an"] or m["ns"] or m["ad"]):
            m["q"].append([hx(x), 1, 1])
        elif w < 0.6:
            m[rng.choice(["an", "ns", "ad"])].append({"n": hx(x), "t": 1, "c": 1, "ttl": 5, "pk": "k", "v": ["b0a000001"]})
        else:
            t = rng.choice([2, 5, 12, 15, 33] if len(x) < 300 else [2, 5, 12, 15])
            m[rng.choice(["an", "ns", "ad"])].append({"n": hx(rng.choice([b"", b"o.example", names[0]])), "t": t, "c": 1, "ttl": 5, "pk": "k",
                                                      "v": {15: ["n1"], 33: ["n1", "n2", "n3"]}.get(t, []) + ["b" + hx(x)]})
    # sections in wire order: an, ns, ad were filled at random, so the chain is not monotone across sections - fine
    r = rng.random()
    if r > 0.8:
        full = _full_size(m) or 100
        m["hdr"][8] = max(12, rng.choice([full, full - 1, rng.randint(12, full)]))
    return {"op": "rt", "m": m, "chain": depth}


def _offset_corpus():
    """fixed messages with a name at a chosen offset: a filler record (owner b"f": 3 + 10 bytes before its RDATA) puts the
    next record at `start`"""
    def rr(n, t, *v, ttl=60):
        return {"n": hx(n), "t": t, "c": 1, "ttl": ttl, "pk": "k", "v": list(v)}

    def at(start, recs, later=(), size=0, q=(), fb="00", note=""):
        qs = [[hx(n), 1, 1] for n in q]
        n = start - 25 - sum(len(x) + 6 for x in q)
        return {"op": "rt", "at": note, "m": {"hdr": [0x1234, 1, 0, 0, 0, 0, 0, 0, size, 0, 0], "q": qs,
                "an": [rr(b"f", 10, f"z{n}/{fb}")] + list(recs), "ns": [], "ad": list(later)}}
    a = lambda n, ip="b0a000001": rr(n, 1, ip)  # noqa: E731
    nb = lambda s: "b" + hx(s)  # noqa: E731
    uses = [a(b"straddle.example", "b0a000002"), rr(b"bbbb.Straddle.example", 15, "n10", nb(b"mail.straddle.example"))]
    out = []
    # the owner name aaaa.straddle.example starts below 2^14; `straddle` / `example` / the final zero start at, just
    # before and just after 2^14; then straddle.example, example and mail.straddle.example are used again
    for start in (0x4000 - 5, 0x4000 - 6, 0x4000 - 4, 0x4000 - 14, 0x4000 - 13, 0x4000 - 22, 0x4000 - 1, 0x4000):
        out.append(at(start, [a(b"aaaa.straddle.example")] + uses + [a(b"example", "b0a000003")], note=f"corpus:owner@{start:#x}"))
    # ... with the re-use in a later section, with other filler bytes, and with a size limit cutting after / inside the re-use
    out.append(at(0x4000 - 5, [a(b"aaaa.straddle.example")], later=uses, fb="c0", note="corpus:later-section"))
    out.append(at(0x4000 - 5, [a(b"aaaa.straddle.example")] + uses, size=0x4000 + 40, note="corpus:cut-after"))
    out.append(at(0x4000 - 5, [a(b"aaaa.straddle.example")] + uses, size=0x4000 + 2, note="corpus:cut-inside"))
    # the straddling name inside RDATA: MX exchange (compressed), SOA rname, SRV target (written uncompressed: records nothing)
    out.append(at(0x4000 - 20, [rr(b"x", 15, "n5", nb(b"mx.straddle.example"))] + uses, note="corpus:rdata-mx"))
    out.append(at(0x4000 - 40, [rr(b"x", 6, nb(b"ns.zone.example"), nb(b"admin.straddle.example"), "n1", "i2", "i3", "i4", "n5")]
                  + uses, note="corpus:rdata-soa"))
    out.append(at(0x4000 - 24, [rr(b"x", 33, "n1", "n2", "n3", nb(b"sip.straddle.example"))] + uses, note="corpus:rdata-srv"))
    # a pointer (to the question's name) whose two bytes start at 2^14 - 1 / 2^14; the name in front of it is used again
    for start in (0x4000 - 6, 0x4000 - 5, 0x4000 - 7):
        out.append(at(start, [a(b"aaaa.example.com"), a(b"aaaa.example.com", "b0a000002"), a(b"bb.aaaa.example.com")],
                      q=[b"example.com"], note=f"corpus:ptr@{start + 5:#x}"))
    # the largest pointer there is (target 2^14 - 1) and the first offset that has none
    for start in (0x4000 - 1, 0x4000):
        out.append(at(start, [a(b"last.example"), a(b"last.example", "b0a000002"), a(b"example", "b0a000003")], note=f"corpus:target@{start:#x}"))
    # offsets that agree with an earlier name's offset in their low 14 bits: question name at 12, same-shaped name at 2^15 + 12
    for start in (0x8000 + 12, 0xC000 + 12):
        out.append(at(start, [a(b"bbbbbbb.org"), a(b"bbbbbbb.org", "b0a000002"), a(b"org", "b0a000003")], q=[b"example.com"],
                      note=f"corpus:alias@{start:#x}"))
    # the straddling name in the QUESTION section: 64 questions with long, pairwise unrelated names (a dictionary of 250 entries)
    # put the question aaaa.straddle.example at 2^14 - 5; the answers use its suffixes
    lab = lambda i, j, n: (b"%02d%d" % (i, j)).ljust(n, b"x")  # noqa: E731
    qn = [b".".join([lab(i, 0, 63), lab(i, 1, 63), lab(i, 2, 63), lab(i, 3, 59)]) for i in range(63)]
    qn.append(b".".join([lab(63, 0, 63), lab(63, 1, 63), lab(63, 2, 42)]))
    out.append({"op": "rt", "at": "corpus:question-straddle", "m": {
        "hdr": [0x1234, 1, 0, 0, 0, 0, 0, 0, 0, 0, 0], "q": [[hx(n), 1, 1] for n in qn + [b"aaaa.straddle.example"]],
        "an": uses + [a(qn[5].split(b".", 1)[1], "b0a000004")], "ns": [], "ad": []}})
    # a pointer target in every power-of-two band below 2^14 (each bit of the 14-bit offset)
    for k in range(5, 14):
        out.append(at((1 << k) + 1, [a(b"n%d.example" % k), a(b"n%d.example" % k, "b0a000002"), rr(b"w", 5, nb(b"example"))],
                      note=f"corpus:target@{(1 << k) + 1:#x}"))
    return out


def _history_corpus():
    rr = lambda n, t, *v, ttl=60: {"n": hx(n), "t": t, "c": 1, "ttl": ttl, "pk": "k", "v": list(v)}  # noqa: E731
    nb = lambda x: "b" + hx(x)  # noqa: E731
    hdr = lambda i, size=0: [i, 1, 0, 0, 0, 0, 0, 0, size, 0, 0]  # noqa: E731
    mx = rr(b"example.com", 15, "n10", nb(b"mail.example.com"))
    soa = rr(b"example.com", 6, nb(b"ns.example.com"), nb(b"admin.example.com"), "n1", "i2", "i3", "i4", "n5")
    a = rr(b"mail.example.com", 1, "b0a000001")
    src = {"hdr": hdr(1), "q": [], "an": [mx, soa], "ns": [], "ad": []}
    out = [
        # decoded MX / SOA records answer another question: their RDATA names now compress onto the question's name
        {"op": "rt", "m": {"hdr": hdr(2), "q": [[hx(b"mail.example.com"), 15, 1]], "an": [mx], "ns": [soa], "ad": [a]},
         "h": {"k": "xfer", "src": src, "map": [-1, 0, 1, -1]}},
        {"op": "rt", "m": {"hdr": hdr(2), "q": [[hx(b"admin.example.com"), 6, 1]], "an": [soa, mx], "ns": [], "ad": []},
         "h": {"k": "xfer", "src": src, "map": [-1, 1, 0], "share": True}},
        # a reply that was encoded, then got more records / another record / another id, and is encoded again
        {"op": "rt", "m": {"hdr": hdr(3), "q": [[hx(b"example.com"), 15, 1]], "an": [mx], "ns": [soa], "ad": [a, a]},
         "h": {"k": "edit", "drop": 2, "hdr": None, "was": None}},
        {"op": "rt", "m": {"hdr": hdr(3), "q": [[hx(b"example.com"), 1, 1]], "an": [rr(b"example.com", 1, "b05060708")], "ns": [], "ad": []},
         "h": {"k": "edit", "drop": 0, "hdr": None, "was": [0, rr(b"example.com", 1, "b01020304")]}},
        {"op": "rt", "m": {"hdr": hdr(4), "q": [[hx(b"example.com"), 15, 1]], "an": [mx], "ns": [], "ad": [a]},
         "h": {"k": "edit", "drop": 0, "hdr": [5, 0, 2, 1, 1, 1, 3, 0, 0, 1, 1], "was": None}},
        {"op": "rt", "m": {"hdr": hdr(4, 40), "q": [[hx(b"example.com"), 15, 1]], "an": [mx, mx], "ns": [], "ad": [a]}, "h": {"k": "twice", "share": True}},
        {"op": "rt", "m": {"hdr": hdr(4), "q": [[hx(b"example.com"), 15, 1]], "an": [mx, soa], "ns": [], "ad": [a]}, "h": {"k": "reenc"}},
        {"op": "rt", "m": {"hdr": hdr(4, 60), "q": [[hx(b"example.com"), 15, 1]], "an": [mx, soa], "ns": [], "ad": [a]}, "h": {"k": "reenc"}},
        # an _EDNSMessage encoded twice / after another record was added (its OPT record is made anew each time)
        {"op": "edns", "m": {"hdr": hdr(6, 512) + [0, 0], "q": [[hx(b"example.com"), 1, 1]], "an": [], "ns": [], "ad": []}, "h": {"k": "twice"}},
        {"op": "edns", "m": {"hdr": hdr(6, 1232) + [0, 1], "q": [[hx(b"example.com"), 1, 1]], "an": [mx], "ns": [], "ad": [a]},
         "h": {"k": "edit", "drop": 1, "hdr": None, "was": None}},
    ]
    # a chain of 130 names, each one label longer than the one before (decoding the last follows 129 pointers), as
    # questions and as NS targets; a name of 6 x 63 bytes
    chain = [b"z"]
    for i in range(129):
        chain.append(b"%d." % i + chain[-1])
    out.append({"op": "rt", "chain": 130, "m": {"hdr": hdr(7), "q": [[hx(n), 1, 1] for n in chain], "an": [], "ns": [], "ad": []}})
    out.append({"op": "rt", "chain": 130, "m": {"hdr": hdr(7), "q": [], "an": [rr(b"", 2, nb(n)) for n in chain[:40]], "ns": [], "ad": []}})
    long = b".".join(bytes([97 + i]) * 63 for i in range(6))
    out.append({"op": "rt", "chain": 1, "m": {"hdr": hdr(8), "q": [[hx(long), 1, 1]], "an": [rr(long, 5, nb(b"w." + long))], "ns": [], "ad": []}})
    # a cut inside the RDATA of record types whose decoder is given the RDATA length
    sshfp = rr(b"host.example.com", 44, "n1", "n2", nb(bytes(range(20))))
    tsig = rr(b"key.example.com", 250, nb(b"hmac-md5.sig-alg.reg.int"), "n1", "n300", nb(b"M" * 16), "n7", "n0", nb(b"other!"))
    hinfo = rr(b"host.example.com", 13, nb(b"cpu-type"), nb(b"operating-system"))
    for r in (sshfp, tsig, hinfo):
        full = _full_size({"hdr": hdr(9), "q": [], "an": [r], "ns": [], "ad": []})
        for cut in (1, 3, 7):
            out.append({"op": "rt", "cut": f"t{r['t']}", "m": {"hdr": hdr(9, full - cut), "q": [], "an": [r], "ns": [], "ad": []}})
    return out


def corpus():
    q = lambda n: {"op": "rt", "m": {"hdr": [1, 0, 0, 1, 0, 0, 0, 0, 0, 0, 0], "q": [[hx(n), 1, 1]], "an": [], "ns": [], "ad": []}}  # noqa: E731
    big = {"op": "rt", "m": {"hdr": [7, 1, 0, 0, 0, 0, 0, 0, 0, 0, 0], "q": [], "an": [
        {"n": hx(b"pad.example"), "t": 10, "c": 1, "ttl": 0, "pk": "k", "v": ["b" + "00" * 16400]},
        {"n": hx(b"late.example.net"), "t": 1, "c": 1, "ttl": 0, "pk": "k", "v": ["b01020304"]},
        {"n": hx(b"late.example.net"), "t": 1, "c": 1, "ttl": 0, "pk": "k", "v": ["b05060708"]}], "ns": [], "ad": []}}
    txt = lambda n: {"n": hx(n), "t": 16, "c": 1, "ttl": 5, "pk": "k", "v": ["l" + hx(b"a" * 200)]}  # noqa: E731
    edns_big = {"op": "edns", "m": {"hdr": [3, 1, 0, 0, 0, 0, 0, 0, 4096, 0, 0, 0, 0], "q": [],
                                    "an": [txt(b"x.example.com")] * 4, "ns": [], "ad": []}}
    edns_small = {"op": "edns", "m": {"hdr": [3, 1, 0, 0, 0, 0, 0, 0, 100, 0, 0, 0, 0], "q": [],
                                      "an": [txt(b"x.example.com")], "ns": [], "ad": []}}
    a6 = lambda p, s: {"op": "rt", "m": {"hdr": [1, 1, 0, 0, 0, 0, 0, 0, 0, 0, 0], "q": [], "an": [  # noqa: E731
        {"n": hx(b"h.example"), "t": 38, "c": 1, "ttl": 1, "pk": "k", "v": [f"a{p}/{s}/{hx(b'p.example') if p else '-'}"]}],
        "ns": [], "ad": []}}
    return [
        q(b"L" * 64), q(b"P" * 200), q(b"a." + b"L" * 64 + b".com"), q(b"y" * 63), q(b"R" * 256), q(b""), q(b"example.com"),
        q(b"a."), q(b".foo"), q(b"a..b"), big, edns_big, edns_small,
        a6(0, "20010db8000000000000000000000001"), a6(64, "00000000000000000000000000000001"),
        a6(1, "7fffffffffffffffffffffffffffffff"), a6(121, "0000000000000000000000000000007f"), a6(128, "00" * 16),
        {"op": "rt", "m": {"hdr": [9, 1, 0, 0, 0, 1, 0, 0, 40, 0, 0], "q": [[hx(b"example.com"), 15, 1]], "an": [
            {"n": hx(b"example.com"), "t": 15, "c": 1, "ttl": 9, "pk": "k", "v": ["n10", "b" + hx(b"mail.example.com")]},
            {"n": hx(b"EXAMPLE.com"), "t": 15, "c": 1, "ttl": 9, "pk": "k", "v": ["n20", "b" + hx(b"mail2.example.com")]}],
            "ns": [], "ad": []}},
        # RDLENGTH overflow: 65536 bytes of RDATA -> struct.error; 65535 is fine
        {"op": "rt", "m": {"hdr": [5, 1, 0, 0, 0, 0, 0, 0, 0, 0, 0], "q": [], "an": [
            {"n": hx(b"big.example"), "t": 10, "c": 1, "ttl": 0, "pk": "k", "v": ["b" + "00" * 65536]}], "ns": [], "ad": []}},
        {"op": "rt", "m": {"hdr": [5, 1, 0, 0, 0, 0, 0, 0, 0, 0, 0], "q": [], "an": [
            {"n": hx(b"big.example"), "t": 10, "c": 1, "ttl": 0, "pk": "k", "v": ["b" + "00" * 65535]}], "ns": [], "ad": []}},
        # a 64-byte label inside an RDATA, after a record that encodes: ValueError from Message.toStr
        {"op": "rt", "m": {"hdr": [6, 1, 0, 0, 0, 0, 0, 0, 0, 0, 0], "q": [[hx(b"example.com"), 15, 1]], "an": [
            {"n": hx(b"example.com"), "t": 15, "c": 1, "ttl": 9, "pk": "k", "v": ["n10", "b" + hx(b"mail.example.com")]},
            {"n": hx(b"example.com"), "t": 15, "c": 1, "ttl": 9, "pk": "k", "v": ["n20", "b" + hx(b"mx." + b"x" * 64 + b".example.com")]}],
            "ns": [], "ad": []}},
        {"op": "opt", "hdr": [4096, 0, 0, 1], "opts": [[3, hx(b"nsid")], [10, hx(b"\x01" * 8)]]},
        {"op": "dec", "data": (b"\x00" * 5 + b"\x01" + b"\x00" * 6 + b"\xc0\x0c\x00\x01\x00\x01").hex()},
        {"op": "dec", "data": ""},
    ] + _offset_corpus() + _history_corpus()


def generate(rng, tier):
    n = 900 if tier == "quick" else 30000
    nbig = 3 if tier == "quick" else 40
    for i in range(n):
        r = rng.random()
        if r < 0.62:
            yield _rt_case(rng)
        elif r < 0.78:
            yield _edns_case(rng)
        elif r < 0.84:
            yield _opt_case(rng)
        else:
            yield _dec_case(rng)
    for i in range(nbig):
        yield _rt_case(rng, big=True)
    # objects with a history: decoded records in a new message, an object encoded before and changed since, shared objects
    for i in range(260 if tier == "quick" else 6000):
        yield _hist_case(rng)
    # every cut point inside a record of every type
    for i in range(1 if tier == "quick" else 8):
        yield from _cut_sweep(rng)
    # long pointer chains, names over 255 bytes
    for i in range(40 if tier == "quick" else 600):
        yield _chain_case(rng)
    # names placed at chosen offsets: straddling 2^14 (and 2^15, 3*2^14, 2^16), pointer targets up to 2^14 - 1
    for i in range(90 if tier == "quick" else 700):
        yield _offset_case(rng, tier)
    if tier != "quick":                          # every size limit from just before a name straddling 2^14 to the full size
        for _ in range(20):
            c = _offset_case_try(rng, tier)
            if c is None or not c["at"].startswith("0x4000:") or c["at"].split(":")[2].startswith("0/"):
                continue
            full = _full_size(c["m"])
            if full is None or full > 0x4000 + 140:
                continue
            for size in range(0x4000 - 30, full + 1):
                yield dict(c, m=dict(c["m"], hdr=c["m"]["hdr"][:8] + [size] + c["m"]["hdr"][9:]))
            break
    # the truncation clause at every cut point: maxSize = 12 .. full size, for a few well-formed messages
    nall = 2 if tier == "quick" else 12
    done = 0
    for _ in range(200):
        if done >= nall:
            break
        m = _message(rng)
        inrange, names = D.msg_ok(m)
        full = _full_size(m)
        if not inrange or not all(D.labels_ok(n) for n in names) or full is None or not 40 <= full <= (160 if tier == "quick" else 400):
            continue
        done += 1
        for size in range(12, full + 1):
            yield {"op": "rt", "m": dict(m, hdr=m["hdr"][:8] + [size] + m["hdr"][9:])}


# ------------------------------------------------------------------------------------------------
# objects with a history.  The statement quantifies over messages, not over freshly built objects: a message whose
# records were DECODED from another message (a forwarder / the cache), a message object that was ENCODED BEFORE and
# changed since (a retry, a reply filled in step by step), records / names that are ONE object used in several places,
# a decoder object that was used before.  A case carries its history in c["h"]; `_encode` replays it on the real code
# and returns the bytes whose round trip is observed (run_impl) and judged (oracle).  For the model a message is a
# value, so the model line is the plain `rt` / `edns` line of the final message (`rt2` for k=reenc): the tie then says
# that the real encoder is a function of the message's value alone.
#   {"k":"twice"}                     toStr() twice on the same object, the second result is observed
#   {"k":"edit","drop":n,"hdr":h|None,"was":[i, rr]|None}
#                                     the object is first encoded WITHOUT its last n records (of its last non-empty section),
#                                     with header h (same maxSize) and with record i (flat index) being rr; then the records are
#                                     appended in place, record i is replaced, the header attributes are set, and it is encoded again
#   {"k":"xfer","src":A,"map":[..]}   A (well-formed, no limit) is encoded and decoded; item j of the message (flat: questions,
#                                     answers, authority, additional) IS the decoded object number map[j] of A when map[j] >= 0
#   {"k":"reenc"}                     the message is encoded, decoded, the decoded object gets the maxSize back and is encoded again
#   "share": true (any k, or alone)   equal names are ONE Name object, equal payloads ONE record object, equal items ONE
#                                     Query / RRHeader object throughout the message
#   {"k":"redec","first":hex}         (decoding side) the Message that decodes the observed bytes has decoded `first` before

def _secs(msg):
    return [msg.answers, msg.authority, msg.additional]


def _share(msg, m):
    names = {}

    def nm(o):
        return names.setdefault(o.name, o)
    for q in msg.queries:
        q.name = nm(q.name)
    pay = {}
    for lst, sec in zip(_secs(msg), ("an", "ns", "ad")):
        for r, rd in zip(lst, m[sec]):
            r.name = nm(r.name)
            p = r.payload
            if p is None:
                continue
            if type(p) is dns.Record_A6:
                p.prefix = nm(p.prefix)
            for attr, kind in D.ATTRS.get(type(p), ()):
                if kind == "N":
                    setattr(p, attr, nm(getattr(p, attr)))
            r.payload = pay.setdefault(json.dumps([rd["t"], rd["ttl"], rd["pk"], rd["v"]]), p)
    memo = {}
    for i, (q, qd) in enumerate(zip(msg.queries, m["q"])):
        msg.queries[i] = memo.setdefault(json.dumps(qd), q)
    for lst, sec in zip(_secs(msg), ("an", "ns", "ad")):
        for i, (r, rd) in enumerate(zip(lst, m[sec])):
            lst[i] = memo.setdefault(json.dumps(rd, sort_keys=True), r)


_HDR_ATTRS = ["id", "answer", "opCode", "recDes", "recAv", "auth", "rCode", "trunc", "maxSize", "authenticData", "checkingDisabled"]


def _build(c, m=None):
    m = _x(c["m"]) if m is None else m
    return D.build_message(m) if c["op"] == "rt" else D.build_edns(m)


def _encode(c):
    """the bytes the real encoder produces for the case's message, after the case's history (exceptions propagate)"""
    m = _x(c["m"])
    h = c.get("h") or {}
    k = h.get("k")
    msg = _build(c, m)
    if k == "xfer":
        src = _x(h["src"])
        a = dns.Message()
        a.fromStr(D.build_message(src).toStr())
        flat = a.queries + a.answers + a.authority + a.additional
        if len(flat) != len(src["q"]) + len(src["an"]) + len(src["ns"]) + len(src["ad"]):
            raise AssertionError("xfer: the source message did not decode to all its items")
        j = 0
        for lst in [msg.queries] + _secs(msg):
            for i in range(len(lst)):
                if j < len(h["map"]) and h["map"][j] >= 0 and type(flat[h["map"][j]]) is type(lst[i]):
                    lst[i] = flat[h["map"][j]]
                j += 1
    if h.get("share"):
        _share(msg, m)
    if k == "twice":
        msg.toStr()
    elif k == "edit":
        secs = [s for s in _secs(msg) if s]
        held = []
        if secs and h.get("drop"):
            n = min(h["drop"], len(secs[-1]))
            held = secs[-1][len(secs[-1]) - n:]
            del secs[-1][len(secs[-1]) - n:]
        was = h.get("was")
        flat = [(lst, i) for lst in _secs(msg) for i in range(len(lst))]
        final = None
        if was and was[0] < len(flat):
            lst, i = flat[was[0]]
            final = (lst, i, lst[i])
            lst[i] = D.build_rr(_x({"q": [], "an": [was[1]], "ns": [], "ad": []})["an"][0], m["hdr"][5])
        if h.get("hdr"):
            for a, v in zip(_HDR_ATTRS, h["hdr"]):
                if a != "maxSize":
                    setattr(msg, a, v)
        try:
            msg.toStr()
        except Exception:
            pass
        if secs and held:
            secs[-1].extend(held)
        if final:
            final[0][final[1]] = final[2]
        for a, v in zip(_HDR_ATTRS, m["hdr"]):
            setattr(msg, a, v)
    elif k == "reenc":
        d = dns.Message()
        d.fromStr(msg.toStr())
        d.maxSize = m["hdr"][8]
        msg = d
    return msg.toStr()


def _decoder(c):
    """the object that decodes the observed bytes: fresh, or (k=redec) one that has decoded another message before"""
    back = dns.Message() if c["op"] == "rt" else dns._EDNSMessage()
    h = c.get("h") or {}
    if h.get("k") == "redec":
        try:
            back.fromStr(bytes.fromhex(h["first"]))
        except Exception:
            pass
    return back


# ------------------------------------------------------------------------------------------------
# both sides

def _msg_text(m):
    return D.case_text(m)


def model_line(c):
    op = c["op"]
    if op in ("rt", "edns"):
        m = _x(c["m"])
        try:                                   # queue the real encoder's bytes for the batched RFC reader (oracle)
            D.rfc_want(_encode(c))
        except Exception:
            pass
        k = (c.get("h") or {}).get("k")
        if k == "redec":
            return None                        # a decoder with a past: judged by the oracle only
        return ("rt2 " if k == "reenc" else f"{op} ") + _msg_text(m)
    if op == "opt":
        return "opt " + " ".join([",".join(str(x) for x in c["hdr"])] + [f"{code}:{d}" for code, d in c["opts"]])
    if op == "dec":
        return "dec " + (c["data"] or "-")
    return "bad"


def _exc(e):
    return "!raised " + type(e).__name__


def _build_opt(c):
    u, e, v, d = c["hdr"]
    return dns._OPTHeader(udpPayloadSize=u, extendedRCODE=e, version=v, dnssecOK=d,
                          options=[dns._OPTVariableOption(code, unhx(data)) for code, data in c["opts"]])


def _show_opt(o):
    opts = ["none"] if o.options is None else [f"{x.code}:{hx(x.data)}" for x in o.options]
    return " ".join([f"{o.udpPayloadSize},{o.extendedRCODE},{o.version},{int(o.dnssecOK)}"] + opts)


def run_impl(c):
    from io import BytesIO
    op = c["op"]
    try:
        if op == "rt":
            enc = _encode(c)
            back = _decoder(c)
            try:
                back.fromStr(enc)
            except (EOFError, ValueError, struct.error, TypeError) as e:
                return f"enc={hx(enc)} dec={_exc(e)}"
            return f"enc={hx(enc)} dec={D.show_message(back)}"
        if op == "edns":
            enc = _encode(c)
            back = _decoder(c)
            try:
                back.fromStr(enc)
            except (EOFError, ValueError, struct.error, TypeError) as e:
                return f"enc={hx(enc)} dec={_exc(e)}"
            return f"enc={hx(enc)} dec={D.show_edns(back)}"
        if op == "opt":
            s = BytesIO()
            _build_opt(c).encode(s, {})
            enc = s.getvalue()
            back = dns._OPTHeader()
            try:
                back.decode(BytesIO(enc))
            except (EOFError, ValueError, struct.error, TypeError) as e:
                return f"enc={hx(enc)} dec={_exc(e)}"
            return f"enc={hx(enc)} dec={_show_opt(back)}"
        if op == "dec":
            back = dns.Message()
            back.fromStr(bytes.fromhex(c["data"]))
            return D.show_message(back)
    except (EOFError, ValueError, struct.error, TypeError) as e:
        return _exc(e)
    return "bad-op"


# ------------------------------------------------------------------------------------------------
# the property, evaluated on the real code (independent of the Lean model of Twisted's codec)

def _fail(key, detail):
    return {"key": key, "detail": detail[:400]}


def _first_diff(got, exp):
    """the first item (question / record) in which two canonical message texts differ, long hex runs shortened"""
    g, e = got.split(" "), exp.split(" ")
    i = next((i for i, (a, b) in enumerate(zip(g, e)) if a != b), min(len(g), len(e)))
    sh = lambda x: x if len(x) <= 140 else f"{x[:100]}..({len(x)} chars)..{x[-20:]}"  # noqa: E731
    what = ["header", "number of questions", "number of answers", "number of authority records", "number of additional records"]
    what = what[i] if i < 5 else f"item {i - 5}"
    return (f"{what}: got {sh(g[i]) if i < len(g) else '<nothing>'} expected {sh(e[i]) if i < len(e) else '<nothing>'}"
            f" ({len(g) - 5} vs {len(e) - 5} items)")


def _owners(msg):
    """owner names per section, for a witness line"""
    f = lambda l: "[" + ",".join(repr(x.name.name)[1:][:40] for x in l) + "]"  # noqa: E731
    return f"q={f(msg.queries)} an={f(msg.answers)} ns={f(msg.authority)} ad={f(msg.additional)}"


def _is_prefix(short, full):
    return len(short) <= len(full) and all(a == b for a, b in zip(short, full))


def _oracle_rt(c):
    m = _x(c["m"])
    inrange, names = D.msg_ok(m)
    if not inrange:
        return None
    long_ = [n for n in names if D.has_long_label(n)]
    wfnames = all(D.labels_ok(n) for n in names)
    if not long_ and not wfnames:
        return None                                    # empty labels etc.: outside both clauses
    orig = D.build_message(m)
    try:
        enc = _encode(c)
    except Exception as e:
        if long_:
            return None if isinstance(e, ValueError) else _fail("refusal-class", f"unrepresentable name refused with {type(e).__name__}")
        return _fail("encode-raises", f"well-formed message: toStr raised {type(e).__name__}: {e}")
    if long_:
        n = min(long_, key=len)
        mx = max(len(l) for l in n.split(b"."))
        return _fail("label-over-63-not-refused", f"name with a {mx}-byte label was encoded ({len(enc)} bytes) instead of refused")
    maxSize = m["hdr"][8]
    full = _full_size(m)
    back = _decoder(c)
    try:
        back.fromStr(enc)
    except Exception as e:
        return _fail("decode-raises", f"decoding the encoder's own output raised {type(e).__name__} (size {len(enc)})")
    if maxSize == 0 or full <= maxSize:
        back.maxSize = orig.maxSize
        if back != orig:
            key = "pointer-offset-over-2^14" if len(enc) > 16384 else "roundtrip"
            return _fail(key, f"decode(encode(m)) != m ({len(enc)} bytes): " + _first_diff(D.show_message(back), D.case_text(m)))
        exp = dict(m, hdr=m["hdr"][:8] + [0] + m["hdr"][9:])
        got = D.rfc_read(enc)
        if got != D.case_text(exp):
            a6 = any(r["t"] == 38 and r["pk"] == "k" and D.parse_val(r["v"][0])[0] % 8 for s in ("an", "ns", "ad") for r in m[s])
            key = "a6-suffix-octets" if a6 else "independent-reader"
            return _fail(key, "RFC 1035 reader: " + _first_diff(got, D.case_text(exp)))
        return None
    if maxSize < 12:
        return None
    if len(enc) > maxSize:
        return _fail("truncation-size", f"maxSize {maxSize} but {len(enc)} bytes were produced")
    if not enc[2] & 2 or not back.trunc:
        return _fail("truncation-flag", f"message of {full} bytes cut to {len(enc)} without TC")
    ok = _is_prefix(back.queries, orig.queries) and _is_prefix(back.answers, orig.answers) \
        and _is_prefix(back.authority, orig.authority) and _is_prefix(back.additional, orig.additional)
    # a flat prefix: a later section is non-empty only if the earlier ones are complete
    secs = [(back.queries, orig.queries), (back.answers, orig.answers), (back.authority, orig.authority),
            (back.additional, orig.additional)]
    for i, (b, o) in enumerate(secs):
        if len(b) < len(o) and any(len(b2) for b2, _ in secs[i + 1:]):
            ok = False
    if not ok:
        return _fail("truncation-prefix", f"message of {full} bytes cut to {len(enc)}: decoded {_owners(back)} is not a prefix of "
                                          f"{_owners(orig)} (or a record differs)")
    return None


def _oracle_edns(c):
    m = _x(c["m"])
    inrange, names = D.msg_ok(m, edns=True)
    if not inrange or not all(D.labels_ok(n) for n in names):
        return None
    orig = D.build_edns(m)
    try:
        enc = _encode(c)
        inner = orig._toMessage()
        inner.maxSize = 0
        full = len(inner.toStr())
    except Exception as e:
        return _fail("encode-raises", f"well-formed EDNS message: toStr raised {type(e).__name__}: {e}")
    limit = m["hdr"][8]
    back = _decoder(c)
    try:
        back.fromStr(enc)
    except Exception as e:
        return _fail("decode-raises", f"decoding the encoder's own output raised {type(e).__name__}")
    if limit == 0 or full <= limit:
        if back != D.build_edns(m):
            key = "edns-maxsize-ignored" if full > 512 else "edns-roundtrip"
            return _fail(key, f"_EDNSMessage(maxSize={limit}) of {full} bytes came back different "
                              f"(encoded {len(enc)} bytes, trunc={back.trunc}, ednsVersion={back.ednsVersion})")
        return None
    if limit < 12:
        return None
    if len(enc) > limit:
        return _fail("edns-maxsize-ignored", f"_EDNSMessage(maxSize={limit}) of {full} bytes was encoded in {len(enc)} bytes")
    if not enc[2] & 2:
        return _fail("truncation-flag", f"EDNS message of {full} bytes cut to {len(enc)} without TC")
    return None


def oracle(c, out):
    op = c["op"]
    if op == "rt":
        return _oracle_rt(c)
    if op == "edns":
        return _oracle_edns(c)
    if op == "opt":
        h = c["hdr"]
        if not (h[0] < 65536 and h[1] < 256 and h[2] < 256 and all(code < 65536 for code, _ in c["opts"])):
            return None
        exp = " ".join([",".join(str(x) for x in h)] + [f"{code}:{d or '-'}" for code, d in c["opts"]])
        if not out.endswith(" dec=" + exp):
            return _fail("opt-roundtrip", f"{exp} came back as {out[-200:]}")
    return None


def shrink(c):
    if c["op"] not in ("rt", "edns"):
        return
    m = c["m"]
    h = c.get("h") or {}
    start = {"q": 0, "an": len(m["q"]), "ns": len(m["q"]) + len(m["an"]), "ad": len(m["q"]) + len(m["an"]) + len(m["ns"])}
    for sec in ("ad", "ns", "an", "q"):
        for i in range(len(m[sec])):
            c2 = dict(c, m=dict(m, **{sec: m[sec][:i] + m[sec][i + 1:]}))
            if h.get("k") == "xfer":
                j = start[sec] + i
                c2["h"] = dict(h, map=h["map"][:j] + h["map"][j + 1:])
            elif h.get("was"):
                c2["h"] = dict(h, was=None)
            yield c2
    if h.get("share"):
        yield dict(c, h={k: v for k, v in h.items() if k != "share"})


def search(rng, tier, disagreeing):
    """run when the tie or a proof breaks: names at chosen offsets (the compression dictionary's corner), large and
    ordinary messages, every cut point of a few messages"""
    for _ in range(400):
        yield _offset_case(rng, "thorough")
    for _ in range(40):
        yield _rt_case(rng, big=True)
    for _ in range(4000):
        yield _rt_case(rng) if rng.random() < 0.8 else _dec_case(rng)


def tag(c, out):
    op = c["op"]
    cls = "raise:" + out.split()[-1] if out.startswith("!") else ("dec-raise" if "dec=!" in out else "ok")
    if op in ("rt", "edns"):
        m = c["m"]
        types = sorted({(r["t"] if r["pk"] == "k" else r["pk"]) for s in ("an", "ns", "ad") for r in m[s]}, key=str)
        comp = "c0" in out[:out.find(" dec=")] if " dec=" in out else False
        tr = out.startswith("enc=") and len(out) > 12 and (int(out[8:10], 16) & 2) != 0
        at = ""
        if c.get("at"):                          # a name placed at a chosen offset: boundary, where it is, which part is there
            a = c["at"].split(":")
            at = ":@corpus" if a[0] == "corpus" else f":@{a[0] if int(a[0], 16) in _BOUNDS + [0x4000, 0x8000, 0xC000, 0x10000] else 'rnd'}:{a[1][:5]}:{a[2].split('/')[0]}"
        h = c.get("h") or {}
        if h:
            at += ":h=" + (h.get("k") or "") + ("+share" if h.get("share") else "")
            if h.get("k") == "edit":
                at += f":{min(h.get('drop') or 0, 2)}{'h' if h.get('hdr') else ''}{'w' if h.get('was') else ''}"
        if c.get("cut"):
            at += ":cut=" + c["cut"]
        if c.get("chain"):
            at += ":chain" + str(min(c["chain"], 17) if c["chain"] < 18 else 18 if c["chain"] < 64 else 64)
        return f"{op}:{'-'.join(str(t) for t in types[:4])}:{'ptr' if comp else 'noptr'}:{'tc' if tr else 'full'}:{cls}{at}"
    return f"{op}:{cls}"
