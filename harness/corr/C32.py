"""C32 — DNS messages round-trip through the wire format: real twisted.names.dns vs the Lean model + oracle."""
import struct

from twisted.names import dns

from corr import _dns as D
from corr._dns import hx, unhx

HEADLINE = "TwistedProps.C32.message_round_trip"
RULE = ("messages over every Record_* class (+UnknownRecord, payload-less headers, OPT), names drawn from a pool with shared "
        "suffixes, case variants, labels of 1/62/63/64/65/191/192/200/255/256 bytes, bytes >= 0xC0 and NULs inside labels, "
        "root, trailing/leading/double dots; field values at 0/max/out-of-range; maxSize in {0, 12..full size, 512, 4096, <12}; "
        "every maxSize from 12 to the full size for a few messages (every cut point of the truncation clause); RDATA of 65535/65536 "
        "bytes; large messages crossing offset 2^14; _EDNSMessage (version None/0/1, 12-bit rCode, sizes around 512) and _OPTHeader "
        "with options; mutated/truncated encodings through Message.fromStr; "
        "distinct = (op, record types present, compression used?, truncated?, outcome class)")
ASSUMES = [
    "Message.maxSize is not a wire field: a decoded Message has maxSize 0 and equality is judged with maxSize set aside "
    "(for _EDNSMessage it travels in the OPT record and is compared)",
    "RRHeader.auth and a payload's own ttl are not wire fields: parseRecords fills them from the message's auth flag and the "
    "header's ttl; messages are generated with rr.auth == message.auth and payload.ttl == rr.ttl (otherwise == cannot hold)",
    "a name is 'made of 1 to 63-byte labels' when it is b'' (root) or every b'.'-separated label has 1..63 bytes; the 255-octet "
    "bound on a whole name (RFC 1035 2.3.4) is not part of the statement and is not enforced by Twisted (reported, not judged)",
    "in range: flags 0/1, opCode/rCode < 16 (rCode < 4096 with EDNS), 16/32/48-bit fields, SOA refresh/retry/expire signed 32-bit "
    "(struct 'l'), character-strings <= 255 bytes, RDATA < 64 KiB (theorem encode_succeeds: rdataMax, the RDATA's size with names "
    "written in full, < 65536 - at 65536 bytes RRHeader.encode raises struct.error, theorem encode_fails_only_on_oversize_rdata), A6: prefixLen <= 128, suffix without the prefixLen leading bits, "
    "prefix name only when prefixLen > 0; UnknownRecord only for TYPEs without a Record_* class; no payload-less headers",
    "the truncation clause is judged for maxSize >= 12 (a limit below the 12-byte header cannot be met by any message); "
    "'decodes to a prefix of the original records' is read as: Message.fromStr returns (no exception) the same header with TC set "
    "and a flat proper prefix of questions ++ answers ++ authority ++ additional (a section is cut only if the later ones are empty)",
    "message-level refusal (unrepresentable_name_refused_message) is stated for messages that are otherwise in range and whose "
    "labels are non-empty; ValueError is what is raised unless an earlier record with >= 64 KiB of RDATA raises struct.error first",
    "dnspython is not installed: the independent decoder is lean/TwistedModel/Dns/Rfc1035.lean (written from the RFCs, shares only "
    "data types and the printer with the model of Twisted's codec), run through the driver on the bytes the real encoder produced "
    "- weaker independence than a third-party library (partial)",
]
TRUSTED = ["lean/TwistedModel/Dns/Rfc1035.lean as the independent reader (no theorem is stated about it)"]
MANIFEST = {
    "text": "Lean theorems (TwistedProps/C32.lean) over the model of Name/Query/RRHeader/Record_*/Message encode+decode with the "
            "compression dictionary. message_round_trip: every well-formed Message whose RDATA stay below 64 KiB IS encoded "
            "(encode_succeeds; the only failure on well-formed input is struct.error on RDLENGTH, which does occur from 65536 bytes on - "
            "encode_fails_on_oversize_rdata, encode_succeeds_iff), decodes to itself when within "
            "its size limit (names of 1..63-byte labels round-trip at any offset with any dictionary state: pointer chains strictly "
            "descend, so the visited-set check never fires), and when over the limit is cut to exactly maxSize bytes with TC set "
            "that decode, without an exception, to the same header and a flat proper prefix of its questions and records (a "
            "name/field/record cut anywhere raises EOFError and nothing else, which parseRecords/Message.decode catch). "
            "unrepresentable_name_refused_message: a label over 63 bytes anywhere in a message makes toStr raise ValueError. "
            "Model tied to dns.py by differential runs over all record classes and every cut point; round trip, refusal, "
            "truncation-prefix and an independent RFC 1035 reader checked on the real code by the oracle.",
    "note": "trusts Lean kernel, the hand model of dns.py (differentially tied), the Lean RFC 1035 reader standing in for dnspython",
    "technique": "Lean 4 proof (validity relation for compressed names + induction over fields/records/sections; EOFError-at-the-cut "
                 "lemmas for every decoder; exact encoder outcome per item) + differential tie",
    "design_ref": "DESIGN.md §7 C32",
}

# ------------------------------------------------------------------------------------------------
# generators

_LABELS = [b"a", b"b", b"www", b"example", b"Example", b"EXAMPLE", b"com", b"COM", b"org", b"x" * 62, b"y" * 63,
           b"\x00", b"\xc0\x0c", b"\xff", b"a b", b"_tcp", b"xn--nxasmq6b", b"1", b"in-addr", b"arpa"]
_BAD_LABELS = [b"L" * 64, b"M" * 65, b"N" * 191, b"O" * 192, b"P" * 200, b"Q" * 255, b"R" * 256, b"S" * 300]


def _name(rng, pool, p_bad=0.03):
    r = rng.random()
    if pool and r < 0.35:
        return rng.choice(pool)
    if pool and r < 0.6:                       # new labels in front of a known suffix
        base = rng.choice(pool)
        if base:
            cut = base.split(b".")
            base = b".".join(cut[rng.randrange(len(cut)):])
        n = b".".join([rng.choice(_LABELS) for _ in range(rng.randint(1, 2))] + ([base] if base else []))
    elif r < 0.65:
        n = b""
    elif r < 0.65 + p_bad:
        ls = [rng.choice(_LABELS) for _ in range(rng.randint(0, 2))]
        ls.insert(rng.randint(0, len(ls)), rng.choice(_BAD_LABELS))
        n = b".".join(ls)
    elif r < 0.65 + 2 * p_bad:
        n = rng.choice([b".", b"a.", b".a", b"a..b", b"example.com.", b"..", b"a.b..", b"." + b"z" * 70])
    elif r < 0.65 + 3 * p_bad:
        n = b".".join([bytes([rng.randrange(256)]).replace(b".", b"-") * rng.choice([1, 3, 63]) for _ in range(rng.randint(1, 6))])
    else:
        n = b".".join(rng.choice(_LABELS) for _ in range(rng.randint(1, 4)))
    if rng.random() < 0.3 and n:
        n = bytes(c ^ 0x20 if (65 <= c <= 90 or 97 <= c <= 122) and rng.random() < 0.5 else c for c in n)
    pool.append(n)
    return n


def _num(rng, bits, p_out=0.01):
    r = rng.random()
    if r < p_out:
        return (1 << bits) + rng.randrange(3)
    return rng.choice([0, 1, (1 << bits) - 1, 1 << (bits - 1), rng.randrange(1 << bits), rng.randrange(1 << min(bits, 8))])


def _bytes(rng, n):
    return bytes(rng.choice([0, 0xFF, 0xC0, 0x2E, 0x41, rng.randrange(256)]) for _ in range(n))


def _str8(rng, p_out=0.01):
    return _bytes(rng, 256 + rng.randrange(3) if rng.random() < p_out else rng.choice([0, 1, 3, 10, 255, rng.randrange(60)]))


TYPES = sorted(D.KINDS)


def _vals(rng, t, pool, big=False):
    out = []
    for k in D.KINDS[t]:
        if k in ("u8", "u16", "u32", "u48"):
            out.append(f"n{_num(rng, int(k[1:]))}")
        elif k == "i32":
            v = rng.choice([0, 1, -1, 2**31 - 1, -2**31, rng.randrange(-2**31, 2**31)])
            if rng.random() < 0.01:
                v = rng.choice([2**31, -2**31 - 1])
            out.append(f"i{v}")
        elif k in ("raw4", "raw16"):
            n = int(k[3:])
            if rng.random() < 0.01:
                n += rng.choice([-1, 1])
            out.append("b" + hx(_bytes(rng, n)))
        elif k == "N":
            out.append("b" + hx(_name(rng, pool)))
        elif k == "s8":
            out.append("b" + hx(_str8(rng)))
        elif k == "s16":
            out.append("b" + hx(_bytes(rng, rng.choice([0, 1, 16, 20, 32, rng.randrange(300)]))))
        elif k == "rest":
            n = rng.choice([0, 1, 4, 20, rng.randrange(200)])
            if big:
                n = rng.choice([16400, 17000, 30000])
            out.append("b" + hx(_bytes(rng, n)))
        elif k == "txt":
            out.append("l" + "/".join(hx(_str8(rng)) for _ in range(rng.choice([0, 1, 1, 2, 3, 5]))))
        elif k == "a6":
            p = rng.choice([0, 0, 8, 64, 120, 128, 128, rng.randrange(129), rng.randrange(129), 1, 121, 127])
            if rng.random() < 0.04:
                p = rng.choice([129, 136, 200, 255, 256])
            sfx = rng.getrandbits(128) & ((1 << max(0, 128 - p)) - 1) if rng.random() < 0.9 else rng.getrandbits(128)
            pre = _name(rng, pool) if (p != 0) == (rng.random() < 0.95) else b""
            out.append(f"a{p}/{sfx.to_bytes(16, 'big').hex()}/{hx(pre)}")
    return out


def _rr(rng, pool, big=False):
    r = rng.random()
    ttl = rng.choice([0, 1, 300, 3600, 2**31 - 1, 2**32 - 1, rng.randrange(2**32)])
    if rng.random() < 0.005:
        ttl = 2**32
    cls = rng.choice([1, 1, 1, 3, 4, 255, rng.randrange(65536)])
    n = hx(_name(rng, pool))
    if big:
        t = rng.choice([10, 10, 11, 44])
        return {"n": n, "t": t, "c": cls, "ttl": ttl, "pk": "k", "v": _vals(rng, t, pool, big=True)}
    if r < 0.86:
        t = rng.choice(TYPES)
        return {"n": n, "t": t, "c": cls, "ttl": ttl, "pk": "k", "v": _vals(rng, t, pool)}
    if r < 0.95:
        t = rng.choice([41, 19, 27, 29, 40, 43, 46, 52, 249, 251, 255, 256, 65535, rng.randrange(65536)])
        if rng.random() < 0.1:
            t = rng.choice(TYPES)              # UnknownRecord under a known TYPE: does not round-trip (tie only)
        return {"n": n, "t": t, "c": cls, "ttl": ttl, "pk": "u", "v": ["b" + hx(_bytes(rng, rng.choice([0, 1, 4, 30])))]}
    return {"n": n, "t": rng.choice(TYPES + [41, 300]), "c": cls, "ttl": ttl, "pk": "-", "v": []}


def _hdr(rng, maxSize):
    f = lambda: rng.choice([0, 1])          # noqa: E731
    h = [_num(rng, 16, 0.003), f(), rng.randrange(16), f(), f(), f(), rng.randrange(16), f(), maxSize, f(), f()]
    if rng.random() < 0.02:
        h[rng.choice([1, 3, 4, 5, 7, 9, 10])] = rng.choice([2, 3, 255])      # `& 1` in encode
    if rng.random() < 0.02:
        h[rng.choice([2, 6])] = rng.choice([16, 17, 255])                     # `& 0xF`
    return h


def _message(rng, big=False):
    pool = []
    m = {"hdr": None, "q": [], "an": [], "ns": [], "ad": []}
    for _ in range(rng.choice([0, 1, 1, 1, 2, 3])):
        m["q"].append([hx(_name(rng, pool)), rng.choice(TYPES + [255, 252, 41]), rng.choice([1, 1, 255, 3])])
    for sec, w in (("an", [0, 1, 1, 2, 4]), ("ns", [0, 0, 1, 2]), ("ad", [0, 0, 1, 3])):
        for _ in range(rng.choice(w)):
            m[sec].append(_rr(rng, pool))
    if big:
        where = rng.choice(["an", "ns", "ad"])
        m[where].insert(rng.randint(0, len(m[where])), _rr(rng, pool, big=True))
        for _ in range(rng.randint(2, 4)):       # the same fresh names twice, beyond offset 2^14
            nm = b".".join([b"late", rng.choice(_LABELS), b"example", b"net"])
            for _ in range(2):
                m["ad"].append({"n": hx(nm), "t": 2, "c": 1, "ttl": 5, "pk": "k", "v": ["b" + hx(b"ns." + nm)]})
    m["hdr"] = _hdr(rng, 0)
    return m


def _full_size(m):
    """size of the untruncated encoding on the real code (None when it cannot be encoded)"""
    try:
        msg = D.build_message(m)
        msg.maxSize = 0
        return len(msg.toStr())
    except Exception:
        return None


def _rt_case(rng, big=False):
    m = _message(rng, big)
    r = rng.random()
    if r < 0.45:
        m["hdr"][8] = 0
    elif r < 0.6:
        m["hdr"][8] = rng.choice([512, 4096, 65535])
    elif r < 0.95:
        full = _full_size(m) or 100
        m["hdr"][8] = rng.choice([12, 13, full - 1, full, full + 1, max(12, full - 2), rng.randint(12, max(12, full)),
                                  rng.randint(12, max(12, full)), max(12, full // 2)])
        if m["hdr"][8] < 12:
            m["hdr"][8] = 12
    else:
        m["hdr"][8] = rng.randrange(1, 12)
    return {"op": "rt", "m": m}


def _edns_case(rng):
    m = _message(rng)
    if rng.random() < 0.3:                       # sizes around the 512-byte default of the inner Message
        pool = []
        for _ in range(rng.randint(1, 4)):
            m["an"].append({"n": hx(_name(rng, pool, 0)), "t": 16, "c": 1, "ttl": 60, "pk": "k",
                            "v": ["l" + "/".join(hx(_bytes(rng, rng.choice([100, 200, 255]))) for _ in range(rng.randint(1, 2)))]})
    h = m["hdr"]
    ver = rng.choice([-1, 0, 0, 0, 1, 255])
    if ver < 0 and rng.random() < 0.9:
        h += [ver, 0]
        h[8] = 512
    else:
        h += [ver, rng.choice([0, 1])]
        h[8] = rng.choice([512, 512, 1232, 4096, 65535, 100, 0, 300])
        h[6] = rng.choice([0, 3, 15, 16, 0xFFF, rng.randrange(4096)])
        if rng.random() < 0.01:
            h[rng.choice([6, 8, 11])] = rng.choice([4096, 65536, 256])
    if rng.random() < 0.03:
        m["ad"].append({"n": "-", "t": 41, "c": 4096, "ttl": 0, "pk": "u", "v": ["b-"]})
    return {"op": "edns", "m": m}


def _opt_case(rng):
    opts = [[_num(rng, 16, 0.005), hx(_bytes(rng, rng.choice([0, 1, 8, 40])))] for _ in range(rng.choice([0, 0, 1, 2, 4]))]
    return {"op": "opt", "hdr": [_num(rng, 16, 0.005), _num(rng, 8, 0.005), _num(rng, 8, 0.005), rng.choice([0, 1])], "opts": opts}


def _dec_case(rng):
    """a valid encoding, cut or with a few bytes changed (Message.fromStr on both sides)"""
    m = _message(rng)
    try:
        b = bytearray(D.build_message(m).toStr())
    except Exception:
        b = bytearray(b"\x00" * 12)
    r = rng.random()
    if r < 0.4:
        b = b[:rng.randint(0, len(b))]
    elif r < 0.9:
        for _ in range(rng.randint(1, 3)):
            if b:
                i = rng.randrange(len(b))
                b[i] = rng.choice([0, 0xC0, 0xC0, 0xFF, 12, i & 0xFF, rng.randrange(256)])
    return {"op": "dec", "data": bytes(b).hex()}


def corpus():
    q = lambda n: {"op": "rt", "m": {"hdr": [1, 0, 0, 1, 0, 0, 0, 0, 0, 0, 0], "q": [[hx(n), 1, 1]], "an": [], "ns": [], "ad": []}}  # noqa: E731
    big = {"op": "rt", "m": {"hdr": [7, 1, 0, 0, 0, 0, 0, 0, 0, 0, 0], "q": [], "an": [
        {"n": hx(b"pad.example"), "t": 10, "c": 1, "ttl": 0, "pk": "k", "v": ["b" + "00" * 16400]},
        {"n": hx(b"late.example.net"), "t": 1, "c": 1, "ttl": 0, "pk": "k", "v": ["b01020304"]},
        {"n": hx(b"late.example.net"), "t": 1, "c": 1, "ttl": 0, "pk": "k", "v": ["b05060708"]}], "ns": [], "ad": []}}
    txt = lambda n: {"n": hx(n), "t": 16, "c": 1, "ttl": 5, "pk": "k", "v": ["l" + hx(b"a" * 200)]}  # noqa: E731
    edns_big = {"op": "edns", "m": {"hdr": [3, 1, 0, 0, 0, 0, 0, 0, 4096, 0, 0, 0, 0], "q": [],
                                    "an": [txt(b"x.example.com")] * 4, "ns": [], "ad": []}}
    edns_small = {"op": "edns", "m": {"hdr": [3, 1, 0, 0, 0, 0, 0, 0, 100, 0, 0, 0, 0], "q": [],
                                      "an": [txt(b"x.example.com")], "ns": [], "ad": []}}
    a6 = lambda p, s: {"op": "rt", "m": {"hdr": [1, 1, 0, 0, 0, 0, 0, 0, 0, 0, 0], "q": [], "an": [  # noqa: E731
        {"n": hx(b"h.example"), "t": 38, "c": 1, "ttl": 1, "pk": "k", "v": [f"a{p}/{s}/{hx(b'p.example') if p else '-'}"]}],
        "ns": [], "ad": []}}
    return [
        q(b"L" * 64), q(b"P" * 200), q(b"a." + b"L" * 64 + b".com"), q(b"y" * 63), q(b"R" * 256), q(b""), q(b"example.com"),
        q(b"a."), q(b".foo"), q(b"a..b"), big, edns_big, edns_small,
        a6(0, "20010db8000000000000000000000001"), a6(64, "00000000000000000000000000000001"),
        a6(1, "7fffffffffffffffffffffffffffffff"), a6(121, "0000000000000000000000000000007f"), a6(128, "00" * 16),
        {"op": "rt", "m": {"hdr": [9, 1, 0, 0, 0, 1, 0, 0, 40, 0, 0], "q": [[hx(b"example.com"), 15, 1]], "an": [
            {"n": hx(b"example.com"), "t": 15, "c": 1, "ttl": 9, "pk": "k", "v": ["n10", "b" + hx(b"mail.example.com")]},
            {"n": hx(b"EXAMPLE.com"), "t": 15, "c": 1, "ttl": 9, "pk": "k", "v": ["n20", "b" + hx(b"mail2.example.com")]}],
            "ns": [], "ad": []}},
        # RDLENGTH overflow: 65536 bytes of RDATA -> struct.error; 65535 is fine
        {"op": "rt", "m": {"hdr": [5, 1, 0, 0, 0, 0, 0, 0, 0, 0, 0], "q": [], "an": [
            {"n": hx(b"big.example"), "t": 10, "c": 1, "ttl": 0, "pk": "k", "v": ["b" + "00" * 65536]}], "ns": [], "ad": []}},
        {"op": "rt", "m": {"hdr": [5, 1, 0, 0, 0, 0, 0, 0, 0, 0, 0], "q": [], "an": [
            {"n": hx(b"big.example"), "t": 10, "c": 1, "ttl": 0, "pk": "k", "v": ["b" + "00" * 65535]}], "ns": [], "ad": []}},
        # a 64-byte label inside an RDATA, after a record that encodes: ValueError from Message.toStr
        {"op": "rt", "m": {"hdr": [6, 1, 0, 0, 0, 0, 0, 0, 0, 0, 0], "q": [[hx(b"example.com"), 15, 1]], "an": [
            {"n": hx(b"example.com"), "t": 15, "c": 1, "ttl": 9, "pk": "k", "v": ["n10", "b" + hx(b"mail.example.com")]},
            {"n": hx(b"example.com"), "t": 15, "c": 1, "ttl": 9, "pk": "k", "v": ["n20", "b" + hx(b"mx." + b"x" * 64 + b".example.com")]}],
            "ns": [], "ad": []}},
        {"op": "opt", "hdr": [4096, 0, 0, 1], "opts": [[3, hx(b"nsid")], [10, hx(b"\x01" * 8)]]},
        {"op": "dec", "data": (b"\x00" * 5 + b"\x01" + b"\x00" * 6 + b"\xc0\x0c\x00\x01\x00\x01").hex()},
        {"op": "dec", "data": ""},
    ]


def generate(rng, tier):
    n = 900 if tier == "quick" else 30000
    nbig = 3 if tier == "quick" else 40
    for i in range(n):
        r = rng.random()
        if r < 0.62:
            yield _rt_case(rng)
        elif r < 0.78:
            yield _edns_case(rng)
        elif r < 0.84:
            yield _opt_case(rng)
        else:
            yield _dec_case(rng)
    for i in range(nbig):
        yield _rt_case(rng, big=True)
    # the truncation clause at every cut point: maxSize = 12 .. full size, for a few well-formed messages
    nall = 2 if tier == "quick" else 12
    done = 0
    for _ in range(200):
        if done >= nall:
            break
        m = _message(rng)
        inrange, names = D.msg_ok(m)
        full = _full_size(m)
        if not inrange or not all(D.labels_ok(n) for n in names) or full is None or not 40 <= full <= (160 if tier == "quick" else 400):
            continue
        done += 1
        for size in range(12, full + 1):
            yield {"op": "rt", "m": dict(m, hdr=m["hdr"][:8] + [size] + m["hdr"][9:])}


# ------------------------------------------------------------------------------------------------
# both sides

def _msg_text(m):
    return D.case_text(m)


def model_line(c):
    op = c["op"]
    if op in ("rt", "edns"):
        try:                                   # queue the real encoder's bytes for the batched RFC reader (oracle)
            if op == "rt":
                D.rfc_want(D.build_message(c["m"]).toStr())
            else:
                D.rfc_want(D.build_edns(c["m"]).toStr())
        except Exception:
            pass
        return f"{op} " + _msg_text(c["m"])
    if op == "opt":
        return "opt " + " ".join([",".join(str(x) for x in c["hdr"])] + [f"{code}:{d}" for code, d in c["opts"]])
    if op == "dec":
        return "dec " + (c["data"] or "-")
    return "bad"


def _exc(e):
    return "!raised " + type(e).__name__


def _build_opt(c):
    u, e, v, d = c["hdr"]
    return dns._OPTHeader(udpPayloadSize=u, extendedRCODE=e, version=v, dnssecOK=d,
                          options=[dns._OPTVariableOption(code, unhx(data)) for code, data in c["opts"]])


def _show_opt(o):
    opts = ["none"] if o.options is None else [f"{x.code}:{hx(x.data)}" for x in o.options]
    return " ".join([f"{o.udpPayloadSize},{o.extendedRCODE},{o.version},{int(o.dnssecOK)}"] + opts)


def run_impl(c):
    from io import BytesIO
    op = c["op"]
    try:
        if op == "rt":
            enc = D.build_message(c["m"]).toStr()
            back = dns.Message()
            try:
                back.fromStr(enc)
            except (EOFError, ValueError, struct.error, TypeError) as e:
                return f"enc={hx(enc)} dec={_exc(e)}"
            return f"enc={hx(enc)} dec={D.show_message(back)}"
        if op == "edns":
            enc = D.build_edns(c["m"]).toStr()
            back = dns._EDNSMessage()
            try:
                back.fromStr(enc)
            except (EOFError, ValueError, struct.error, TypeError) as e:
                return f"enc={hx(enc)} dec={_exc(e)}"
            return f"enc={hx(enc)} dec={D.show_edns(back)}"
        if op == "opt":
            s = BytesIO()
            _build_opt(c).encode(s, {})
            enc = s.getvalue()
            back = dns._OPTHeader()
            try:
                back.decode(BytesIO(enc))
            except (EOFError, ValueError, struct.error, TypeError) as e:
                return f"enc={hx(enc)} dec={_exc(e)}"
            return f"enc={hx(enc)} dec={_show_opt(back)}"
        if op == "dec":
            back = dns.Message()
            back.fromStr(bytes.fromhex(c["data"]))
            return D.show_message(back)
    except (EOFError, ValueError, struct.error, TypeError) as e:
        return _exc(e)
    return "bad-op"


# ------------------------------------------------------------------------------------------------
# the property, evaluated on the real code (independent of the Lean model of Twisted's codec)

def _fail(key, detail):
    return {"key": key, "detail": detail[:400]}


def _is_prefix(short, full):
    return len(short) <= len(full) and all(a == b for a, b in zip(short, full))


def _oracle_rt(c):
    m = c["m"]
    inrange, names = D.msg_ok(m)
    if not inrange:
        return None
    long_ = [n for n in names if D.has_long_label(n)]
    wfnames = all(D.labels_ok(n) for n in names)
    if not long_ and not wfnames:
        return None                                    # empty labels etc.: outside both clauses
    orig = D.build_message(m)
    try:
        enc = D.build_message(m).toStr()
    except Exception as e:
        if long_:
            return None if isinstance(e, ValueError) else _fail("refusal-class", f"unrepresentable name refused with {type(e).__name__}")
        return _fail("encode-raises", f"well-formed message: toStr raised {type(e).__name__}: {e}")
    if long_:
        n = min(long_, key=len)
        mx = max(len(l) for l in n.split(b"."))
        return _fail("label-over-63-not-refused", f"name with a {mx}-byte label was encoded ({len(enc)} bytes) instead of refused")
    maxSize = m["hdr"][8]
    full = _full_size(m)
    back = dns.Message()
    try:
        back.fromStr(enc)
    except Exception as e:
        return _fail("decode-raises", f"decoding the encoder's own output raised {type(e).__name__} (size {len(enc)})")
    if maxSize == 0 or full <= maxSize:
        back.maxSize = orig.maxSize
        if back != orig:
            key = "pointer-offset-over-2^14" if len(enc) > 16384 else "roundtrip"
            return _fail(key, f"decode(encode(m)) != m: {D.show_message(back)[:150]} vs {D.case_text(m)[:150]}")
        exp = dict(m, hdr=m["hdr"][:8] + [0] + m["hdr"][9:])
        got = D.rfc_read(enc)
        if got != D.case_text(exp):
            a6 = any(r["t"] == 38 and r["pk"] == "k" and D.parse_val(r["v"][0])[0] % 8 for s in ("an", "ns", "ad") for r in m[s])
            key = "a6-suffix-octets" if a6 else "independent-reader"
            return _fail(key, f"RFC 1035 reader sees {got[:200]} expected {D.case_text(exp)[:200]}")
        return None
    if maxSize < 12:
        return None
    if len(enc) > maxSize:
        return _fail("truncation-size", f"maxSize {maxSize} but {len(enc)} bytes were produced")
    if not enc[2] & 2 or not back.trunc:
        return _fail("truncation-flag", f"message of {full} bytes cut to {len(enc)} without TC")
    ok = _is_prefix(back.queries, orig.queries) and _is_prefix(back.answers, orig.answers) \
        and _is_prefix(back.authority, orig.authority) and _is_prefix(back.additional, orig.additional)
    # a flat prefix: a later section is non-empty only if the earlier ones are complete
    secs = [(back.queries, orig.queries), (back.answers, orig.answers), (back.authority, orig.authority),
            (back.additional, orig.additional)]
    for i, (b, o) in enumerate(secs):
        if len(b) < len(o) and any(len(b2) for b2, _ in secs[i + 1:]):
            ok = False
    if not ok:
        return _fail("truncation-prefix", f"decoded truncated message is not a prefix: {D.show_message(back)[:200]}")
    return None


def _oracle_edns(c):
    m = c["m"]
    inrange, names = D.msg_ok(m, edns=True)
    if not inrange or not all(D.labels_ok(n) for n in names):
        return None
    orig = D.build_edns(m)
    try:
        enc = orig.toStr()
        inner = orig._toMessage()
        inner.maxSize = 0
        full = len(inner.toStr())
    except Exception as e:
        return _fail("encode-raises", f"well-formed EDNS message: toStr raised {type(e).__name__}: {e}")
    limit = m["hdr"][8]
    back = dns._EDNSMessage()
    try:
        back.fromStr(enc)
    except Exception as e:
        return _fail("decode-raises", f"decoding the encoder's own output raised {type(e).__name__}")
    if limit == 0 or full <= limit:
        if back != D.build_edns(m):
            key = "edns-maxsize-ignored" if full > 512 else "edns-roundtrip"
            return _fail(key, f"_EDNSMessage(maxSize={limit}) of {full} bytes came back different "
                              f"(encoded {len(enc)} bytes, trunc={back.trunc}, ednsVersion={back.ednsVersion})")
        return None
    if limit < 12:
        return None
    if len(enc) > limit:
        return _fail("edns-maxsize-ignored", f"_EDNSMessage(maxSize={limit}) of {full} bytes was encoded in {len(enc)} bytes")
    if not enc[2] & 2:
        return _fail("truncation-flag", f"EDNS message of {full} bytes cut to {len(enc)} without TC")
    return None


def oracle(c, out):
    op = c["op"]
    if op == "rt":
        return _oracle_rt(c)
    if op == "edns":
        return _oracle_edns(c)
    if op == "opt":
        h = c["hdr"]
        if not (h[0] < 65536 and h[1] < 256 and h[2] < 256 and all(code < 65536 for code, _ in c["opts"])):
            return None
        exp = " ".join([",".join(str(x) for x in h)] + [f"{code}:{d or '-'}" for code, d in c["opts"]])
        if not out.endswith(" dec=" + exp):
            return _fail("opt-roundtrip", f"{exp} came back as {out[-200:]}")
    return None


def shrink(c):
    if c["op"] not in ("rt", "edns"):
        return
    m = c["m"]
    for sec in ("ad", "ns", "an", "q"):
        for i in range(len(m[sec])):
            yield dict(c, m=dict(m, **{sec: m[sec][:i] + m[sec][i + 1:]}))


def tag(c, out):
    op = c["op"]
    cls = "raise:" + out.split()[-1] if out.startswith("!") else ("dec-raise" if "dec=!" in out else "ok")
    if op in ("rt", "edns"):
        m = c["m"]
        types = sorted({(r["t"] if r["pk"] == "k" else r["pk"]) for s in ("an", "ns", "ad") for r in m[s]}, key=str)
        comp = "c0" in out[:out.find(" dec=")] if " dec=" in out else False
        tr = out.startswith("enc=") and len(out) > 12 and (int(out[8:10], 16) & 2) != 0
        return f"{op}:{'-'.join(str(t) for t in types[:4])}:{'ptr' if comp else 'noptr'}:{'tc' if tr else 'full'}:{cls}"
    return f"{op}:{cls}"
