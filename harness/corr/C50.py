"""C50 — FilesystemLock: real lock()/unlock() of N 'processes' interleaved primitive by primitive
(symlink/readlink/kill/rmlink interposed as module globals, each process in its own thread handed a
baton one primitive at a time — fully deterministic) vs the Lean automaton, plus the property oracle
(at most one holder; a holder can release; a dead owner's lock can be acquired) on the real code."""
import errno
import os
import sys
import threading

from twisted.python import lockfile

HEADLINE = "TwistedProps.C50.mutual_exclusion_partial (+ mutual_exclusion_counterexample)"
RULE = ("schedules of events L<i>/U<i> (enter lock()/unlock()), S<i> (run process i's pending primitive and the Python "
        "up to its next primitive), X<i> (process dies/exits) over 1..4 processes sharing one lock path, initial link "
        "absent / left by a dead pid / owned by a live non-participant / by a pid answering EPERM; state-exhaustive "
        "breadth-first exploration of the real code for fixed per-process programs (every reachable state and every "
        "edge out of it is a case) + seeded random walks; distinct = (n, initial link class, crashes?, max simultaneous "
        "holders, set of call outcomes, set of program counters visited)")
ASSUMES = [
    "POSIX branch of lockfile.py (_windows False, kill available); symlink/readlink/kill/remove are each atomic "
    "(the guarantee the class docstring relies on) and nothing else touches the lock path",
    "the symlink target is a decimal pid (a foreign non-numeric target makes int(pid) raise ValueError out of lock())",
    "processes have distinct pids and a dead pid is not reused while the lock path names it",
    "only the errno values the code distinguishes are injected (EEXIST, ENOENT, ESRCH, EPERM); any other errno propagates out of lock()",
]
TRUSTED = [
    "harness/corr/C50.py baton scheduler: one (pooled) thread per call, exactly one thread runnable at a time; a primitive takes "
    "effect when its process is next scheduled (the interposed function blocks BEFORE touching the fake filesystem)",
]
MANIFEST = {
    "text": "Lean automaton of FilesystemLock.lock/unlock over atomic symlink/readlink/kill/rmlink for any number of "
            "processes and any schedule (TwistedModel/Fs/Lock.lean). Proved for all schedules: at most one holder on every "
            "run in which the stale-lock-breaking branch (kill -> ESRCH) is never taken — in particular with no dead owner's "
            "link and no process exit (mutual_exclusion_partial); a holder can release under any interleaving of the others; "
            "a dead owner's lock can be acquired by any live process from any of its program points. The full statement is "
            "FALSE for the code as written and the negation is proved on two schedules (stale initial link; unlock-then-exit), "
            "both replayed on the real code: the pending rmlink after an ESRCH check deletes another process's live lock.",
    "note": "known finding stale-break-removes-live-lock (TOCTOU between readlink/kill/rmlink; not a small fix). Trusts Lean "
            "kernel, the hand-written automaton (tied per primitive, incl. the local `clean` read from the blocked frame), "
            "the baton scheduler, POSIX atomicity of the four primitives.",
    "technique": "Lean 4 proof (inductive invariant over schedules) + state-exhaustive differential tie on the real code",
    "design_ref": "DESIGN.md §7 C50",
}

PIDBASE = 100
LOCKNAME = "/nonexistent-C50/lock"
_ERR = {errno.ENOENT: "ENOENT", errno.EPERM: "EPERM", errno.EEXIST: "EEXIST", errno.ESRCH: "ESRCH"}


class _Abort(BaseException):
    pass


def _sem():
    """binary semaphore, initially 0 (strict hand-over: every release is consumed before the next)"""
    l = threading.Lock()
    l.acquire()
    return l


class _Worker:
    """a reusable thread (thread creation is the dominant cost otherwise): runs one call at a time"""

    def __init__(self):
        self.go = _sem()
        self.job = None
        threading.Thread(target=self._loop, daemon=True).start()

    def _loop(self):
        while True:
            self.go.acquire()
            job, self.job = self.job, None
            job()


_POOL = []


class _OsShim:
    """`lockfile.os` for the duration of a run: getpid() is the scheduled process's pid."""

    def __init__(self, world):
        self._w = world

    def getpid(self):
        return PIDBASE + self._w.current.idx

    def __getattr__(self, name):
        return getattr(os, name)


class _P:
    def __init__(self, idx):
        self.idx = idx
        self.fl = lockfile.FilesystemLock(LOCKNAME)
        self.thread = None      # the worker running this process's current call (None = idle)
        self.pending = None
        self.last = "-"
        self.abort = False
        self.lastkill = None
        self.releasing = False


def _b(x):
    return "1" if x else "0"


class World:
    def __init__(self, case):
        self.fs = {}
        if case["link"] is not None:
            self.fs[LOCKNAME] = str(PIDBASE + case["link"])
        self.status = {}
        for x in case["alive"]:
            self.status[x] = "a"
        for x in case["noperm"]:
            self.status[x] = "p"
        self.n = case["n"]
        self.procs = {}
        self.current = None
        self.back = _sem()
        # property bookkeeping (independent of the Lean model)
        self.holders = set()     # lock() returned True and unlock() has not returned since
        self.two = None          # first moment with two holders
        self.release = None      # a holder's unlock() raised
        self.stolen = None       # an rmlink after an ESRCH verdict removed a LIVE process's link
        self.maxh = 0
        self.pcs = set()

    def st(self, x):
        return self.status.get(x, "d")

    def proc(self, i):
        if i not in self.procs:
            self.procs[i] = _P(i)
        return self.procs[i]

    # ---- the four primitives, executed when the calling process is next scheduled ------------
    def prim(self, name):
        def f(*args):
            p = self.current
            fr = sys._getframe(1)
            caller = fr.f_code.co_name
            clean = fr.f_locals.get("clean") if caller == "lock" else None
            p.pending = (name, caller, clean, args)
            del fr
            self.back.release()
            p.thread.go.acquire()
            if p.abort:
                raise _Abort()
            return getattr(self, "do_" + name)(p, caller, *args)
        return f

    def do_symlink(self, p, caller, value, filename):
        if filename in self.fs:
            raise OSError(errno.EEXIST, "exists")
        self.fs[filename] = value

    def do_readlink(self, p, caller, filename):
        if filename not in self.fs:
            raise OSError(errno.ENOENT, "absent")
        return self.fs[filename]

    def do_kill(self, p, caller, pid, sig):
        s = self.st(pid - PIDBASE)
        p.lastkill = pid - PIDBASE
        if s == "d":
            raise OSError(errno.ESRCH, "no such process")
        if s == "p":
            raise OSError(errno.EPERM, "not permitted")

    def do_rmlink(self, p, caller, filename):
        if filename not in self.fs:
            raise OSError(errno.ENOENT, "absent")
        target = self.fs.pop(filename)
        if caller == "lock":
            try:
                t = int(target) - PIDBASE
            except ValueError:
                t = None
            if t != p.lastkill and t is not None and self.st(t) == "a" and self.stolen is None:
                self.stolen = (p.idx, p.lastkill, t)

    # ---- scheduler ---------------------------------------------------------------------------
    def _call(self, p, op):
        try:
            r = p.fl.lock() if op == "L" else p.fl.unlock()
            p.last = repr(r)
        except _Abort:
            pass
        except OSError as e:
            p.last = "!OSError." + _ERR.get(e.errno, str(e.errno))
        except ValueError:
            p.last = "!ValueError"
        except BaseException as e:  # noqa
            p.last = "!" + type(e).__name__
        finally:
            p.pending = None
            _POOL.append(p.thread)
            p.thread = None
            self.back.release()

    def _wait(self):
        if not self.back.acquire(timeout=20):
            raise RuntimeError("scheduler: process did not come back")

    def _finished(self, p, op):
        """a call of p completed during this event"""
        if self.st(p.idx) != "a":
            return
        if op == "L" and p.last == "True":
            self.holders.add(p.idx)
        if op == "U":
            if p.last == "None":
                self.holders.discard(p.idx)
                if self.link() == p.idx and self.release is None:     # "released" but the path still names it
                    self.release = (p.idx, "None with its link left in place")
            elif p.releasing and self.release is None:
                self.release = (p.idx, p.last)
            p.releasing = False

    def event(self, ev):
        k, i = ev[0], int(ev[1:])
        p = self.proc(i)
        if self.st(i) != "a":
            return
        if k in "LU":
            if p.thread is not None:
                return
            if k == "U":
                p.releasing = i in self.holders
            self.current = p
            p.op = k
            p.thread = _POOL.pop() if _POOL else _Worker()
            p.thread.job = lambda: self._call(p, k)
            p.thread.go.release()
            self._wait()
            if p.thread is None:
                self._finished(p, k)
        elif k == "S":
            if p.thread is None:
                return
            self.current = p
            p.thread.go.release()
            self._wait()
            if p.thread is None:
                self._finished(p, p.op)
        elif k == "X":
            self.status[i] = "d"
            self.holders.discard(i)
        else:
            raise ValueError(ev)
        self.maxh = max(self.maxh, len(self.holders))
        if len(self.holders) >= 2 and self.two is None:
            self.two = sorted(self.holders)

    def cleanup(self):
        for p in self.procs.values():
            if p.thread is not None:
                p.abort = True
                p.thread.go.release()
                self._wait()

    # ---- observation -------------------------------------------------------------------------
    def pc(self, p):
        if p.pending is None:
            return "I"
        name, caller, clean, args = p.pending
        if caller == "lock":
            if name == "symlink":
                return "Ls" + _b(clean)
            if name == "readlink":
                return "Lr" + _b(clean)
            if name == "kill":
                return f"Lk{_b(clean)}.{args[0] - PIDBASE}"
            if name == "rmlink":
                return "Lm" + _b(clean)
        if caller == "unlock":
            if name == "readlink":
                return "Ur"
            if name == "rmlink":
                return "Um"
        return f"?{caller}.{name}"

    def link(self):
        t = self.fs.get(LOCKNAME)
        if t is None:
            return None
        try:
            return int(t) - PIDBASE
        except ValueError:
            return t

    def snapshot(self):
        l = self.link()
        out = ["-" if l is None else str(l)]
        for i in range(self.n):
            p = self.proc(i)
            pc = self.pc(p)
            self.pcs.add(pc[:2])
            locked = p.fl.locked
            clean = p.fl.clean
            out.append(f"{self.st(i)}:{pc}:{_b(locked) if isinstance(locked, bool) else repr(locked)}:"
                       f"{'-' if clean is None else _b(clean)}:{p.last}")
        return ";".join(out)

    # ---- "a lock left by a dead process can eventually be acquired" ----------------------------
    def epilogue(self, pick):
        l = self.link()
        if not (l is None or (isinstance(l, int) and self.st(l) == "d")):
            return None
        live = [i for i in range(self.n) if self.st(i) == "a"]
        if not live:
            return None
        i = live[pick % len(live)]
        p = self.proc(i)
        evs = []
        for _ in range(12):
            if p.thread is None:
                break
            self.event(f"S{i}")
            evs.append(f"S{i}")
        if p.thread is not None:
            return {"proc": i, "why": "pending call did not finish in 12 primitives", "events": evs}
        if self.link() == i and i in self.holders:
            return None
        self.event(f"L{i}")
        evs.append(f"L{i}")
        for _ in range(12):
            if p.thread is None:
                break
            self.event(f"S{i}")
            evs.append(f"S{i}")
        if p.thread is None and p.last == "True" and p.fl.locked is True and self.link() == i:
            return None
        return {"proc": i, "why": f"solo lock() ended {p.last} locked={p.fl.locked} link={self.link()}", "events": evs}


_RUNLOCK = threading.Lock()
_MEMO = {}          # case key → (trace line, info): the exploration in generate() and the engine run the same
_MEMO_MAX = 60000   # deterministic execution of the real code; each case is executed once


def _key(case):
    return (case["link"], tuple(case["alive"]), tuple(case["noperm"]), case["n"], tuple(case["ev"]))


def _execute(case):
    """run the schedule on the real FilesystemLock objects → (trace line, info)"""
    k = _key(case)
    if k in _MEMO:
        return _MEMO[k]
    with _RUNLOCK:
        w = World(case)
        saved = {k2: getattr(lockfile, k2) for k2 in ("symlink", "readlink", "kill", "rmlink", "os")}
        lockfile.symlink, lockfile.readlink = w.prim("symlink"), w.prim("readlink")
        lockfile.kill, lockfile.rmlink = w.prim("kill"), w.prim("rmlink")
        lockfile.os = _OsShim(w)
        snaps = []
        acq = None
        try:
            for ev in case["ev"]:
                w.event(ev)
                snaps.append(w.snapshot())
            final = w.snapshot()
            two, release, stolen, maxh = w.two, w.release, w.stolen, w.maxh
            acq = w.epilogue(len(case["ev"]))
        finally:
            try:
                w.cleanup()
            finally:
                for k2, v in saved.items():
                    setattr(lockfile, k2, v)
        info = {"two": two, "release": release, "stolen": stolen, "acq": acq, "maxh": maxh,
                "pcs": sorted(w.pcs), "final": final}
        res = (("|".join(snaps) if snaps else "-"), info)
        if len(_MEMO) < _MEMO_MAX:
            _MEMO[k] = res
        return res


def run_impl(case):
    return _execute(case)[0]


def _info(case):
    return _execute(case)[1]


def model_line(c):
    def lst(xs):
        return ",".join(str(x) for x in xs) if xs else "-"
    return (f"run {'-' if c['link'] is None else c['link']} {lst(c['alive'])} {lst(c['noperm'])} {c['n']} "
            f"{','.join(c['ev']) if c['ev'] else '-'}")


def oracle(case, out):
    """The statement on the real objects: holders = processes whose lock() returned True and whose unlock() has not
    returned (dead processes hold nothing).  Independent of the Lean model."""
    if out.startswith("!raised"):
        return {"key": "harness-raised", "detail": out}
    info = _info(case)
    # the finding's class: a process judged pid x dead (ESRCH) and its later rmlink removed the link of a LIVE pid y
    cls = "stale-break-removes-live-lock" if info["stolen"] else None
    if info["two"]:
        return {"key": cls or "two-holders",
                "detail": f"processes {info['two']} hold the lock at once (stolen={info['stolen']}) after {len(case['ev'])} events"}
    if info["release"]:
        return {"key": cls or "holder-cannot-release",
                "detail": f"holder {info['release'][0]} unlock() ended {info['release'][1]} (stolen={info['stolen']})"}
    if info["acq"]:
        return {"key": cls or "stale-not-acquirable", "detail": f"{info['acq']}"}
    return None


def _linkclass(c):
    l = c["link"]
    if l is None:
        return "none"
    if l in c["noperm"]:
        return "noperm"
    if l in c["alive"]:
        return "live-part" if l < c["n"] else "live-other"
    return "stale"


def tag(c, out):
    info = _info(c)
    outcomes = sorted({f.split(":")[4] for f in info["final"].split(";")[1:]})
    return (f"n{c['n']}:{_linkclass(c)}:{'x' if any(e[0] == 'X' for e in c['ev']) else ''}:h{info['maxh']}:"
            f"{','.join(outcomes)}:{''.join(info['pcs'])}")


def nontrivial(c, out):
    return bool(c["ev"])


# ---- cases ------------------------------------------------------------------------------------

def _case(link, alive, noperm, n, ev):
    return {"link": link, "alive": list(alive), "noperm": list(noperm), "n": n, "ev": list(ev)}


W_STALE = _case(7, [0, 1], [], 2, ["L1", "S1", "S1", "S1", "L0", "S0", "S0", "S0", "S0", "S0", "S1", "S1"])
W_EXIT = _case(None, [0, 1, 2], [], 3, ["L0", "S0", "L1", "S1", "S1", "U0", "S0", "S0", "X0", "L2", "S2", "S1", "S1", "S1"])


def corpus():
    return [
        W_STALE,                                             # the §0 witness: dead owner's link, B's pending rmlink deletes A's lock
        W_EXIT,                                              # no stale link at all: owner unlocks and exits between B's readlink and kill
        W_STALE | {"ev": W_STALE["ev"] + ["U0", "S0"]},       # … and then the robbed holder cannot release (ValueError)
        _case(None, [0], [], 1, ["L0", "S0", "U0", "S0", "S0"]),
        _case(None, [0, 1], [], 2, ["L0", "S0", "L1", "S1", "S1", "S1", "U1", "S1", "U0", "S0", "S0", "L1", "S1"]),
        _case(7, [0], [], 1, ["L0", "S0", "S0", "S0", "S0", "S0", "U0", "S0", "S0"]),
        _case(8, [0], [8], 1, ["L0", "S0", "S0", "S0"]),      # kill → EPERM propagates
        _case(9, [0, 9], [], 1, ["L0", "S0", "S0", "S0", "U0", "S0"]),   # live foreign owner
        _case(None, [0], [], 1, ["U0", "S0", "L0", "S0", "L0", "S0", "S0", "S0"]),  # unlock unlocked; lock twice
        _case(None, [0, 1], [], 2, ["L0", "S0", "L1", "S1", "U0", "S0", "S0", "S1", "S1"]),  # link vanishes before readlink
        _case(None, [0, 1], [], 2, []),
    ]


def _explore(link, alive, noperm, n, programs, crashes, crashable, limit):
    """Breadth-first over the states of the REAL code: every reachable state once, every edge out of it a case."""
    rec = {"link": link, "n": n, "programs": programs, "crashes": crashes, "cases": 0, "states": 0, "exhausted": True}
    _EXPLORED.append(rec)
    seen = set()
    frontier = [([], tuple(0 for _ in programs), crashes, None)]
    count = 0
    while frontier:
        nxt = []
        for path, pos, cr, final in frontier:
            fields = final.split(";")[1:] if path else None
            for i in range(n):
                if fields is None:
                    status, pc = ("a" if i in alive else "d"), "I"
                else:
                    status, pc = fields[i].split(":")[0:2]
                if status != "a":
                    continue
                succ = []
                if pc == "I":
                    if pos[i] < len(programs[i]):
                        succ.append((programs[i][pos[i]] + str(i), pos[:i] + (pos[i] + 1,) + pos[i + 1:], cr))
                else:
                    succ.append((f"S{i}", pos, cr))
                if cr > 0 and i in crashable:
                    succ.append((f"X{i}", pos, cr - 1))
                for ev, pos2, cr2 in succ:
                    p2 = path + [ev]
                    c2 = _case(link, alive, noperm, n, p2)
                    _, inf2 = _execute(c2)
                    count += 1
                    rec["cases"] = count
                    yield c2
                    if count >= limit:
                        rec["exhausted"] = False
                        return
                    sig = (inf2["final"], pos2, cr2, tuple(sorted(_holders_sig(inf2))))
                    if sig not in seen:
                        seen.add(sig)
                        rec["states"] = len(seen)
                        nxt.append((p2, pos2, cr2, inf2["final"]))
        frontier = nxt


_EXPLORED = []


def extra_evidence():
    """per explored family: number of distinct states of the real code, cases, and whether the frontier emptied"""
    return {"exploration": list(_EXPLORED)}


def _holders_sig(info):
    return [str(info["two"]), str(info["release"]), str(info["stolen"])]


def _walk(rng, n, length):
    link = rng.choice([None, None, 7, 7, 7, 8, 9, 0, 1])
    alive = list(range(n)) + [9]
    noperm = [8]
    ev = []
    busy = [False] * n      # a guess only (steers the mix of events; ill-timed events are no-ops on both sides)
    for _ in range(length):
        i = rng.randrange(n)
        r = rng.random()
        if r < 0.04:
            ev.append(f"X{i}")
        elif not busy[i] or r < 0.12:
            ev.append(("L" if rng.random() < 0.65 else "U") + str(i))
            busy[i] = True
        else:
            ev.append(f"S{i}")
            if rng.random() < 0.25:
                busy[i] = False
    return _case(link, alive, noperm, n, ev)


def generate(rng, tier):
    quick = tier == "quick"
    fams = [
        # (link, alive, noperm, n, per-process programs, crash budget, who may crash, case limit)
        (7, [0, 1], [], 2, ["L", "L"], 0, [], 4000),
        (7, [0, 1], [], 2, ["LU", "LU"], 0, [], 4000),
        (7, [0, 1], [], 2, ["LU", "LU"], 1, [0, 1], 6000),
        (None, [0, 1], [], 2, ["LU", "LU"], 1, [0], 4000),
        (None, [0, 1, 2], [], 3, ["LU", "L", "L"], 1, [0], 4000),
        (7, [0, 1, 2], [], 3, ["L", "L", "L"], 0, [], 6000),
        (8, [0, 1], [8], 2, ["LU", "L"], 0, [], 1000),
        (9, [0, 1, 9], [], 2, ["LU", "UL"], 0, [], 1000),
        (0, [0, 1], [], 2, ["UL", "LU"], 0, [], 1000),       # link names a live participant that never locked
    ]
    if not quick:
        fams += [
            (7, [0, 1, 2], [], 3, ["LU", "LU", "L"], 0, [], 60000),
            (None, [0, 1, 2], [], 3, ["LUL", "LU", "UL"], 1, [0, 1], 60000),
            (7, [0, 1, 2], [], 3, ["LU", "LU", "LU"], 0, [], 60000),
            (7, [0, 1, 2, 3], [], 4, ["L", "L", "L", "L"], 0, [], 60000),
            (None, [0, 1, 2, 3], [], 4, ["LU", "L", "L", "L"], 1, [0], 60000),
        ]
    for f in fams:
        yield from _explore(*f)
    for _ in range(3000 if quick else 25000):
        yield _walk(rng, rng.choice([1, 2, 2, 3, 3, 4]), rng.choice([6, 12, 20, 30, 45]))


def shrink(c):
    ev = c["ev"]
    for i in range(len(ev)):
        yield c | {"ev": ev[:i] + ev[i + 1:]}
    if c["n"] > 1 and not any(int(e[1:]) == c["n"] - 1 for e in ev):
        yield c | {"n": c["n"] - 1}


def search(rng, tier, disagreeing):
    """Property-directed: state-exhaustive exploration around the stale-lock branch + long walks."""
    yield from _explore(7, [0, 1], [], 2, ["LU", "LU"], 1, [0, 1], 30000)
    yield from _explore(None, [0, 1, 2], [], 3, ["LU", "LU", "L"], 1, [0], 30000)
    for _ in range(5000):
        yield _walk(rng, rng.choice([2, 3]), 40)
