"""C50 — FilesystemLock: real lock()/unlock() of N 'processes' interleaved primitive by primitive
(symlink/readlink/kill/rmlink interposed as module globals, each process in its own thread handed a
baton one primitive at a time — fully deterministic) vs the Lean automaton, plus the property oracle
(at most one holder; a holder can release; a dead owner's lock can be acquired) on the real code."""
import errno
import os
import pathlib
import shutil
import sys
import tempfile
import threading

from twisted.python import lockfile

HEADLINE = "TwistedProps.C50.mutual_exclusion_partial (+ mutual_exclusion_counterexample)"
RULE = ("schedules of events L<i>/U<i> (enter lock()/unlock()), S<i> (run process i's pending primitive and the Python "
        "up to its next primitive), X<i> (process dies/exits), B<i> (a NEW process with a fresh FilesystemLock object is "
        "born under the pid of a dead one that the link does not name: pid reuse) over 1..4 processes sharing one lock "
        "path, initial link absent / left by a dead pid (participant or not) / owned by a live non-participant / by a pid "
        "answering EPERM; process i has pid base+i with base from {1, 9, 99, 100, 255, 256, 300, 2^15-1, 2^15, 2^16-1, 2^16, "
        "~2^22, 2^31-12} (digit-length, small-int-cache, pid_max boundaries) and spells the lock path as str, bytes "
        "(readlink then answers bytes) or a pathlib path, mixed between the processes of one run; state-exhaustive "
        "breadth-first exploration of the real code for fixed per-process programs (every reachable state and every "
        "edge out of it is a case; crash and birth budgets) + seeded random walks; plus oracle-only runs of the UNPATCHED "
        "module (real os.symlink/readlink/kill/remove, real pids: own, a reaped child, the parent) on a temporary "
        "directory, random sequences of lock/unlock on two objects (str and bytes path) and planted dead/live links; "
        "distinct = (n, initial link class, crashes?, births?, max simultaneous holders, set of call outcomes, set of "
        "program counters visited, pid magnitude class, path spellings) resp. the set of (op, link before, outcome)")
ASSUMES = [
    "POSIX branch of lockfile.py (_windows False, kill available); symlink/readlink/kill/remove are each atomic "
    "(the guarantee the class docstring relies on) and nothing else touches the lock path",
    "the symlink target is a decimal pid (a foreign non-numeric target makes int(pid) raise ValueError out of lock())",
    "processes have distinct pids and a dead pid is not reused while the lock path names it (event B is refused then); "
    "reuse at any other moment is covered",
    "every process spells the lock path as str, bytes or os.PathLike of the same path",
    "only the errno values the code distinguishes are injected (EEXIST, ENOENT, ESRCH, EPERM); any other errno propagates out of lock()",
]
TRUSTED = [
    "harness/corr/C50.py baton scheduler: one (pooled) thread per call, exactly one thread runnable at a time; a primitive takes "
    "effect when its process is next scheduled (the interposed function blocks BEFORE touching the fake filesystem)",
]
MANIFEST = {
    "text": "Lean automaton of FilesystemLock.lock/unlock over atomic symlink/readlink/kill/rmlink for any number of "
            "processes and any schedule (TwistedModel/Fs/Lock.lean). Proved for all schedules: at most one holder on every "
            "run in which the stale-lock-breaking branch (kill -> ESRCH) is never taken — in particular with no dead owner's "
            "link and no process exit (mutual_exclusion_partial); a holder can release under any interleaving of the others; "
            "a dead owner's lock can be acquired by any live process from any of its program points. Schedules include "
            "`spawn` (a new process born under a dead pid the link does not name); mutual_exclusion_partial allows it. "
            "The full statement is FALSE for the code as written and the negation is proved on three schedules (stale "
            "initial link; unlock-then-exit; robbed holder born under the pid judged dead), all replayed on the real code: "
            "the pending rmlink after an ESRCH check deletes another process's live lock.",
    "note": "known finding stale-break-removes-live-lock (TOCTOU between readlink/kill/rmlink; not a small fix). Trusts Lean "
            "kernel, the hand-written automaton (tied per primitive, incl. the local `clean` read from the blocked frame), "
            "the baton scheduler, POSIX atomicity of the four primitives. The bindings of the four module globals to the os "
            "functions (and their errno answers) are exercised unpatched on a real directory, sequentially, oracle-only.",
    "technique": "Lean 4 proof (inductive invariant over schedules) + state-exhaustive differential tie on the real code",
    "design_ref": "DESIGN.md §7 C50",
}

PIDBASE = 100            # default of case["base"]: process i has pid base + i
BASES = [1, 9, 99, 100, 255, 256, 300, 32767, 32768, 65535, 65536, 4194300, 2 ** 31 - 12]
LOCKNAME = "/nonexistent-C50/lock"
# how a process spells the lock path (case["names"][i % len]): s = str, b = bytes (os.readlink then answers bytes),
# p = a pathlib path (os.PathLike); all three spell the SAME path
_NAMEKIND = {"s": LOCKNAME, "b": os.fsencode(LOCKNAME), "p": pathlib.PurePosixPath(LOCKNAME)}


def _norm(filename):
    return os.fsdecode(os.fspath(filename))
_ERR = {errno.ENOENT: "ENOENT", errno.EPERM: "EPERM", errno.EEXIST: "EEXIST", errno.ESRCH: "ESRCH"}


class _Abort(BaseException):
    pass


def _sem():
    """binary semaphore, initially 0 (strict hand-over: every release is consumed before the next)"""
    l = threading.Lock()
    l.acquire()
    return l


class _Worker:
    """a reusable thread (thread creation is the dominant cost otherwise): runs one call at a time"""

    def __init__(self):
        self.go = _sem()
        self.job = None
        threading.Thread(target=self._loop, daemon=True).start()

    def _loop(self):
        while True:
            self.go.acquire()
            job, self.job = self.job, None
            job()


_POOL = []


class _OsShim:
    """`lockfile.os` for the duration of a run: getpid() is the scheduled process's pid."""

    def __init__(self, world):
        self._w = world

    def getpid(self):
        return self._w.base + self._w.current.idx

    def __getattr__(self, name):
        return getattr(os, name)


class _P:
    def __init__(self, idx, kind="s"):
        self.idx = idx
        self.fl = lockfile.FilesystemLock(_NAMEKIND[kind])
        self.readgen = None     # which link instance the last readlink of this process saw
        self.thread = None      # the worker running this process's current call (None = idle)
        self.pending = None
        self.last = "-"
        self.abort = False
        self.lastkill = None
        self.releasing = False


def _b(x):
    return "1" if x else "0"


class World:
    def __init__(self, case):
        self.base = case.get("base", PIDBASE)
        self.names = case.get("names", "s") or "s"
        self.fs = {}             # normalised path → (target, instance number of that link)
        self.gen = 0
        if case["link"] is not None:
            self.fs[LOCKNAME] = (str(self.base + case["link"]), 0)
        self.zombies = []        # objects of dead processes whose pid was reused (their thread may be parked)
        self.status = {}
        for x in case["alive"]:
            self.status[x] = "a"
        for x in case["noperm"]:
            self.status[x] = "p"
        self.n = case["n"]
        self.procs = {}
        self.current = None
        self.back = _sem()
        # property bookkeeping (independent of the Lean model)
        self.holders = set()     # lock() returned True and unlock() has not returned since
        self.two = None          # first moment with two holders
        self.release = None      # a holder's unlock() raised
        self.stolen = None       # an rmlink after an ESRCH verdict removed a LIVE process's link
        self.maxh = 0
        self.pcs = set()

    def st(self, x):
        return self.status.get(x, "d")

    def proc(self, i):
        if i not in self.procs:
            self.procs[i] = _P(i, self.names[i % len(self.names)])
        return self.procs[i]

    # ---- the four primitives, executed when the calling process is next scheduled ------------
    def prim(self, name):
        def f(*args):
            p = self.current
            fr = sys._getframe(1)
            caller = fr.f_code.co_name
            clean = fr.f_locals.get("clean") if caller == "lock" else None
            p.pending = (name, caller, clean, args)
            del fr
            self.back.release()
            p.thread.go.acquire()
            if p.abort:
                raise _Abort()
            return getattr(self, "do_" + name)(p, caller, *args)
        return f

    def do_symlink(self, p, caller, value, filename):
        if _norm(filename) in self.fs:
            raise OSError(errno.EEXIST, "exists")
        self.gen += 1
        self.fs[_norm(filename)] = (os.fsdecode(value), self.gen)

    def do_readlink(self, p, caller, filename):
        if _norm(filename) not in self.fs:
            raise OSError(errno.ENOENT, "absent")
        target, p.readgen = self.fs[_norm(filename)]
        # like os.readlink: bytes for a bytes path, str for a str / PathLike-of-str path
        return os.fsencode(target) if isinstance(os.fspath(filename), bytes) else target

    def do_kill(self, p, caller, pid, sig):
        s = self.st(pid - self.base)
        p.lastkill = pid - self.base
        if s == "d":
            raise OSError(errno.ESRCH, "no such process")
        if s == "p":
            raise OSError(errno.EPERM, "not permitted")

    def do_rmlink(self, p, caller, filename):
        if _norm(filename) not in self.fs:
            raise OSError(errno.ENOENT, "absent")
        target, gen = self.fs.pop(_norm(filename))
        if caller == "lock":
            try:
                t = int(target) - self.base
            except ValueError:
                t = None
            # the finding's class: the link removed is NOT the link this process read and whose owner it found dead
            # (another one was created in between), and its owner is alive.  (With pid reuse the new link may even
            # carry the same pid as the one judged dead: compare link instances, not pids.)
            if gen != p.readgen and t is not None and self.st(t) == "a" and self.stolen is None:
                self.stolen = (p.idx, p.lastkill, t)

    # ---- scheduler ---------------------------------------------------------------------------
    def _call(self, p, op):
        try:
            r = p.fl.lock() if op == "L" else p.fl.unlock()
            p.last = repr(r)
        except _Abort:
            pass
        except OSError as e:
            p.last = "!OSError." + _ERR.get(e.errno, str(e.errno))
        except ValueError:
            p.last = "!ValueError"
        except BaseException as e:  # noqa
            p.last = "!" + type(e).__name__
        finally:
            p.pending = None
            _POOL.append(p.thread)
            p.thread = None
            self.back.release()

    def _wait(self):
        if not self.back.acquire(timeout=20):
            raise RuntimeError("scheduler: process did not come back")

    def _finished(self, p, op):
        """a call of p completed during this event"""
        if self.st(p.idx) != "a":
            return
        if op == "L" and p.last == "True":
            self.holders.add(p.idx)
        if op == "U":
            if p.last == "None":
                self.holders.discard(p.idx)
                if self.link() == p.idx and self.release is None:     # "released" but the path still names it
                    self.release = (p.idx, "None with its link left in place")
            elif p.releasing and self.release is None:
                self.release = (p.idx, p.last)
            p.releasing = False

    def event(self, ev):
        k, i = ev[0], int(ev[1:])
        if k == "B":
            # pid reuse: a NEW process (fresh FilesystemLock object) gets the pid of a dead one; the operating system
            # does not do that while the lock path names the pid (ASSUMES)
            if self.st(i) == "d" and self.link() != i:
                old = self.procs.pop(i, None)
                if old is not None:
                    self.zombies.append(old)
                self.status[i] = "a"
                self.proc(i)
            return
        p = self.proc(i)
        if self.st(i) != "a":
            return
        if k in "LU":
            if p.thread is not None:
                return
            if k == "U":
                p.releasing = i in self.holders
            self.current = p
            p.op = k
            p.thread = _POOL.pop() if _POOL else _Worker()
            p.thread.job = lambda: self._call(p, k)
            p.thread.go.release()
            self._wait()
            if p.thread is None:
                self._finished(p, k)
        elif k == "S":
            if p.thread is None:
                return
            self.current = p
            p.thread.go.release()
            self._wait()
            if p.thread is None:
                self._finished(p, p.op)
        elif k == "X":
            self.status[i] = "d"
            self.holders.discard(i)
        else:
            raise ValueError(ev)
        self.maxh = max(self.maxh, len(self.holders))
        if len(self.holders) >= 2 and self.two is None:
            self.two = sorted(self.holders)

    def cleanup(self):
        for p in list(self.procs.values()) + self.zombies:
            if p.thread is not None:
                p.abort = True
                p.thread.go.release()
                self._wait()

    # ---- observation -------------------------------------------------------------------------
    def pc(self, p):
        if p.pending is None:
            return "I"
        name, caller, clean, args = p.pending
        if caller == "lock":
            if name == "symlink":
                return "Ls" + _b(clean)
            if name == "readlink":
                return "Lr" + _b(clean)
            if name == "kill":
                return f"Lk{_b(clean)}.{args[0] - self.base}"
            if name == "rmlink":
                return "Lm" + _b(clean)
        if caller == "unlock":
            if name == "readlink":
                return "Ur"
            if name == "rmlink":
                return "Um"
        return f"?{caller}.{name}"

    def link(self):
        t = self.fs.get(LOCKNAME)
        if t is None:
            return None
        try:
            return int(t[0]) - self.base
        except ValueError:
            return t[0]

    def snapshot(self):
        l = self.link()
        out = ["-" if l is None else str(l)]
        for i in range(self.n):
            p = self.proc(i)
            pc = self.pc(p)
            self.pcs.add(pc[:2])
            locked = p.fl.locked
            clean = p.fl.clean
            out.append(f"{self.st(i)}:{pc}:{_b(locked) if isinstance(locked, bool) else repr(locked)}:"
                       f"{'-' if clean is None else _b(clean)}:{p.last}")
        return ";".join(out)

    # ---- "a lock left by a dead process can eventually be acquired" ----------------------------
    def epilogue(self, pick):
        l = self.link()
        if not (l is None or (isinstance(l, int) and self.st(l) == "d")):
            return None
        live = [i for i in range(self.n) if self.st(i) == "a"]
        if not live:
            return None
        i = live[pick % len(live)]
        p = self.proc(i)
        evs = []
        for _ in range(12):
            if p.thread is None:
                break
            self.event(f"S{i}")
            evs.append(f"S{i}")
        if p.thread is not None:
            return {"proc": i, "why": "pending call did not finish in 12 primitives", "events": evs}
        if self.link() == i and i in self.holders:
            return None
        self.event(f"L{i}")
        evs.append(f"L{i}")
        for _ in range(12):
            if p.thread is None:
                break
            self.event(f"S{i}")
            evs.append(f"S{i}")
        if p.thread is None and p.last == "True" and p.fl.locked is True and self.link() == i:
            return None
        return {"proc": i, "why": f"solo lock() ended {p.last} locked={p.fl.locked} link={self.link()}", "events": evs}


_RUNLOCK = threading.Lock()
_MEMO = {}          # case key → (trace line, info): the exploration in generate() and the engine run the same
_MEMO_MAX = 60000   # deterministic execution of the real code; each case is executed once


def _key(case):
    return (case["link"], tuple(case["alive"]), tuple(case["noperm"]), case["n"], tuple(case["ev"]),
            case.get("base", PIDBASE), case.get("names", "s"))


def _execute(case):
    """run the schedule on the real FilesystemLock objects → (trace line, info)"""
    if "real" in case:
        return _execute_real(case)
    k = _key(case)
    if k in _MEMO:
        return _MEMO[k]
    with _RUNLOCK:
        w = World(case)
        saved = {k2: getattr(lockfile, k2) for k2 in ("symlink", "readlink", "kill", "rmlink", "os")}
        lockfile.symlink, lockfile.readlink = w.prim("symlink"), w.prim("readlink")
        lockfile.kill, lockfile.rmlink = w.prim("kill"), w.prim("rmlink")
        lockfile.os = _OsShim(w)
        snaps = []
        acq = None
        try:
            for ev in case["ev"]:
                w.event(ev)
                snaps.append(w.snapshot())
            final = w.snapshot()
            two, release, stolen, maxh = w.two, w.release, w.stolen, w.maxh
            acq = w.epilogue(len(case["ev"]))
        finally:
            try:
                w.cleanup()
            finally:
                for k2, v in saved.items():
                    setattr(lockfile, k2, v)
        info = {"two": two, "release": release, "stolen": stolen, "acq": acq, "maxh": maxh,
                "pcs": sorted(w.pcs), "final": final}
        res = (("|".join(snaps) if snaps else "-"), info)
        if len(_MEMO) < _MEMO_MAX:
            _MEMO[k] = res
        return res


# ---- the UNPATCHED module on a real directory ----------------------------------------------------
# The interposed runs replace symlink/readlink/kill/rmlink wholesale; these cases tie the four module globals themselves
# (what they are bound to, the argument order they are called with, the errno each answers) to the operating system:
# one real process (this one), real pids, a real temporary directory, no interleaving.
#   ops: "Kd" plant a link naming a dead pid, "Kl" plant a link naming a live foreign pid, "K-" remove any link,
#        "La"/"Ua"/"Lb"/"Ub" lock()/unlock() on FilesystemLock object a / b (same process, same path; b spells it as bytes)
_REALPIDS = {}


def _isdead(pid):
    try:
        os.kill(pid, 0)
    except ProcessLookupError:
        return True
    except OSError:
        pass
    return False


def _realpids():
    if ("dead" in _REALPIDS and not _isdead(_REALPIDS["dead"])) or ("live" in _REALPIDS and _isdead(_REALPIDS["live"])):
        _REALPIDS.clear()           # the kernel handed the reaped child's pid out again (or the parent went away): take others
    if not _REALPIDS:
        import subprocess
        for _ in range(20):
            child = subprocess.Popen([sys.executable, "-c", "pass"])
            child.wait()
            try:
                os.kill(child.pid, 0)
            except ProcessLookupError:
                _REALPIDS["dead"] = child.pid      # reaped; not handed out again before the pid counter wraps
                break
            except OSError:
                pass
        live = os.getppid()
        _REALPIDS["live"] = live if live > 1 and live != os.getpid() else 1
    return _REALPIDS


def _execute_real(case):
    k = ("real", tuple(case["real"]))
    if k in _MEMO:
        return _MEMO[k]
    for _ in range(5):
        pids = dict(_realpids())
        res = _execute_real_once(case, pids)
        if ("dead" not in pids or _isdead(pids["dead"])) and not _isdead(pids["live"]):
            break                   # else: the "dead" pid came back to life during the run (pid reuse on a busy machine): again
    _MEMO[k] = res
    return res


def _execute_real_once(case, pids):
    d = tempfile.mkdtemp(prefix="C50-real-")
    name = os.path.join(d, "the.lock")
    objs = {"a": lockfile.FilesystemLock(name), "b": lockfile.FilesystemLock(os.fsencode(name))}
    me = os.getpid()

    def linkclass():
        try:
            t = os.readlink(name)
        except FileNotFoundError:
            return "-"
        return {str(me): "own", str(pids.get("dead")): "dead", str(pids["live"]): "live"}.get(t, "?" + t)

    steps = []     # (op, link class before, outcome, link class after)
    with _RUNLOCK:
        try:
            for op in case["real"]:
                before = linkclass()
                if op[0] == "K":
                    if os.path.lexists(name):
                        os.remove(name)
                    if op[1] == "d" and "dead" in pids:
                        os.symlink(str(pids["dead"]), name)
                    elif op[1] == "l":
                        os.symlink(str(pids["live"]), name)
                    res = "-"
                else:
                    o = objs[op[1]]
                    try:
                        res = repr(o.lock() if op[0] == "L" else o.unlock())
                    except OSError as e:
                        res = "!OSError." + _ERR.get(e.errno, errno.errorcode.get(e.errno, str(e.errno)))
                    except BaseException as e:  # noqa
                        res = "!" + type(e).__name__
                steps.append((op, before, res, linkclass()))
        finally:
            shutil.rmtree(d, ignore_errors=True)
    out = "|".join(f"{op}:{b}>{r}>{a}" for op, b, r, a in steps) or "-"
    return (out, {"steps": steps, "final": "real", "maxh": 0, "pcs": []})


def _oracle_real(case, info):
    """the statement for ONE real process against the real filesystem: lock() acquires a path that is free or names a dead
    pid (and the link then names this process); lock() does not acquire and leaves the link alone while a live process
    owns it; the holder's unlock() returns and leaves the path free; unlock() leaves a live foreign owner's link alone."""
    for n, (op, before, res, after) in enumerate(info["steps"]):
        bad = None
        if op[0] == "L":
            if before in ("-", "dead") and not (res == "True" and after == "own"):
                bad = ("stale-not-acquirable" if before == "dead" else "free-not-acquirable")
            elif before in ("own", "live") and (res == "True" or after != before):
                bad = "two-holders"          # acquired, or touched the link, while a live process owns it
        elif op[0] == "U":
            if before == "own" and not (res == "None" and after == "-"):
                bad = "holder-cannot-release"
            elif before == "live" and after != "live":
                bad = "two-holders"
        if bad:
            return {"key": "real-" + bad, "detail": f"unpatched lockfile on a real directory, step {n} {op}: link {before} "
                                                    f"-> outcome {res}, link {after}; all steps {info['steps']}"}
    return None


def run_impl(case):
    return _execute(case)[0]


def _info(case):
    return _execute(case)[1]


def model_line(c):
    if "real" in c:
        return None          # oracle-only: one real process on the real filesystem (the model's atomic steps are not observable)

    def lst(xs):
        return ",".join(str(x) for x in xs) if xs else "-"
    return (f"run {'-' if c['link'] is None else c['link']} {lst(c['alive'])} {lst(c['noperm'])} {c['n']} "
            f"{','.join(c['ev']) if c['ev'] else '-'}")


def oracle(case, out):
    """The statement on the real objects: holders = processes whose lock() returned True and whose unlock() has not
    returned (dead processes hold nothing).  Independent of the Lean model."""
    if out.startswith("!raised"):
        return {"key": "harness-raised", "detail": out}
    info = _info(case)
    if "real" in case:
        return _oracle_real(case, info)
    # the finding's class: a process judged a link's owner dead (ESRCH) and its later rmlink removed ANOTHER, live process's link
    cls = "stale-break-removes-live-lock" if info["stolen"] else None
    if info["two"]:
        return {"key": cls or "two-holders",
                "detail": f"processes {info['two']} hold the lock at once (stolen={info['stolen']}) after {len(case['ev'])} events"}
    if info["release"]:
        return {"key": cls or "holder-cannot-release",
                "detail": f"holder {info['release'][0]} unlock() ended {info['release'][1]} (stolen={info['stolen']})"}
    if info["acq"]:
        return {"key": cls or "stale-not-acquirable", "detail": f"{info['acq']}"}
    return None


def _linkclass(c):
    l = c["link"]
    if l is None:
        return "none"
    if l in c["noperm"]:
        return "noperm"
    if l in c["alive"]:
        return "live-part" if l < c["n"] else "live-other"
    return "stale"


def _baseclass(c):
    b = c.get("base", PIDBASE)
    return "small" if b + c["n"] <= 256 else "mid" if b + c["n"] <= 32768 else "big"


def tag(c, out):
    info = _info(c)
    if "real" in c:
        return "real:" + ",".join(sorted({f"{op[0]}{b}>{r}" for op, b, r, a in info["steps"]}))
    outcomes = sorted({f.split(":")[4] for f in info["final"].split(";")[1:]})
    return (f"n{c['n']}:{_linkclass(c)}:{'x' if any(e[0] == 'X' for e in c['ev']) else ''}"
            f"{'b' if any(e[0] == 'B' for e in c['ev']) else ''}:h{info['maxh']}:"
            f"{','.join(outcomes)}:{''.join(info['pcs'])}:{_baseclass(c)}:{''.join(sorted(set(c.get('names', 's'))))}")


def nontrivial(c, out):
    return bool(c.get("real") or c.get("ev"))


# ---- cases ------------------------------------------------------------------------------------

def _case(link, alive, noperm, n, ev, base=PIDBASE, names="s"):
    return {"link": link, "alive": list(alive), "noperm": list(noperm), "n": n, "ev": list(ev), "base": base, "names": names}


def _real(*ops):
    return {"real": list(ops)}


W_STALE = _case(7, [0, 1], [], 2, ["L1", "S1", "S1", "S1", "L0", "S0", "S0", "S0", "S0", "S0", "S1", "S1"])
W_REUSE = _case(1, [0, 2], [], 3, ["L0", "S0", "S0", "S0", "L2", "S2", "S2", "S2", "S2", "S2", "U2", "S2", "S2", "B1", "L1", "S1", "S0", "S0"])
W_EXIT = _case(None, [0, 1, 2], [], 3, ["L0", "S0", "L1", "S1", "S1", "U0", "S0", "S0", "X0", "L2", "S2", "S1", "S1", "S1"])


def corpus():
    return [
        W_STALE,                                             # the §0 witness: dead owner's link, B's pending rmlink deletes A's lock
        W_EXIT,                                              # no stale link at all: owner unlocks and exits between B's readlink and kill
        W_STALE | {"ev": W_STALE["ev"] + ["U0", "S0"]},       # … and then the robbed holder cannot release (ValueError)
        _case(None, [0], [], 1, ["L0", "S0", "U0", "S0", "S0"]),
        _case(None, [0, 1], [], 2, ["L0", "S0", "L1", "S1", "S1", "S1", "U1", "S1", "U0", "S0", "S0", "L1", "S1"]),
        _case(7, [0], [], 1, ["L0", "S0", "S0", "S0", "S0", "S0", "U0", "S0", "S0"]),
        _case(8, [0], [8], 1, ["L0", "S0", "S0", "S0"]),      # kill → EPERM propagates
        _case(9, [0, 9], [], 1, ["L0", "S0", "S0", "S0", "U0", "S0"]),   # live foreign owner
        _case(None, [0], [], 1, ["U0", "S0", "L0", "S0", "L0", "S0", "S0", "S0"]),  # unlock unlocked; lock twice
        _case(None, [0, 1], [], 2, ["L0", "S0", "L1", "S1", "U0", "S0", "S0", "S1", "S1"]),  # link vanishes before readlink
        _case(None, [0, 1], [], 2, []),
        # --- white-box mutation audit (harness/mutants/C50) ---
        W_REUSE,                                             # the finding again, the robbed holder born under the pid judged dead
        # pid reuse AFTER the stale link is gone: 0 breaks dead pid 1's lock, releases; a new pid-1 process locks; 0 must be refused
        _case(1, [0], [], 2, ["L0", "S0", "S0", "S0", "S0", "S0", "U0", "S0", "S0", "B1", "L1", "S1",
                              "L0", "S0", "S0", "S0", "U1", "S1", "S1"], base=300, names="sb"),
        # pids above the small-int cache / above 2**15 / 2**16 / 2**22; bytes and PathLike spellings of the path
        _case(None, [0, 1], [], 2, ["L0", "S0", "L1", "S1", "S1", "S1", "U0", "S0", "S0", "L1", "S1", "U1", "S1", "S1"], base=256, names="sb"),
        _case(None, [0, 1], [], 2, ["L0", "S0", "L1", "S1", "S1", "S1", "U0", "S0", "S0", "L1", "S1", "U1", "S1", "S1"], base=40000, names="bp"),
        _case(7, [0, 1], [], 2, ["L1", "S1", "S1", "S1", "S1", "S1", "L0", "S0", "S0", "S0", "U1", "S1", "S1"], base=4194300, names="pb"),
        _case(7, [0], [], 1, ["L0", "S0", "S0", "S0", "S0", "S0", "U0", "S0", "S0"], base=2 ** 31 - 12, names="b"),
        # the unpatched module on a real directory
        _real("La", "Lb", "Ua", "La", "Ub", "Ub"),
        _real("Kd", "La", "Ua", "Kd", "Lb", "Ub"),
        _real("Kl", "La", "Ua", "Lb", "Ub", "K-", "La", "Ua"),
    ]


def _explore(link, alive, noperm, n, programs, crashes, crashable, limit, base=PIDBASE, names="s", births=0):
    """Breadth-first over the states of the REAL code: every reachable state once, every edge out of it a case.
    `births`: how many times a dead participant's pid may be given to a new process (which runs its program from the start)."""
    rec = {"link": link, "n": n, "programs": programs, "crashes": crashes, "births": births, "base": base, "names": names,
           "cases": 0, "states": 0, "exhausted": True}
    _EXPLORED.append(rec)
    seen = set()
    frontier = [([], tuple(0 for _ in programs), (crashes, births), None)]
    count = 0
    while frontier:
        nxt = []
        for path, pos, cr, final in frontier:
            fields = final.split(";")[1:] if path else None
            curlink = final.split(";")[0] if path else ("-" if link is None else str(link))
            for i in range(n):
                if fields is None:
                    status, pc = ("a" if i in alive else "p" if i in noperm else "d"), "I"
                else:
                    status, pc = fields[i].split(":")[0:2]
                if status == "d" and cr[1] > 0 and curlink != str(i):
                    succ = [(f"B{i}", pos[:i] + (0,) + pos[i + 1:], (cr[0], cr[1] - 1))]
                elif status != "a":
                    continue
                else:
                    succ = []
                if status == "a" and pc == "I":
                    if pos[i] < len(programs[i]):
                        succ.append((programs[i][pos[i]] + str(i), pos[:i] + (pos[i] + 1,) + pos[i + 1:], cr))
                elif status == "a":
                    succ.append((f"S{i}", pos, cr))
                if status == "a" and cr[0] > 0 and i in crashable:
                    succ.append((f"X{i}", pos, (cr[0] - 1, cr[1])))
                for ev, pos2, cr2 in succ:
                    p2 = path + [ev]
                    c2 = _case(link, alive, noperm, n, p2, base, names)
                    _, inf2 = _execute(c2)
                    count += 1
                    rec["cases"] = count
                    yield c2
                    if count >= limit:
                        rec["exhausted"] = False
                        return
                    sig = (inf2["final"], pos2, cr2, tuple(sorted(_holders_sig(inf2))))
                    if sig not in seen:
                        seen.add(sig)
                        rec["states"] = len(seen)
                        nxt.append((p2, pos2, cr2, inf2["final"]))
        frontier = nxt


_EXPLORED = []


def extra_evidence():
    """per explored family: number of distinct states of the real code, cases, and whether the frontier emptied"""
    return {"exploration": list(_EXPLORED)}


def _holders_sig(info):
    return [str(info["two"]), str(info["release"]), str(info["stolen"])]


def _walk(rng, n, length):
    link = rng.choice([None, None, 7, 7, 7, 8, 9, 0, 1])
    alive = list(range(n)) + [9]
    if n > 1 and rng.random() < 0.3:
        alive.remove(rng.randrange(n))          # a participant pid that is dead at the start (may be born later)
    noperm = [8]
    ev = []
    busy = [False] * n      # a guess only (steers the mix of events; ill-timed events are no-ops on both sides)
    for _ in range(length):
        i = rng.randrange(n)
        r = rng.random()
        if r < 0.04:
            ev.append(f"X{i}")
        elif r < 0.09:
            ev.append(f"B{i}")
            busy[i] = False
        elif not busy[i] or r < 0.12:
            ev.append(("L" if rng.random() < 0.65 else "U") + str(i))
            busy[i] = True
        else:
            ev.append(f"S{i}")
            if rng.random() < 0.25:
                busy[i] = False
    return _case(link, alive, noperm, n, ev, rng.choice(BASES), rng.choice(["s", "s", "b", "p", "sb", "bs", "sbp", "pbs"]))


_REAL_OPS = ["La", "Lb", "Ua", "Ub", "La", "Lb", "Ua", "Ub", "Kd", "Kl", "K-"]


def generate(rng, tier):
    quick = tier == "quick"
    K = dict
    fams = [
        # (link, alive, noperm, n, per-process programs, crash budget, who may crash, case limit), {pid base, path spellings, births}
        ((7, [0, 1], [], 2, ["L", "L"], 0, [], 4000), K()),
        ((7, [0, 1], [], 2, ["LU", "LU"], 0, [], 4000), K(base=300, names="sb")),
        ((7, [0, 1], [], 2, ["LU", "LU"], 1, [0, 1], 6000), K(base=65536, names="bs")),
        ((None, [0, 1], [], 2, ["LU", "LU"], 1, [0], 4000), K(base=255, names="sp")),
        ((None, [0, 1, 2], [], 3, ["LU", "L", "L"], 1, [0], 4000), K(base=4194300, names="sbp")),
        ((7, [0, 1, 2], [], 3, ["L", "L", "L"], 0, [], 6000), K(base=9, names="bbs")),
        ((8, [0, 1], [8], 2, ["LU", "L"], 0, [], 1000), K(base=32767)),
        ((9, [0, 1, 9], [], 2, ["LU", "UL"], 0, [], 1000), K(base=100000, names="b")),
        ((0, [0, 1], [], 2, ["UL", "LU"], 0, [], 1000), K(base=1, names="ps")),       # link names a live participant that never locked
        # the same small protocols once more with the plain spelling / small pids swapped for bytes paths and large pids
        ((None, [0, 1], [], 2, ["LU", "LU"], 0, [], 1000), K(base=2 ** 31 - 12, names="b")),
        ((7, [0, 1], [], 2, ["LU", "L"], 0, [], 1000), K(base=32768, names="pb")),
        # pid reuse: the dead owner's pid (a participant) is given to a new process once the link no longer names it;
        # the object that broke the stale lock locks again
        ((1, [0], [], 2, ["LUL", "LU"], 0, [], 3000), K(births=1)),
        ((None, [0, 1], [], 2, ["LUL", "LU"], 1, [1], 3000), K(base=70000, names="sb", births=1)),
    ]
    if not quick:
        fams += [
            ((7, [0, 1, 2], [], 3, ["LU", "LU", "L"], 0, [], 60000), K(base=256, names="sbp")),
            ((None, [0, 1, 2], [], 3, ["LUL", "LU", "UL"], 1, [0, 1], 60000), K(base=65535, names="bps")),
            ((7, [0, 1, 2], [], 3, ["LU", "LU", "LU"], 0, [], 60000), K()),
            ((7, [0, 1, 2, 3], [], 4, ["L", "L", "L", "L"], 0, [], 60000), K(base=99, names="sb")),
            ((None, [0, 1, 2, 3], [], 4, ["LU", "L", "L", "L"], 1, [0], 60000), K(base=4194300, names="b")),
            ((2, [0, 1], [], 3, ["LUL", "LU", "L"], 0, [], 30000), K(base=300, names="sbp", births=1)),
            ((None, [0, 1, 2], [], 3, ["LUL", "LU", "L"], 1, [1], 30000), K(births=1)),
        ]
    for f, kw in fams:
        yield from _explore(*f, **kw)
    for _ in range(60 if quick else 600):
        yield _real(*[rng.choice(_REAL_OPS) for _ in range(rng.choice([4, 8, 12]))])
    for _ in range(3000 if quick else 25000):
        yield _walk(rng, rng.choice([1, 2, 2, 3, 3, 4]), rng.choice([6, 12, 20, 30, 45]))


def shrink(c):
    if "real" in c:
        ops = c["real"]
        for i in range(len(ops)):
            yield {"real": ops[:i] + ops[i + 1:]}
        return
    ev = c["ev"]
    for i in range(len(ev)):
        yield c | {"ev": ev[:i] + ev[i + 1:]}
    if c["n"] > 1 and not any(int(e[1:]) == c["n"] - 1 for e in ev):
        yield c | {"n": c["n"] - 1}
    if c.get("names", "s") != "s":
        yield c | {"names": "s"}
    if c.get("base", PIDBASE) != PIDBASE:
        yield c | {"base": PIDBASE}


def search(rng, tier, disagreeing):
    """Property-directed: state-exhaustive exploration around the stale-lock branch + long walks."""
    yield from _explore(7, [0, 1], [], 2, ["LU", "LU"], 1, [0, 1], 30000, base=65536, names="bs")
    yield from _explore(None, [0, 1, 2], [], 3, ["LU", "LU", "L"], 1, [0], 30000)
    yield from _explore(1, [0], [], 2, ["LUL", "LU"], 1, [0, 1], 30000, base=300, names="sb", births=1)
    for _ in range(5000):
        yield _walk(rng, rng.choice([2, 3]), 40)
