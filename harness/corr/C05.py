"""C05 — inlineCallbacks / coroutines vs synchronous execution, incl. cancellation.

A case is a program of the mini language of lean/TwistedModel/Inline/Lang.lean plus a schedule.
The program is COMPILED to real Python three times (generator for @inlineCallbacks, `async def`
for ensureDeferred, a plain synchronous function), the first two run on the real
twisted.internet.defer under the schedule (tie: same timeline as the Lean driver), the third is
the property oracle: it is run on the outcomes the awaited Deferreds really had and must log the
same observations and end the same way.

Enlarged after seeded change C05-2 (a Failure SUBCLASS instance held by an already-failed Deferred was returned as
the VALUE of `await`) was missed: the object a Deferred is fired with is now part of the case — a value, or a
failure given as Failure / instance of a Failure subclass / bare exception / Failure through callback(), carrying
UserError or UserBase (a BaseException that is not an Exception) —, for scheduled fires and for cancellers; the
awaited object itself may be an instance of a Deferred subclass and/or a Deferred that HAS been fired but is paused
on (chained to) the Deferred the schedule fires; programs can raise/catch BaseException.  The Lean driver models the
two ways an outcome reaches a function (`_inlineCallbacks`' isinstance test for generators and for Deferreds that
fire while waited on; `Deferred.__await__`'s own isinstance test for a coroutine that awaits a Deferred which already
has a result), so the kind of every function is part of the model line.
"""
import json
import warnings

from twisted.internet.defer import (
    AlreadyCalledError,
    CancelledError,
    Deferred,
    ensureDeferred,
    inlineCallbacks,
    returnValue,
)
from twisted.python.failure import Failure

HEADLINE = "TwistedProps.C05.inline_matches_sync"
RULE = ("[after seeded change C05-3 (a shortcut in _inlineCallbacks taking .result of a fired Deferred that is still running its "
        "last callback) was missed: + ORACLE-ONLY cases (no model line), about 1/7 of the cases: an awaited Deferred j whose "
        "last callback fires Deferred j-1 (the function waits on it, is resumed INSIDE that callback and awaits j) and then passes "
        "on / replaces by a value / raises (UserError | UserBase) / returns another, already fired Deferred; + statement `w` = await the Deferred awaited last AGAIN (retry "
        "loops; after it fired, failed or was cancelled while waited on, or before) — the twin sees None the second time; both "
        "with cancels, nesting through generators, all awaited-object kinds; tag adds relay actions and whether a Deferred was "
        "awaited while running a callback]  "
        "[after the white-box mutation audit: + returnValue() in generators; + a value that travels as None (fired, yielded, "
        "returned); + awaited objects of a sub-subclass of Deferred; + 1-3 callbacks on the returned Deferred; + long runs "
        "(150-400 Deferreds that have fired already, consumed without giving control back); + nested functions that survive "
        "2-4 cancellations; + triple cancels]  "
        "random structured programs (seq/try-except/try-finally/loops/return/raise/if/plain yields/nested calls through "
        "decorated functions, bare generator and coroutine objects, ensureDeferred, fromCoroutine, `yield from`/direct await; "
        "raise/except of a BaseException that is not an Exception; depth <= 4, <= 10 awaited Deferreds), each compiled as "
        "@inlineCallbacks generator AND as coroutine; every awaited Deferred pre-fired or fired later (any order) with a value "
        "or with a failure (UserError | UserBase) handed over as Failure | instance of a Failure SUBCLASS | bare exception | "
        "Failure through callback(), and with one of 4 canceller behaviours (the failing one again in any of those classes); the "
        "awaited object a plain Deferred | instance of a Deferred subclass | fired-but-paused Deferred chained to the one the "
        "schedule fires; cancel() of the returned Deferred injected at every position of the schedule (once or twice); distinct = "
        "(kind, statement kinds used, call styles, #pre-fired, #cancels that hit a waiting function, failure classes x "
        "exception kinds delivered, awaited-object kinds, ended?)")
ASSUMES = [
    "MODEL-COMPARED cases: each awaited Deferred is awaited once (the k-th executed await gets Deferred k) and carries no other "
    "callbacks than a pass-through recorder (and, for the 'chained' kind, the one callback that returned the Deferred it is paused "
    "on).  ORACLE-ONLY cases (case['relay'], statement `w`; generators judged in full, coroutines up to the recorded finding "
    "coroutine-await-inside-own-callback) lift both: one further callback that fires another awaited Deferred and decides the "
    "outcome, and a second await of the same Deferred (expected None: the first await consumed the outcome).  The Lean model and "
    "theorems do NOT cover these: no callbacks on awaited Deferreds, no _runningCallbacks, no second await in Inline/Driver.lean",
    "plain yielded values and callback() values are ints (a Failure instance yielded as a PLAIN value is raised back into an "
    "inlineCallbacks generator — `yield` is documented as 'roughly maybeDeferred' — and is outside the statement's 'plain values')",
    "cancel() of the returned Deferred comes from outside the function (not re-entrantly from its own body or from a canceller)",
    "cancellers of awaited Deferreds return normally (C03 covers raising cancellers)",
    "returnValue() (deprecated) is exercised where it means `return`: not inside the function's own `except BaseException` and "
    "not in a generator delegated to with `yield from` (there it ends the delegating function, by design); contextvars "
    "propagation is not exercised",
    "values other than ints: only None (case flag `nil`: one int of the case is represented by None on every Deferred, plain "
    "yield and return; the compiled function maps it back when it receives it, so the model sees the int)",
    "the callbacks an application adds to the RETURNED Deferred after the observer (flag `nobs`) replace the result; only their "
    "being run once, after the observer, is checked",
    "re-awaiting one Deferred: (5, None) in a generator — now generated and judged (statement `w`); a COROUTINE that awaits a "
    "Deferred which already has a result does not consume it ((5, 5)) and, when the Deferred is running a callback, reads that "
    "callback's input (or trips `assert self._debugInfo is not None`): `w` is therefore generated for generators only, the two "
    "coroutine corpus cases reproduce the recorded finding; re-entrant cancel() is harmless (probed by hand)",
]
TRUSTED = [
    "Inline/Machine.lean (`denote`): my transcription of Python generator/coroutine semantics (try/except/finally on throw, "
    "return in finally, yield from) — validated on every run because the compiled Python runs on CPython",
    "Inline/Driver.lean abstracts the Deferreds created by _cancellableInlineCallbacks into an activation stack "
    "(the d0->d1 replacement chain of _handleCancelInlineCallbacks is not a model object); the tie runs the real ones",
    "the model's awaited Deferred is one record whatever the class of the real object (Deferred / subclass in "
    "_DEFERRED_SUBCLASSES / paused-and-chained): the model line does not carry that kind, the tie expects the same line for all; "
    "after gen.send() Deferred.__await__ re-reads self.result — the model hands the coroutine the outcome directly",
    "harness/corr/C05.py compiler from the mini language to Python source",
    "realisation choices invisible to the model (the tie expects the same line whatever they are): `dk` (class of the awaited "
    "object), `dbg` (Deferred debugging on), `nil` (an int travelling as None), `nobs` (further callbacks on the returned Deferred), `rv` (returnValue(v) for "
    "`return v`): the theorems say nothing about them, the tie and the oracle run the real code with them",
]
MANIFEST = {
    "text": "Lean theorems (TwistedProps/C05.lean), for every program of the mini generator language, every canceller "
            "assignment and every schedule of fire/cancel events: the log of values/exceptions observed inside the function and "
            "the results delivered by the returned Deferred under the transcribed _inlineCallbacks driver equal the synchronous "
            "evaluation of the same program on the outcomes the awaited Deferreds had (fires at most once; exactly once iff the "
            "synchronous run ends); cancel() while waiting reaches exactly the awaited Deferred once, that Deferred gets the outcome "
            "its canceller chose (CancelledError if none) and the first thing the function logs is that outcome at the await it "
            "was suspended at. All of it for generator and coroutine functions (Deferred.__await__'s already-fired shortcut is a "
            "model object), for results of every failure class (Failure, Failure subclass, bare exception, Failure via callback: "
            "fired_result_observed_by_isinstance) and for BaseException-derived exceptions. The theorems have no size bound; the tie "
            "now also runs long programs (hundreds of already-fired Deferreds in one go), None values, returnValue(), sub-subclasses of "
            "Deferred, several callbacks on the returned Deferred and nested functions cancelled up to 4 times (white-box mutation "
            "audit, harness/mutants/C05/README.md). NOT PROVED, tie by oracle only (after seeded change C05-3): awaited Deferreds "
            "that carry a callback which resumes the function and then replaces the result (the function awaits a Deferred that is "
            "running a callback), and awaiting one Deferred again — the model has neither callbacks on awaited Deferreds nor "
            "_runningCallbacks; the synchronous-twin oracle judges these on the real code (generators in full; coroutines: recorded "
            "finding coroutine-await-inside-own-callback). PARTIAL: Python generator semantics and the replacement-Deferred chain are transcriptions/abstractions "
            "tied by differential runs of compiled programs (generator and coroutine) against the real defer.py.",
    "note": "trusts Lean kernel, my CPS transcription of Python generator semantics, the activation-stack abstraction of nested "
            "inlineCallbacks Deferreds, the program compiler in harness/corr/C05.py",
    "technique": "Lean 4 proof (CPS/big-step equivalence + driver simulation invariant over all schedules) + differential tie "
                 "of compiled programs + synchronous-twin oracle",
    "design_ref": "DESIGN.md §7.1 C05",
}


# ----------------------------------------------------------------------------------------------
# the mini language as JSON:  ["k"] ["a"] ["y",E] ["s",E] ["m",n] ["q",A,B] ["x",c,B,H] ["f",B,F] ["l",k,B]
#                             ["r",E] ["e",n] ["eb",n] ["i",n,A,B] ["c",wrapped,P,style]      E = ["L",n] | ["A"] | ["P",n]
# catch c: "a" Exception · "u" UserError · "c" CancelledError · "b" BaseException
# fire outcome: ["v",n] | ["u",n,C] | ["b",n,C]  (UserError / UserBase)   C = "p" errback(Failure) · "s" errback(SubFailure) ·
#               "r" errback(exception) · "k" callback(Failure)           (missing C = "p")
# canceller spec: ["n"] | ["z"] | ["o",v] | ["e",n,C,"u"|"b"]            (legacy ["e",n] = ["e",n,"r","u"])
# case["dk"][i]: how awaited Deferred i is realised: "" Deferred · "S" SubDeferred · "T" SubSubDeferred (a subclass of a
#               subclass) · "C" fired, paused on the Deferred the schedule fires · "SC"/"TC" both
# ["rv",E]    : the deprecated `returnValue(E)` in a generator, `return E` in a coroutine and in the synchronous twin; the model
#               line says `r<E>` (same meaning wherever the generator puts it: see _sanitize)
# case["nil"] : int n — the value n is REPRESENTED BY `None` wherever it crosses the Twisted code (callback(None), `yield None`,
#               `return None`); the function maps it back on receipt, so the model line is unchanged
# case["dbg"] : run under defer.setDebugging(True)
# ["w"]       : await AGAIN the Deferred that was awaited last (the first one if none was); logged `w:<outcome>`, `w:none` when the
#               outcome had been handed over before (what a synchronous second look finds); ORACLE-ONLY (model_line → None)
# case["relay"]: [[j, i, outcome, action], ...] — awaited Deferred j gets, as its LAST callback (addBoth), one that fires Deferred i
#               with `outcome` and then: ["p"] passes its input on · ["v",n] returns n · ["u",n]/["b",n] raises UserError/UserBase ·
#               ["d",outcome] returns another Deferred that has fired with `outcome`; what it returns IS Deferred j's outcome
#               (recorded by that callback; timeline tokens Y<j> … y<j>; W<k> = Deferred k was handed to an await while it
#               was running a callback).  ORACLE-ONLY
# case["nobs"]: number of callbacks on the returned Deferred (default 1): the first one is the property's observer, the later
#               ones are an application's further callbacks, which replace the result by an object of their own

class UserError(Exception):
    def __init__(self, n):
        Exception.__init__(self, n)
        self.n = n


class UserBase(BaseException):
    """an exception that `except Exception` does not catch"""

    def __init__(self, n):
        BaseException.__init__(self, n)
        self.n = n


class SubFailure(Failure):
    """application subclass of Failure (like twisted.spread.pb.CopiedFailure)"""

    origin = "remote-peer"


class SubDeferred(Deferred):
    """application subclass of Deferred (like DeferredList); registered in defer._DEFERRED_SUBCLASSES by __init_subclass__"""


class SubSubDeferred(SubDeferred):
    """subclass of a subclass (registered through the inherited __init_subclass__)"""


class _Later:
    """what a later callback of the returned Deferred turns the result into"""


class _Blocked(BaseException):
    """the synchronous twin reached an await whose Deferred never got an outcome"""


class _Plain:
    """awaitable that yields a plain value to the driver (what `yield v` does in a generator)"""

    def __init__(self, v):
        self.v = v

    def __await__(self):
        r = yield self.v
        return r


def _enc_expr(e):
    return "A" if e[0] == "A" else "%s%d" % (e[0], e[1])


def enc_prog(p):
    out = []

    def go(s):
        t = s[0]
        if t in ("k", "a"):
            out.append(t)
        elif t in ("y", "s", "r"):
            out.append(t + _enc_expr(s[1]))
        elif t == "rv":
            out.append("r" + _enc_expr(s[1]))
        elif t in ("m", "e", "eb"):
            out.append("%s%d" % (t, s[1]))
        elif t == "q":
            out.append("q"); go(s[1]); go(s[2])
        elif t == "x":
            out.append("x" + s[1]); go(s[2]); go(s[3])
        elif t == "f":
            out.append("f"); go(s[1]); go(s[2])
        elif t == "l":
            out.append("l%d" % s[1]); go(s[2])
        elif t == "i":
            out.append("i%d" % s[1]); go(s[2]); go(s[3])
        elif t == "c":
            out.append(("cwc" if _style(s) >= 2 else "cwg") if s[1] else "cd"); go(s[2])
        else:
            raise ValueError(t)

    go(p)
    return ",".join(out)


def _style(s):
    return (s[3] if len(s) > 3 else 0) % 4


def _py_expr(e):
    if e[0] == "L":
        return str(e[1])
    if e[0] == "A":
        return "acc"
    return "(acc + %d)" % e[1]


_CATCH = {"a": "Exception", "u": "UserError", "c": "CancelledError", "b": "BaseException"}


class _Compiler:
    """program → Python source defining f<N>_gen / f<N>_coro / f<N>_sync for the top (N=0) and every call node"""

    def __init__(self, prog):
        self.funcs = []          # (name index, body)
        self.lines = []
        self.ids = {}
        self._collect(prog)

    def _collect(self, body):
        idx = len(self.funcs)
        self.funcs.append(body)
        self.ids[id(body)] = idx

        def walk(s):
            t = s[0]
            if t == "c":
                self._collect(s[2])
            elif t in ("q", "f"):
                walk(s[1]); walk(s[2])
            elif t == "x":
                walk(s[2]); walk(s[3])
            elif t == "l":
                walk(s[2])
            elif t == "i":
                walk(s[2]); walk(s[3])

        walk(body)

    def source(self):
        for idx, body in enumerate(self.funcs):
            for kind in ("gen", "coro", "sync"):
                head = {"gen": "def f%d_gen():", "coro": "async def f%d_coro():", "sync": "def f%d_sync():"}[kind] % idx
                self.lines.append(head)
                self.lines.append("    acc = 0")
                if kind == "gen":
                    self.lines.append("    if False: yield None")
                self.depth = 0
                self.stmt(body, kind, 1)
                self.lines.append("    return nilv(acc)")
            self.lines.append("f%d_deco = inlineCallbacks(f%d_gen)" % (idx, idx))
        return "\n".join(self.lines) + "\n"

    def emit(self, ind, text):
        self.lines.append("    " * ind + text)

    def observed(self, ind, target, expr, tag):
        """`target = <expr>` with the outcome logged inside the function"""
        self.emit(ind, "try:")
        self.emit(ind + 1, "_r = unnil((%s))" % expr)
        self.emit(ind, "except BaseException as _e:")
        self.emit(ind + 1, "logexc(%r, _e)" % tag)
        self.emit(ind + 1, "raise")
        self.emit(ind, "else:")
        self.emit(ind + 1, "logval(%r, _r)" % tag)
        self.emit(ind + 1, "%s = _r" % target)

    def stmt(self, s, kind, ind):
        t = s[0]
        if t == "k":
            self.emit(ind, "pass")
        elif t == "a":
            expr = {"gen": "yield nextD()", "coro": "await nextD()", "sync": "take()"}[kind]
            self.observed(ind, "acc", expr, "a")
        elif t == "w":
            # await AGAIN the Deferred awaited last (retry loops): its outcome was consumed by the first await, so a
            # synchronous second look gives None (logged as `w:none`); acc is left alone
            expr = {"gen": "(yield lastD())", "coro": "await lastD()", "sync": "take_again()"}[kind]
            self.emit(ind, "try:")
            self.emit(ind + 1, "_r = %s" % expr)
            self.emit(ind, "except BaseException as _e:")
            self.emit(ind + 1, "logexc('w', _e)")
            self.emit(ind + 1, "raise")
            self.emit(ind, "else:")
            self.emit(ind + 1, "logagain(_r)")
        elif t == "y":
            e = _py_expr(s[1])
            expr = {"gen": "unnil((yield nilv(%s)))" % e, "coro": "unnil(await Plain(nilv(%s)))" % e, "sync": e}[kind]
            self.emit(ind, "acc = " + expr)
            self.emit(ind, "logval('p', acc)")
        elif t == "s":
            self.emit(ind, "acc = " + _py_expr(s[1]))
        elif t == "m":
            self.emit(ind, "log(('m', %d))" % s[1])
        elif t == "q":
            self.stmt(s[1], kind, ind)
            self.stmt(s[2], kind, ind)
        elif t == "x":
            self.emit(ind, "try:")
            self.stmt(s[2], kind, ind + 1)
            self.emit(ind, "except %s as _x:" % _CATCH[s[1]])
            if kind == "sync" and s[1] == "b":
                # a blocked synchronous function does not reach its handlers either
                self.emit(ind + 1, "if blocked(): raise")
            self.emit(ind + 1, "acc = code(_x)")
            self.stmt(s[3], kind, ind + 1)
        elif t == "f":
            self.emit(ind, "try:")
            self.stmt(s[1], kind, ind + 1)
            self.emit(ind, "finally:")
            if kind == "sync":
                # a blocked synchronous function never reaches its finally clauses
                self.emit(ind + 1, "if not blocked():")
                self.stmt(s[2], kind, ind + 2)
            else:
                self.stmt(s[2], kind, ind + 1)
        elif t == "l":
            self.depth += 1
            self.emit(ind, "for _i%d in range(%d):" % (self.depth, s[1]))
            self.stmt(s[2], kind, ind + 1)
        elif t == "r":
            self.emit(ind, "return nilv(%s)" % _py_expr(s[1]))
        elif t == "rv":
            self.emit(ind, ("returnValue(nilv(%s))" if kind == "gen" else "return nilv(%s)") % _py_expr(s[1]))
        elif t == "e":
            self.emit(ind, "raise UserError(%d)" % s[1])
        elif t == "eb":
            self.emit(ind, "raise UserBase(%d)" % s[1])
        elif t == "i":
            self.emit(ind, "if acc < %d:" % s[1])
            self.stmt(s[2], kind, ind + 1)
            self.emit(ind, "else:")
            self.stmt(s[3], kind, ind + 1)
        elif t == "c":
            n = self.ids[id(s[2])]
            wrapped, style = s[1], _style(s)
            if kind == "sync":
                expr = "f%d_sync()" % n
            elif kind == "gen":
                if wrapped:
                    expr = ["yield f%d_deco()", "yield f%d_gen()", "yield f%d_coro()", "yield ensureDeferred(f%d_coro())"][style] % n
                else:
                    expr = "yield from f%d_gen()" % n
            else:
                if wrapped:
                    expr = ["await f%d_deco()", "await ensureDeferred(f%d_gen())", "await ensureDeferred(f%d_coro())",
                            "await Deferred.fromCoroutine(f%d_coro())"][style] % n
                else:
                    expr = "await f%d_coro()" % n
            self.observed(ind, "acc", expr, "c")
        else:
            raise ValueError(t)


_CODE_CACHE = {}


def _compiled(prog):
    key = json.dumps(prog)
    hit = _CODE_CACHE.get(key)
    if hit is None:
        src = _Compiler(prog).source()
        hit = (compile(src, "<C05 program>", "exec"), src)
        if len(_CODE_CACHE) > 256:
            _CODE_CACHE.clear()
        _CODE_CACHE[key] = hit
    return hit


def python_source(prog):
    return _compiled(prog)[1]


# ----------------------------------------------------------------------------------------------
# canonical tokens

def tok_value(v):
    if type(v) is int:
        return "v%d" % v
    return "other:value-" + type(v).__name__


def tok_exc(e):
    if isinstance(e, UserError):
        return "u%d" % e.n
    if isinstance(e, UserBase):
        return "b%d" % e.n
    if isinstance(e, CancelledError):
        return "c"
    return "other:" + type(e).__name__


def tok_result(r):
    return tok_exc(r.value) if isinstance(r, Failure) else tok_value(r)


def _cls(o):
    return o[2] if len(o) > 2 else "p"


def _exception(kind, n):
    return UserError(n) if kind == "u" else UserBase(n)


def _deliver(d, kind, n, cls):
    """hand the failure `kind n` to Deferred d the way `cls` says"""
    exc = _exception(kind, n)
    if cls == "p":
        d.errback(Failure(exc))
    elif cls == "s":
        d.errback(SubFailure(exc))
    elif cls == "r":
        d.errback(exc)
    elif cls == "k":
        d.callback(Failure(exc))
    else:
        raise ValueError(cls)


def enc_outcome(o):
    if o[0] == "v":
        return "v%d" % o[1]
    return "%s%d:%s" % (o[0], o[1], _cls(o))


def _norm_spec(c):
    if c[0] == "e" and len(c) == 2:
        return ["e", c[1], "r", "u"]
    return c


def enc_spec(c):
    c = _norm_spec(c)
    if c[0] in "nz":
        return c[0]
    if c[0] == "o":
        return "o%d" % c[1]
    return "e%s%s%d" % (c[2], c[3], c[1])


def enc_events(evs):
    if not evs:
        return "-"
    return ",".join("x" if e[0] == "x" else "f%d:%s" % (e[1], enc_outcome(e[2])) for e in evs)


def _has_w(p):
    return p[0] == "w" or any(_has_w(p[i]) for i in _KIDS.get(p[0], []))


def is_reentrant_case(c):
    """cases of the class added after seeded change C05-3: a callback on an awaited Deferred that fires another awaited
    Deferred and then replaces the result, and/or a program that awaits one Deferred again"""
    return bool(c.get("relay")) or _has_w(c["prog"])


def model_line(c):
    if is_reentrant_case(c):
        return None          # oracle-only: the Lean model has no callbacks on awaited Deferreds and no second await
    specs = ",".join(enc_spec(s) for s in c["specs"]) or "-"
    return "run %s %s %s %s %s" % ("c" if c.get("kind", "gen") == "coro" else "g", enc_prog(c["prog"]), specs,
                                    enc_events(c["pre"]), enc_events(c["post"]))


# ----------------------------------------------------------------------------------------------
# running the real thing

class _Run:
    """one execution of a compiled program on real Deferreds"""

    def __init__(self, case):
        self.case = case
        self.tl = []             # timeline tokens
        self.log = []            # entries logged inside the functions (tokens)
        self.ds = []             # awaited Deferreds
        self.gates = []          # per awaited Deferred: the Deferred the schedule fires (the same object unless chained)
        self.cancel_calls = []   # per awaited Deferred: number of cancel() calls
        self.outcomes = []       # per awaited Deferred: first outcome it had (token) or None — independent observation
        self.allocated = 0
        self.finals = []
        self.cancel_reports = []  # per cancel event: dict(waiting, awaited, before, after, log_before)
        self.frozen = None       # the observable line, fixed when the schedule is over
        self.nil = case.get("nil")          # the int that travels as None (or None: no such value)
        self.later_calls = [0] * (max(1, case.get("nobs", 1)) - 1)   # calls of the later callbacks on the returned Deferred
        self.relays = {r[0]: r for r in (case.get("relay") or [])}   # awaited Deferred j -> [j, i, outcome for i, action]
        self.reentrant = 0       # awaits of a Deferred that was running one of its callbacks at that moment
        self.done = False        # set when the schedule is over: what abandoned generators do while being
                                 # finalised (GeneratorExit runs their `finally` clauses) is not an observation

    # -- helpers visible to the compiled code
    def _log(self, entry):
        if self.done:
            return
        tok = "%s:%s" % entry if not isinstance(entry[1], int) else "%s:%d" % entry
        self.log.append(tok)
        self.tl.append(tok)

    def _nilv(self, v):
        """into Twisted: the case's `nil` value travels as None"""
        return None if (self.nil is not None and type(v) is int and v == self.nil) else v

    def _unnil(self, v):
        """out of Twisted: None stands for the case's `nil` value (without one, None is foreign and reported as such)"""
        return self.nil if (v is None and self.nil is not None) else v

    def _tok_result(self, r):
        return tok_exc(r.value) if isinstance(r, Failure) else tok_value(self._unnil(r))

    def _logval(self, tag, v):
        if tag == "p":
            self._log(("p", v) if type(v) is int else ("p", tok_value(v)))
        else:
            self._log((tag, tok_value(v)))

    def _logexc(self, tag, e):
        if isinstance(e, (GeneratorExit, _Blocked)):
            return
        self._log((tag, tok_exc(e)))

    def _logagain(self, v):
        self._log(("w", "none" if v is None else tok_value(v)))

    @staticmethod
    def _code(e):
        if isinstance(e, UserError):
            return e.n
        if isinstance(e, CancelledError):
            return 1000
        if isinstance(e, UserBase):
            return 2000 + e.n
        return 7777

    def _make_d(self):
        i = len(self.ds)
        spec = _norm_spec(self.case["specs"][i]) if i < len(self.case["specs"]) else ["n"]
        dks = self.case.get("dk") or []
        dk = dks[i] if i < len(dks) else ""
        canc = None
        if spec[0] == "z":
            canc = lambda d: None
        elif spec[0] == "o":
            canc = lambda d, v=spec[1]: d.callback(self._nilv(v))
        elif spec[0] == "e":
            canc = lambda d, n=spec[1], c=spec[2], k=spec[3]: _deliver(d, k, n, c)
        klass = SubSubDeferred if "T" in dk else SubDeferred if "S" in dk else Deferred
        if "C" in dk:
            # the awaited Deferred HAS fired but is paused: its callback returned `gate`, which the schedule fires and
            # which owns the canceller (Deferred.cancel forwards to it)
            gate = Deferred(canc)
            d = klass()
            d.addCallback(lambda _, g=gate: g)
            d.callback(None)
        else:
            gate = d = klass(canc)
        self.gates.append(gate)
        real_cancel = d.cancel

        def counting_cancel():
            self.cancel_calls[i] += 1
            return real_cancel()

        d.cancel = counting_cancel
        self.ds.append(d)
        self.cancel_calls.append(0)
        self.outcomes.append(None)

        def rec(r):
            if self.outcomes[i] is None and not self.done:
                self.outcomes[i] = self._tok_result(r)
            return r

        relay = self.relays.get(i)
        if relay is None:
            d.addBoth(rec)
            return d

        def relaying(r):
            # the LAST callback of this Deferred: while it runs it fires ANOTHER awaited Deferred (a function waiting on
            # that one is resumed right here, inside this callback, and may go on to await THIS Deferred), and then it
            # decides this Deferred's outcome: what it returns / raises is what an awaiting function must observe
            if self.done:
                return r
            self.tl.append("Y%d" % i)
            self._fire(relay[1], relay[2])
            act = relay[3]
            if act[0] == "d":
                # the callback returns ANOTHER Deferred, which has fired already: this Deferred's outcome is that one's
                inner = Deferred()
                o = act[1]
                if self.outcomes[i] is None:
                    self.outcomes[i] = "%s%d" % (o[0], o[1])
                if o[0] == "v":
                    inner.callback(self._nilv(o[1]))
                else:
                    _deliver(inner, o[0], o[1], _cls(o))
                self.tl.append("y%d" % i)
                return inner
            try:
                if act[0] == "v":
                    r = self._nilv(act[1])
                elif act[0] in "ub":
                    raise _exception(act[0], act[1])
            except BaseException:
                r = Failure()
                rec(r)
                self.tl.append("y%d" % i)
                raise
            rec(r)
            self.tl.append("y%d" % i)
            return r

        d.addBoth(relaying)
        return d

    def _next_d(self):
        i = self.allocated
        self.allocated += 1
        while len(self.ds) <= i:
            self._make_d()
        return self._handing_out(i)

    def _handing_out(self, i):
        d = self.ds[i]
        if getattr(d, "_runningCallbacks", False):
            self.reentrant += 1
            self.tl.append("W%d" % i)
        return d

    def _last_d(self):
        """the Deferred awaited last, once more (the first one if none has been awaited yet)"""
        if self.allocated == 0:
            return self._next_d()
        return self._handing_out(self.allocated - 1)

    def _fire(self, i, o):
        while len(self.ds) <= i:
            self._make_d()
        self.tl.append("F%d" % i)
        try:
            if o[0] == "v":
                self.gates[i].callback(self._nilv(o[1]))
            else:
                _deliver(self.gates[i], o[0], o[1], _cls(o))
        except AlreadyCalledError:
            self.tl.append("!A")

    def execute(self, kind):
        if not self.case.get("dbg"):
            return self._execute(kind)
        from twisted.internet import defer
        defer.setDebugging(True)          # global mode: creation/invocation stacks are recorded, nothing else may change
        try:
            return self._execute(kind)
        finally:
            defer.setDebugging(False)

    def _execute(self, kind):
        case = self.case
        code, _ = _compiled(case["prog"])
        for _ in case["specs"]:
            self._make_d()
        env = {
            "inlineCallbacks": inlineCallbacks, "ensureDeferred": ensureDeferred, "Deferred": Deferred,
            "UserError": UserError, "UserBase": UserBase, "CancelledError": CancelledError, "Plain": _Plain,
            "nextD": self._next_d, "log": self._log, "logval": self._logval, "logexc": self._logexc, "code": self._code,
            "nilv": self._nilv, "unnil": self._unnil, "returnValue": returnValue,
            "lastD": self._last_d, "logagain": self._logagain,
        }
        exec(code, env)
        for e in case["pre"]:
            self._fire(e[1], e[2])
        self.tl.append("S")
        with warnings.catch_warnings():
            warnings.simplefilter("ignore")
            d = env["f0_deco"]() if kind == "gen" else ensureDeferred(env["f0_coro"]())

            def obs(r):
                if self.done:
                    return
                self.finals.append(self._tok_result(r))
                self.tl.append("R:" + self._tok_result(r))
                return r

            d.addBoth(obs)

            def later(r, k):
                if not self.done:
                    self.later_calls[k] += 1
                return _Later()

            for k in range(len(self.later_calls)):
                d.addBoth(later, k)
            for e in case["post"]:
                if e[0] == "x":
                    self.tl.append("X")
                    rep = {"waiting": not self.finals, "awaited": self.allocated - 1,
                           "before": list(self.cancel_calls), "log_before": len(self.log)}
                    d.cancel()
                    rep["after"] = list(self.cancel_calls)
                    rep["outcome"] = self.outcomes[rep["awaited"]] if 0 <= rep["awaited"] < len(self.outcomes) else None
                    rep["log_after"] = list(self.log[rep["log_before"]:rep["log_before"] + 1])
                    rep["log_len_after"] = len(self.log)
                    self.cancel_reports.append(rep)
                else:
                    self._fire(e[1], e[2])
        self.done = True
        # freeze the observables NOW: once `env`/`d` are dropped the suspended generators are garbage, and whenever the
        # collector gets to them GeneratorExit runs their `finally` / `except BaseException` clauses, which may await
        # again (nextD() → `allocated` grows) — possibly in the middle of line()
        self.frozen = self.line()
        self._dispose(env, d)
        return self

    def _dispose(self, env, d):
        """nothing is observed after this point: abandoned Deferreds get their failures consumed"""
        for a in self.ds:
            a.addErrback(lambda f: None)
        d.addErrback(lambda f: None)
        self.ds = []
        self.gates = []

    def line(self):
        if self.frozen is not None:
            return self.frozen
        n = max(len(self.case["specs"]), self.allocated)
        while len(self.cancel_calls) < n:
            self.cancel_calls.append(0)
        return "%s final=%s cancels=%s next=%d" % (
            ",".join(self.tl), ";".join(self.finals), ",".join(str(x) for x in self.cancel_calls[:n]), self.allocated)

    # -- the synchronous twin (the oracle's reference)
    def sync_twin(self, outcomes):
        """run f0_sync where the k-th await takes outcomes[k] (token or None=never) → (log tokens, result token | None)"""
        code, _ = _compiled(self.case["prog"])
        st = {"k": 0, "blocked": False}
        log = []

        def take():
            k = st["k"]
            o = outcomes[k] if k < len(outcomes) else None
            if o is None:
                st["blocked"] = True
                raise _Blocked()
            st["k"] = k + 1
            if o[0] == "v":
                return int(o[1:])
            if o[0] == "u":
                raise UserError(int(o[1:]))
            if o[0] == "b":
                raise UserBase(int(o[1:]))
            if o == "c":
                raise CancelledError()
            raise AssertionError("outcome token " + o)

        def take_again():
            # the outcome of the Deferred awaited last has been handed over already: a second look finds nothing (None)
            if st["k"] == 0:
                return take()
            return None

        def logagain(v):
            logtok(("w", "none" if v is None else tok_value(v)))

        def logtok(entry):
            log.append("%s:%s" % entry if not isinstance(entry[1], int) else "%s:%d" % entry)

        def logval(tag, v):
            logtok((tag, v) if tag == "p" and type(v) is int else (tag, tok_value(v)))

        def logexc(tag, e):
            if not isinstance(e, _Blocked):
                logtok((tag, tok_exc(e)))

        env = {"inlineCallbacks": lambda f: f, "UserError": UserError, "UserBase": UserBase, "CancelledError": CancelledError,
               "take": take, "blocked": lambda: st["blocked"], "log": logtok, "logval": logval, "logexc": logexc,
               "code": self._code, "Plain": _Plain, "ensureDeferred": None, "Deferred": None, "nextD": None,
               "nilv": lambda v: v, "unnil": lambda v: v, "returnValue": None, "take_again": take_again,
               "logagain": logagain, "lastD": None}
        exec(code, env)
        try:
            r = env["f0_sync"]()
        except _Blocked:
            return log, None
        except BaseException as e:  # noqa: the function's own exception is its outcome
            if st["blocked"]:
                return log, "other:swallowed-block"
            return log, tok_exc(e)
        if st["blocked"]:
            return log, "other:swallowed-block"
        return log, tok_value(r)


_LAST = {}


def _quiet():
    """Suspended generators that are abandoned at the end of a case get GeneratorExit when they are collected; a
    program with `finally: await` then reports "generator ignored GeneratorExit", and abandoned nested Deferreds report
    unhandled failures — at collection time, after the observation.  Neither is an observation: drop both reports."""
    import sys
    from twisted.logger import globalLogBeginner
    try:
        globalLogBeginner.beginLoggingTo([lambda event: None], redirectStandardIO=False, discardBuffer=True)
    except Exception:
        pass
    prev = sys.unraisablehook

    def hook(u):
        code = getattr(u.object, "gi_code", None) or getattr(u.object, "cr_code", None)
        if code is not None and code.co_filename == "<C05 program>":
            return
        prev(u)

    sys.unraisablehook = hook


_quiet()


class Hang(Exception):
    """the real code did not come back (a driver loop that never ends) — reported as `!raised Hang`"""


def _watchdog(seconds):
    """context manager: raise Hang in the running code after `seconds` of CPU time of this process (main thread,
    SIGVTALRM: a stalled machine cannot trip it, a spinning driver loop does); no-op elsewhere"""
    import contextlib
    import signal
    import threading

    @contextlib.contextmanager
    def cm():
        if threading.current_thread() is not threading.main_thread() or not hasattr(signal, "setitimer"):
            yield
            return

        def onalarm(signum, frame):
            raise Hang()

        prev = signal.signal(signal.SIGVTALRM, onalarm)
        # repeating: a program that catches the Hang (`except BaseException`) and spins again is interrupted again
        signal.setitimer(signal.ITIMER_VIRTUAL, seconds, 0.05)
        try:
            yield
        finally:
            signal.setitimer(signal.ITIMER_VIRTUAL, 0)
            signal.signal(signal.SIGVTALRM, prev)

    return cm()


_HANGS = [0]      # after a few hangs the budget per case drops: a broken driver loop hangs on many cases


def _execute(case):
    key = json.dumps(case, sort_keys=True)
    if _LAST.get("key") != key:
        _LAST.clear()
        try:
            with _watchdog(2.0 if _HANGS[0] < 3 else 0.25 if _HANGS[0] < 10 else 0.05):
                run = _Run(case).execute(case.get("kind", "gen"))
        except Hang:
            _HANGS[0] += 1
            raise
        _LAST["key"] = key
        _LAST["run"] = run
    return _LAST["run"]


def run_impl(case):
    _LAST.clear()
    return _execute(case).line()


KNOWN_CORO_KEY = "coroutine-await-inside-own-callback"


def oracle(case, out):
    bad = _judge(case, out)
    if (bad is not None and case.get("kind") == "coro" and is_reentrant_case(case) and not out.startswith("!raised")
            and _execute(case).reentrant > 0):
        # Deferred.__await__ hands a coroutine `self.result` whenever there is one — also while the Deferred is in the
        # middle of running a callback, when `result` is still that callback's INPUT (recorded finding; generators go
        # through addBoth() and are judged in full)
        return {"key": KNOWN_CORO_KEY, "detail": "[%s] %s" % (bad["key"], bad["detail"])}
    return bad


def _judge(case, out):
    if out.startswith("!raised"):
        return {"key": "escaped-exception", "detail": out}
    run = _execute(case)
    if "other:" in out:
        return {"key": "foreign-exception", "detail": "an exception/value foreign to the program was observed: " + out}
    # (1) what the function observed and how it ended = the synchronous twin on the outcomes the Deferreds had
    exp_log, exp_res = run.sync_twin(run.outcomes)
    if run.log != exp_log:
        return {"key": "trace-differs", "detail": "observed inside the function %s; synchronous twin on outcomes %s observes %s"
                % (run.log, run.outcomes, exp_log)}
    exp_finals = [] if exp_res is None else [exp_res]
    if run.finals != exp_finals:
        key = "fired-%d-times" % len(run.finals) if len(run.finals) != len(exp_finals) else "final-result-differs"
        return {"key": key, "detail": "returned Deferred delivered %s; synchronous twin gives %s" % (run.finals, exp_finals)}
    # every later callback of the returned Deferred runs exactly when (and as often as) the first one does
    if any(n != len(run.finals) for n in run.later_calls):
        return {"key": "later-callbacks-not-run-once", "detail": "the returned Deferred delivered %s to its first callback; its later "
                "callbacks ran %s times" % (run.finals, run.later_calls)}
    # (2) cancellation
    for rep in run.cancel_reports:
        delta = [b - a for a, b in zip(rep["before"] + [0] * len(rep["after"]), rep["after"])]
        if rep["waiting"]:
            w = rep["awaited"]
            want = [1 if i == w else 0 for i in range(len(delta))]
            if w < 0 or delta != want:
                return {"key": "cancel-not-exactly-awaited", "detail": "cancel() while waiting on Deferred %d changed cancel counts by %s" % (w, delta)}
            if rep["outcome"] is None:
                return {"key": "cancelled-deferred-has-no-outcome", "detail": "Deferred %d has no outcome after cancel()" % w}
            # (`w:` is the tag of the same observation made by statement `w`, which awaits a first Deferred like `a` does)
            if rep["log_after"] != ["a:" + rep["outcome"]] and rep["log_after"] != ["w:" + rep["outcome"]]:
                return {"key": "function-did-not-observe-outcome", "detail": "after cancel() Deferred %d had outcome %s but the function logged %s"
                        % (w, rep["outcome"], rep["log_after"])}
        else:
            if any(delta) or rep["log_len_after"] != rep["log_before"]:
                return {"key": "cancel-after-done-has-effect", "detail": "cancel() of a fired Deferred changed %s" % delta}
    return None


# ----------------------------------------------------------------------------------------------
# generation

def _expr(rng):
    r = rng.random()
    if r < 0.4:
        return ["L", rng.randint(0, 9)]
    if r < 0.7:
        return ["A"]
    return ["P", rng.randint(1, 3)]


def _stmt(rng, depth, budget):
    """budget = [remaining static awaits]"""
    if depth <= 0 or rng.random() < 0.18:
        r = rng.random()
        if r < 0.5 and budget[0] > 0:
            budget[0] -= 1
            return ["a"]
        if r < 0.6:
            return ["y", _expr(rng)]
        if r < 0.7:
            return ["s", _expr(rng)]
        if r < 0.82:
            return ["m", rng.randint(0, 9)]
        if r < 0.9:
            return ["rv" if rng.random() < 0.4 else "r", _expr(rng)]
        if r < 0.95:
            return ["e", rng.randint(0, 9)]
        if r < 0.98:
            return ["eb", rng.randint(0, 9)]
        return ["k"]
    r = rng.random()
    if r < 0.34:
        return ["q", _stmt(rng, depth - 1, budget), _stmt(rng, depth - 1, budget)]
    if r < 0.50:
        return ["x", rng.choice("aaaucb"), _stmt(rng, depth - 1, budget), _stmt(rng, depth - 1, budget)]
    if r < 0.64:
        return ["f", _stmt(rng, depth - 1, budget), _stmt(rng, depth - 1, budget)]
    if r < 0.74:
        return ["l", rng.randint(0, 3), _stmt(rng, depth - 1, budget)]
    if r < 0.82:
        return ["i", rng.choice([1, 3, 5, 1000]), _stmt(rng, depth - 1, budget), _stmt(rng, depth - 1, budget)]
    return ["c", rng.random() < 0.7, _stmt(rng, depth - 1, budget), rng.randint(0, 3)]


def _sanitize(p, allowed=True):
    """`returnValue(v)` raises a BaseException (_DefGen_Return) that `_inlineCallbacks` turns into the result: it means
    `return v` unless the function itself catches BaseException around it, or the generator is not driven by
    `_inlineCallbacks` but delegated to with `yield from` (then it ends the DELEGATING function — documented, warned
    about, and not what `return` in the twin does).  There `rv` is replaced by `r`; everywhere else it stays."""
    t = p[0]
    if t == "rv":
        return p if allowed else ["r", p[1]]
    if t == "x":
        return ["x", p[1], _sanitize(p[2], allowed and p[1] != "b"), _sanitize(p[3], allowed)]
    if t == "c":
        return p[:2] + [_sanitize(p[2], bool(p[1]))] + p[3:]
    out = list(p)
    for i in _KIDS.get(t, []):
        out[i] = _sanitize(p[i], allowed)
    return out


def _program(rng):
    budget = [rng.choice([1, 2, 3, 4, 6, 10])]
    p = _stmt(rng, rng.choice([2, 3, 3, 4, 4]), budget)
    if budget[0] > 0 and rng.random() < 0.7:
        p = ["q", ["a"], p] if rng.random() < 0.5 else ["q", p, ["a"]]
    return _sanitize(p)


def _spec(rng):
    r = rng.random()
    if r < 0.4:
        return ["n"]
    if r < 0.6:
        return ["z"]
    if r < 0.8:
        return ["o", rng.randint(0, 9)]
    return ["e", rng.randint(0, 9), _fcls(rng), "u" if rng.random() < 0.8 else "b"]


def _fcls(rng):
    """how a failure is handed over: Failure, Failure-subclass instance, bare exception, Failure through callback()"""
    return rng.choice("ppsssrk")


def _outcome(rng, p_fail=0.4):
    if rng.random() >= p_fail:
        return ["v", rng.randint(0, 9)]
    return ["u" if rng.random() < 0.8 else "b", rng.randint(0, 9), _fcls(rng)]


def _dkinds(rng, n):
    """how each awaited Deferred is realised (not visible to the model: the property does not depend on it)"""
    r = rng.random()
    if r < 0.35:
        return []
    return [rng.choice(["", "", "S", "T", "C", "SC", "TC"]) for _ in range(n)]


def _schedule(rng, n):
    """n Deferreds: which are fired before the call, and the order of the later fires"""
    p_fail = rng.choice([0.2, 0.4, 0.4, 0.7])
    fires = [["f", i, _outcome(rng, p_fail)] for i in range(n)]
    r = rng.random()
    if r < 0.25:
        pre_idx = set()
    elif r < 0.4:
        pre_idx = set(range(n))
    else:
        pre_idx = {i for i in range(n) if rng.random() < 0.4}
    pre = [f for f in fires if f[1] in pre_idx]
    post = [f for f in fires if f[1] not in pre_idx]
    r = rng.random()
    if r < 0.4:
        pass
    elif r < 0.6:
        post.reverse()
    else:
        rng.shuffle(post)
    if rng.random() < 0.15 and post:
        del post[rng.randrange(len(post))]          # one Deferred never fires
    if rng.random() < 0.1 and fires:
        post.insert(rng.randint(0, len(post)), ["f", rng.randrange(n), _outcome(rng)])   # a second fire
    rng.shuffle(pre)
    return pre, post


def _with_cancels(rng, base, tier):
    """the base case, then cancel injected at every position (and a double cancel at some)"""
    yield base
    post = base["post"]
    positions = list(range(len(post) + 1))
    if tier == "quick" and len(positions) > 5:
        positions = sorted(rng.sample(positions, 5))
    for j in positions:
        c = dict(base)
        c["post"] = post[:j] + [["x"]] + post[j:]
        yield c
    if positions:
        j = rng.choice(positions)
        k = rng.randint(j, len(post))
        c = dict(base)
        c["post"] = post[:j] + [["x"]] + post[j:k] + [["x"]] + post[k:]
        yield c
        if rng.random() < 0.3:
            m = rng.randint(k, len(post))
            c = dict(base)
            c["post"] = post[:j] + [["x"]] + post[j:k] + [["x"]] + post[k:m] + [["x"]] + post[m:]
            yield c


def corpus():
    A, K = ["a"], ["k"]
    seq = lambda *xs: xs[0] if len(xs) == 1 else ["q", xs[0], seq(*xs[1:])]
    out = []
    for kind in ("gen", "coro"):
        out += [
            # plain sequence, fired in reverse order
            {"kind": kind, "prog": seq(A, A, ["r", ["A"]]), "specs": [["n"], ["n"]], "pre": [],
             "post": [["f", 1, ["v", 2]], ["f", 0, ["v", 1]]]},
            # failure caught, return in finally overrides exception
            {"kind": kind, "prog": ["f", seq(A, ["e", 4]), ["r", ["L", 9]]], "specs": [["n"]], "pre": [], "post": [["f", 0, ["u", 3]]]},
            # cancel while waiting, no canceller, CancelledError caught, then waits again and is cancelled again
            {"kind": kind, "prog": seq(["x", "c", A, ["m", 1]], A, ["r", ["A"]]), "specs": [["n"], ["z"]], "pre": [],
             "post": [["x"], ["f", 0, ["v", 5]], ["x"], ["f", 1, ["v", 6]]]},
            # canceller fires a value: the function goes on with it
            {"kind": kind, "prog": seq(A, ["m", 2], A), "specs": [["o", 7], ["e", 8]], "pre": [], "post": [["x"], ["x"], ["x"]]},
            # nested through a Deferred, all four styles, cancel reaches the innermost awaited Deferred
            {"kind": kind, "prog": seq(["c", True, ["c", True, seq(A, ["r", ["P", 1]]), 0], 1], ["c", True, A, 2], ["c", True, A, 3], ["c", False, A, 0]),
             "specs": [["n"], ["z"], ["o", 1], ["e", 2]], "pre": [], "post": [["x"], ["x"], ["x"], ["x"]]},
            # pre-fired everything: completes inside the call
            {"kind": kind, "prog": ["l", 3, seq(A, ["y", ["P", 1]])], "specs": [], "pre": [["f", 2, ["v", 3]], ["f", 0, ["v", 1]], ["f", 1, ["u", 2]]], "post": [["x"]]},
            # await inside finally while a return is pending; cancel there
            {"kind": kind, "prog": ["f", ["r", ["L", 4]], seq(A, ["m", 3])], "specs": [["n"]], "pre": [], "post": [["x"]]},
            # fire after cancel of a canceller-less Deferred is swallowed; of a noop-canceller one raises AlreadyCalledError
            {"kind": kind, "prog": seq(["x", "a", A, K], ["x", "a", A, K]), "specs": [["n"], ["z"]], "pre": [],
             "post": [["x"], ["f", 0, ["v", 1]], ["x"], ["f", 1, ["v", 1]], ["f", 0, ["v", 2]]]},
            # abandoned while suspended inside try/finally: the finaliser's GeneratorExit runs `finally` clauses that log —
            # after the schedule, so not an observation (a false alarm of an earlier version of this check)
            {"kind": kind, "prog": seq(A, ["l", 2, ["f", A, seq(["f", ["m", 1], A], ["m", 2])]]), "specs": [["z"]], "pre": [],
             "post": [["f", 0, ["v", 0]]]},
        ]
        # ---- how a failure reaches the function (added after seeded change C05-2 was missed)
        three = ["l", 3, ["f", ["x", "u", A, ["m", 1]], ["m", 2]]]        # the demo's loop: try/except/finally around 3 awaits
        for cls in "psrk":
            out += [
                # all three already failed / fired when the function starts
                {"kind": kind, "prog": three, "specs": [], "pre": [["f", 0, ["u", 0, cls]], ["f", 1, ["v", 7]], ["f", 2, ["u", 2, cls]]], "post": []},
                # Deferred 1 and 2 fire while the function waits for Deferred 0
                {"kind": kind, "prog": three, "specs": [], "pre": [], "post": [["f", 2, ["u", 2, cls]], ["f", 1, ["u", 1, cls]], ["f", 0, ["u", 0, cls]]]},
                # a BaseException that is not an Exception: passes `except Exception`, caught by `except BaseException`, and as final result
                {"kind": kind, "prog": seq(["x", "b", ["x", "a", A, ["m", 1]], ["m", 2]], A), "specs": [], "pre": [["f", 0, ["b", 3, cls]]],
                 "post": [["f", 1, ["b", 4, cls]]]},
                # the canceller fails the Deferred with that class, twice (second time nested through a Deferred)
                {"kind": kind, "prog": seq(["x", "u", A, ["m", 1]], ["c", True, ["x", "b", A, ["m", 2]], 2], ["r", ["A"]]),
                 "specs": [["e", 5, cls, "u"], ["e", 6, cls, "b"]], "pre": [], "post": [["x"], ["x"]]},
            ]
        for dk in ("S", "C", "SC"):
            out += [
                # the awaited object is a Deferred-subclass instance / a fired Deferred paused on another one
                {"kind": kind, "prog": seq(A, ["x", "a", A, ["m", 1]], A, ["r", ["A"]]), "specs": [["n"], ["z"], ["o", 4]], "dk": [dk] * 3,
                 "pre": [["f", 1, ["u", 3, "s"]]], "post": [["f", 0, ["v", 1]], ["x"], ["f", 2, ["v", 9]]]},
                {"kind": kind, "prog": seq(A, A), "specs": [["n"], ["n"]], "dk": [dk, dk], "pre": [["f", 0, ["v", 2]]],
                 "post": [["x"], ["f", 1, ["v", 1]], ["f", 1, ["v", 1]]]},
            ]
        # coroutine nested in a generator nested in a coroutine, the innermost awaits already-failed Deferreds
        out += [
            {"kind": kind, "prog": ["c", True, ["c", True, three, 2], 0], "specs": [],
             "pre": [["f", 0, ["u", 0, "s"]], ["f", 2, ["b", 2, "s"]]], "post": [["f", 1, ["v", 7]]]},
            {"kind": kind, "prog": ["f", ["c", False, three, 0], ["eb", 1]], "specs": [], "pre": [["f", 1, ["u", 0, "s"]]],
             "post": [["f", 0, ["u", 5, "k"]], ["f", 2, ["v", 1]]]},
        ]
        # ---- classes added by the white-box mutation audit (harness/mutants/C05)
        out += [
            # None as a value: a Deferred that has ALREADY fired with None / fires with None later / a canceller that fires
            # None; None as plain yielded value and as the function's return value (here value 5 travels as None)
            {"kind": kind, "prog": seq(A, ["y", ["A"]], A, A, ["r", ["A"]]), "specs": [["n"], ["n"], ["o", 5]], "nil": 5,
             "pre": [["f", 0, ["v", 5]]], "post": [["f", 1, ["v", 5]], ["x"]]},
            {"kind": kind, "prog": seq(["c", True, seq(A, ["rv", ["A"]]), 0], ["c", True, seq(A, ["r", ["A"]]), 2], ["c", False, A, 0]),
             "specs": [], "nil": 0, "pre": [["f", 0, ["v", 0]], ["f", 2, ["v", 0]]], "post": [["f", 1, ["v", 0]]]},
            # the awaited object is an instance of a subclass of a subclass of Deferred
            {"kind": kind, "prog": seq(A, ["x", "a", A, ["m", 1]], ["r", ["A"]]), "specs": [["n"], ["z"]], "dk": ["T", "TC"],
             "pre": [["f", 0, ["v", 4]]], "post": [["x"], ["f", 1, ["v", 2]]]},
            # the returned Deferred has further callbacks when it is cancelled (twice) and when it fires
            {"kind": kind, "prog": seq(["x", "c", A, ["m", 1]], A, ["r", ["P", 2]]), "specs": [["n"], ["o", 3]], "nobs": 3,
             "pre": [], "post": [["x"], ["x"]]},
            # returnValue() right after a failure was thrown in and caught, after a value was sent, in a handler, under finally
            {"kind": kind, "prog": seq(["x", "u", A, ["rv", ["L", 5]]], ["m", 1]), "specs": [], "pre": [], "post": [["f", 0, ["u", 1, "p"]]]},
            {"kind": kind, "prog": ["f", seq(A, ["x", "a", A, ["rv", ["P", 1]]], ["rv", ["A"]]), ["m", 3]], "specs": [["n"], ["n"]],
             "pre": [["f", 1, ["u", 2, "r"]]], "post": [["f", 0, ["v", 4]]]},
            {"kind": kind, "prog": seq(["c", True, seq(["x", "c", A, ["rv", ["L", 8]]], ["rv", ["L", 9]]), 1], ["rv", ["P", 1]]),
             "specs": [["n"]], "pre": [], "post": [["x"]]},
            # a long run over Deferreds that have all fired: the driver must not recurse per Deferred
            {"kind": kind, "prog": seq(["l", 400, A], ["r", ["A"]]), "specs": [], "pre": [["f", i, ["v", i % 10]] for i in range(400)], "post": []},
            {"kind": kind, "prog": ["c", True, seq(["l", 300, ["c", True, ["x", "a", A, ["m", 1]], 0]], A, ["r", ["A"]]), 0], "specs": [],
             "pre": [["f", i, ["u", 1, "s"] if i % 7 == 3 else ["v", 2]] for i in range(300)], "post": [["x"]]},
            # outer waits on inner (two levels), the inner one survives two cancellations; third cancel ends it
            {"kind": kind, "prog": seq(["c", True, seq(["c", True, seq(["x", "c", A, ["m", 1]], ["x", "c", A, ["m", 2]], A, ["r", ["L", 7]]), 0],
                                                      ["r", ["P", 1]]), 2], ["r", ["P", 1]]),
             "specs": [["n"], ["z"], ["n"]], "pre": [], "post": [["x"], ["x"], ["x"]]},
        ]
    # ---- re-entrancy (added after seeded change C05-3 was missed): oracle-only cases
    for act in (["v", 4], ["u", 6], ["b", 6], ["p"], ["d", ["v", 8]], ["d", ["u", 8, "s"]]):
        for o1 in (["v", 2], ["u", 3, "p"]):
            # Deferred 1's last callback fires Deferred 0 (the function waits on it) and then decides 1's outcome: the
            # function, resumed inside that callback, awaits Deferred 1 and must observe what the callback returns/raises
            out.append({"kind": "gen", "prog": seq(A, ["x", "a", A, ["m", 1]], ["r", ["A"]]), "specs": [], "pre": [],
                        "post": [["f", 1, o1]], "relay": [[1, 0, ["v", 7], act]]})
    out += [
        # the same through a nested decorated generator, with a pre-fired Deferred consumed on the way
        {"kind": "gen", "prog": seq(["c", True, seq(A, A, ["x", "b", A, ["m", 2]], ["r", ["A"]]), 0], ["r", ["P", 1]]), "specs": [],
         "pre": [["f", 0, ["v", 1]]], "post": [["f", 2, ["v", 5]]], "relay": [[2, 1, ["u", 8, "s"], ["b", 3]]], "dk": ["", "", "S"]},
        # retry loops: the Deferred fails / fires / is cancelled WHILE waited on and is awaited again → None the second time
        {"kind": "gen", "prog": ["l", 3, ["x", "u", seq(["w"], ["r", ["A"]]), ["m", 4]]], "specs": [], "pre": [], "post": [["f", 0, ["u", 1, "p"]]]},
        {"kind": "gen", "prog": ["l", 3, ["x", "c", seq(["w"], ["r", ["A"]]), ["m", 4]]], "specs": [], "pre": [], "post": [["x"]]},
        {"kind": "gen", "prog": seq(A, ["w"], ["w"], ["r", ["A"]]), "specs": [], "pre": [], "post": [["f", 0, ["v", 5]]]},
        {"kind": "gen", "prog": seq(["x", "a", A, ["w"]], ["r", ["A"]]), "specs": [["e", 2, "s", "u"]], "pre": [], "post": [["x"]]},
        # ... and when it had fired before the first await
        {"kind": "gen", "prog": seq(["x", "a", A, ["w"]], ["w"], ["r", ["A"]]), "specs": [], "pre": [["f", 0, ["u", 5, "r"]]], "post": []},
        # coroutines: Deferred.__await__ takes `result` also while the Deferred runs a callback (recorded finding)
        {"kind": "coro", "prog": seq(A, A, ["r", ["A"]]), "specs": [], "pre": [], "post": [["f", 1, ["v", 2]]], "relay": [[1, 0, ["v", 7], ["v", 4]]]},
        {"kind": "coro", "prog": ["l", 3, ["x", "u", seq(["w"], ["r", ["A"]]), ["m", 4]]], "specs": [], "pre": [], "post": [["f", 0, ["u", 1, "p"]]]},
    ]
    return out


def _realise(rng, base, n):
    """the realisation choices the model does not see: classes of the awaited objects, the value that travels as None,
    further callbacks on the returned Deferred"""
    dk = _dkinds(rng, n)
    if any(dk):
        base["dk"] = dk
    if rng.random() < 0.4:
        vals = [e[2][1] for e in base["pre"] + base["post"] if e[0] == "f" and e[2][0] == "v"]
        vals += [sp[1] for sp in base["specs"] if sp[0] == "o"]
        base["nil"] = rng.choice(vals) if vals and rng.random() < 0.8 else rng.randint(0, 9)
    if rng.random() < 0.35:
        base["nobs"] = rng.choice([2, 2, 3])
    if rng.random() < 0.06 and len(base["pre"]) < 100:
        base["dbg"] = 1
    return base


def _both_kinds(cases):
    for c in cases:
        yield c
        c2 = dict(c)
        c2["kind"] = "coro"
        yield c2


def _long_run(rng):
    """a function that goes through HUNDREDS of Deferreds which have fired already without ever giving control back (what
    the `while 1:` loop of _inlineCallbacks and its `waiting` flag exist for), optionally nested through a Deferred; the
    last Deferreds may fire later"""
    n = rng.choice([150, 260, 400])
    body = rng.choice([
        ["a"],
        ["x", "a", ["a"], ["m", 1]],
        ["q", ["a"], ["y", ["P", 1]]],
        ["f", ["x", "b", ["a"], ["k"]], ["s", ["P", 1]]],
        ["c", True, ["q", ["a"], ["rv", ["A"]]], rng.randint(0, 3)],
    ])
    prog = ["q", ["l", n, body], ["r", ["A"]]]
    if rng.random() < 0.3:
        prog = ["q", ["c", True, prog, rng.randint(0, 3)], ["m", 2]]
    fires = [["f", i, _outcome(rng, 0.3 if body[0] in ("x", "f") else 0.0)] for i in range(n)]
    if body[0] == "x":
        fires = [["f", e[1], ["u"] + e[2][1:]] if e[2][0] == "b" else e for e in fires]      # only what the body catches
    late = rng.choice([0, 0, 1, 3])
    pre, post = fires[:n - late], fires[n - late:]
    if rng.random() < 0.5:
        rng.shuffle(pre)
    return {"kind": "gen", "prog": prog, "specs": [], "pre": pre, "post": post}, n


def _nested_cancel(rng):
    """an outer function waits on the Deferred of an inner one (1-3 levels, any call style) that survives being cancelled
    (it catches, or the canceller hands it a value) and waits again; nothing fires, the returned Deferred is cancelled
    2-4 times"""
    waits = rng.randint(2, 4)
    inner = ["r", ["A"]]
    for _ in range(waits):
        w = ["x", rng.choice("acb"), ["a"], ["m", rng.randint(0, 9)]] if rng.random() < 0.7 else ["a"]
        inner = ["q", w, inner]
    prog = inner
    for _ in range(rng.randint(1, 3)):
        prog = ["q", ["c", rng.random() < 0.8, prog, rng.randint(0, 3)], ["rv" if rng.random() < 0.3 else "r", ["P", 1]]]
        if rng.random() < 0.3:
            prog = ["x", rng.choice("ac"), prog, ["a"]]
    specs = [rng.choice([["n"], ["n"], ["z"], ["o", rng.randint(0, 9)], ["e", rng.randint(0, 9), _fcls(rng), "u"]]) for _ in range(waits + 1)]
    post = [["x"]] * rng.randint(2, 4)
    if rng.random() < 0.4:
        post = post + [["f", waits - 1, _outcome(rng)]]
        rng.shuffle(post)
    return {"kind": "gen", "prog": _sanitize(prog), "specs": specs, "pre": [], "post": post}, waits + 1


_GEN_STYLES = [(True, 0), (True, 1), (False, 0)]      # call styles that keep a generator program all-generator


def _act(rng):
    """what the relaying callback does to the result it was given: pass it on | replace it by a value | raise"""
    r = rng.random()
    if r < 0.15:
        return ["p"]
    if r < 0.55:
        return ["v", rng.randint(0, 9)]
    if r < 0.65:
        return ["d", _outcome(rng, 0.4)]
    return ["u" if rng.random() < 0.8 else "b", rng.randint(0, 9)]


def _guard(rng, s):
    r = rng.random()
    if r < 0.45:
        return s
    if r < 0.85:
        return ["x", rng.choice("aaub"), s, rng.choice([["m", rng.randint(0, 9)], ["k"], ["s", ["P", 1]]])]
    return ["f", s, ["m", rng.randint(0, 9)]]


def _reentrant(rng):
    """the class of seeded change C05-3 → list of (base case, both kinds?).  (a) awaited Deferred j carries a LAST
    callback that fires Deferred j-1 — on which the function is waiting — and then replaces j's result: the function is
    resumed inside that callback and awaits j while j is still running it.  (b) the function awaits one Deferred AGAIN
    (statement `w`) after it fired / failed / was cancelled while waited on (or before).  Generators only call generators
    here (a coroutine awaiting a Deferred that is running a callback is the recorded finding KNOWN_CORO_KEY)."""
    seq = lambda xs: xs[0] if len(xs) == 1 else ["q", xs[0], seq(xs[1:])]
    r = rng.random()
    if r < 0.55:
        # (a) relay
        n = rng.choice([2, 2, 3, 4])
        j = rng.randint(1, n - 1)
        stmts = [_guard(rng, ["a"]) for _ in range(n)]
        with_w = rng.random() < 0.25
        if with_w:
            stmts.insert(j + 1, _guard(rng, ["w"]))
        if rng.random() < 0.3:
            stmts.insert(rng.randint(0, len(stmts)), rng.choice([["y", ["P", 1]], ["m", 7]]))
        prog = seq(stmts + [["r", ["A"]]])
        if rng.random() < 0.35:
            wrapped, style = rng.choice(_GEN_STYLES)
            prog = ["q", ["c", wrapped, prog, style], ["r", ["P", 1]]]
        relay = [[j, j - 1, _outcome(rng, 0.3), _act(rng)]]
        if rng.random() < 0.2 and n > 2:
            j2 = rng.choice([x for x in range(n) if x != j])
            relay.append([j2, rng.choice([x for x in range(n) if x != j2]), _outcome(rng, 0.3), _act(rng)])
        fires = {i: ["f", i, _outcome(rng, 0.3)] for i in range(n)}
        if rng.random() < 0.75:
            pre = [fires[i] for i in range(j - 1)]
            rest = [fires[i] for i in range(j + 1, n)]
            rng.shuffle(rest)
            k = rng.randint(0, len(rest))
            pre += rest[:k]
            post = [fires[j]] + rest[k:]
            if rng.random() < 0.2:
                post.insert(rng.randint(0, len(post)), fires[j - 1])
        else:
            pre, post = _schedule(rng, n)
        specs = [_spec(rng) for _ in range(rng.choice([0, n]))]
        base = {"kind": "gen", "prog": prog, "specs": specs, "pre": pre, "post": post, "relay": relay}
        return base, n, not with_w
    # (b) retry: the same Deferred again
    c = rng.choice("aaucb")
    again = rng.choice([["w"], ["w"], ["q", ["m", 1], ["w"]], ["q", ["w"], ["r", ["L", 5]]], ["x", "a", ["w"], ["m", 2]]])
    shape = rng.random()
    if shape < 0.4:
        prog = ["x", c, ["q", ["a"], ["m", 3]], again]
    elif shape < 0.7:
        prog = ["l", rng.randint(2, 3), ["x", c, ["q", ["w"], ["r", ["A"]]], ["m", 4]]]          # the classic retry loop
    elif shape < 0.85:
        prog = ["q", ["a"], again]
    else:
        prog = ["l", 2, ["f", ["x", c, ["a"], again], ["w"]]]
    prog = ["q", prog, ["q", _guard(rng, ["a"]), ["r", ["A"]]]] if rng.random() < 0.5 else prog
    if rng.random() < 0.35:
        wrapped, style = rng.choice(_GEN_STYLES)
        prog = ["q", ["c", wrapped, prog, style], ["q", rng.choice([["w"], ["k"]]), ["r", ["P", 1]]]]
    n = rng.choice([1, 2, 3])
    specs = [_spec(rng) for _ in range(rng.choice([0, n]))]
    fires = [["f", i, _outcome(rng, 0.6)] for i in range(n)]
    r = rng.random()
    if r < 0.6:
        pre, post = [], fires
    elif r < 0.75:
        pre, post = fires, []
    else:
        pre, post = [], [["x"]] + fires
    return {"kind": "gen", "prog": _sanitize(prog), "specs": specs, "pre": pre, "post": post}, n, False


def _reentrant_cases(rng):
    base, n, both = _reentrant(rng)
    nil_ok = not _has_w(base["prog"])
    base = _realise(rng, base, n)
    if not nil_ok:
        base.pop("nil", None)
    cases = list(_with_cancels(rng, base, "quick")) if rng.random() < 0.5 else [base]
    return _both_kinds(cases) if both else iter(cases)


def generate(rng, tier):
    n_prog = 260 if tier == "quick" else 9000
    for it in range(n_prog):
        if it % 2 == 1:
            yield from _reentrant_cases(rng)
        if it % (40 if tier == "quick" else 90) == 3:
            # the special classes are interleaved with the random programs so that a run that is cut short has them too
            for _ in range(2 if tier == "quick" else 1):
                base, n = _long_run(rng)
                yield from _both_kinds(_with_cancels(rng, _realise(rng, base, n if rng.random() < 0.3 else 0), "quick"))
        if it % 6 == 1:
            base, n = _nested_cancel(rng)
            yield from _both_kinds([_realise(rng, base, n)])
        prog = _program(rng)
        n = rng.choice([0, 1, 2, 3, 4, 6, 10])
        specs = [_spec(rng) for _ in range(n)]
        pre, post = _schedule(rng, n)
        base = _realise(rng, {"kind": "gen", "prog": prog, "specs": specs, "pre": pre, "post": post}, n)
        yield from _both_kinds(_with_cancels(rng, base, tier))


# ----------------------------------------------------------------------------------------------
# tags, shrinking, search

_KIDS = {"q": [1, 2], "x": [2, 3], "f": [1, 2], "l": [2], "i": [2, 3], "c": [2]}


def _kinds(p, acc):
    t = p[0]
    if t == "c":
        acc.add("c%s%d" % (("w", (p[3] if len(p) > 3 else 0) % 4) if p[1] else ("d", 0)))
    elif t == "x":
        acc.add("x" + p[1])
    elif t == "eb":
        acc.add("E")
    elif t == "rv":
        acc.add("V")
    else:
        acc.add(t)
    for i in _KIDS.get(t, []):
        _kinds(p[i], acc)
    return acc


def tag(case, out):
    ks = "".join(sorted(_kinds(case["prog"], set())))
    hit = out.count("X,a:")          # cancels that resumed a waiting function
    fc = set()
    for e in case["pre"] + case["post"]:
        if e[0] == "f" and e[2][0] != "v":
            fc.add(_cls(e[2]) + e[2][0])
    for sp in case["specs"]:
        sp = _norm_spec(sp)
        if sp[0] == "e":
            fc.add("x" + sp[2] + sp[3])
    dk = "".join(sorted(set("".join(case.get("dk") or []))))
    nil = case.get("nil")
    nilseen = nil is not None and ("v%d" % nil) in out          # the value that travels as None occurred in the run
    if is_reentrant_case(case):
        import re as _re
        acts = "".join(sorted(set(r[3][0] for r in case.get("relay") or [])))
        ks += "|relay:%s|%s" % (acts, "reentrant" if _re.search(r"(^|,)W\d+", out) else "plain")
    return "%s|%s|pre%d|x%d|%s|%s|%s|%s|%s%s%s" % (
        case.get("kind"), ks, min(len(case["pre"]), 3) if len(case["pre"]) < 100 else 100, hit, "end" if "R:" in out else "wait", "A" if "!A" in out else "", ".".join(sorted(fc)), dk,
        "N" if nilseen else "", "O" if case.get("nobs", 1) > 1 else "", "D" if case.get("dbg") else "")


def _has_rv(p):
    return p[0] == "rv" or any(_has_rv(p[i]) for i in _KIDS.get(p[0], []))


def _strip_rv(p):
    if p[0] == "rv":
        return ["r", p[1]]
    out = list(p)
    for i in _KIDS.get(p[0], []):
        out[i] = _strip_rv(p[i])
    return out


def _sub(p):
    """smaller programs: a child in place of the node, skip in place of the node"""
    t = p[0]
    kids = _KIDS.get(t, [])
    for i in kids:
        yield p[i]
    if t != "k":
        yield ["k"]
    for i in kids:
        for s in _sub(p[i]):
            yield p[:i] + [s] + p[i + 1:]
    if t == "l" and p[1] > 1:
        if p[1] > 8:
            yield ["l", p[1] // 2, p[2]]
        yield ["l", p[1] - 1, p[2]]


def shrink(case):
    if _HANGS[0] >= 10:
        return          # every candidate would cost a watchdog timeout
    for key in ("post", "pre"):
        evs = case[key]
        for i in range(len(evs)):
            c = dict(case); c[key] = evs[:i] + evs[i + 1:]
            yield c
    for p in _sub(case["prog"]):
        c = dict(case); c["prog"] = _sanitize(p)
        yield c
    for key in ("nil", "nobs", "dbg"):
        if key in case:
            c = dict(case); del c[key]
            yield c
    rl = case.get("relay") or []
    for i in range(len(rl)):
        c = dict(case); c["relay"] = rl[:i] + rl[i + 1:]
        if not c["relay"]:
            del c["relay"]
        yield c
    for i, r in enumerate(rl):
        if r[3] != ["p"]:
            c = dict(case); c["relay"] = rl[:i] + [[r[0], r[1], r[2], ["p"]]] + rl[i + 1:]
            yield c
    if _has_rv(case["prog"]):
        c = dict(case); c["prog"] = _strip_rv(case["prog"])
        yield c
    if case["specs"]:
        c = dict(case); c["specs"] = case["specs"][:-1]
        yield c
    for i, s in enumerate(case["specs"]):
        if s != ["n"]:
            c = dict(case); c["specs"] = case["specs"][:i] + [["n"]] + case["specs"][i + 1:]
            yield c
    if case.get("dk"):
        c = dict(case); del c["dk"]
        yield c
        for i, k in enumerate(case["dk"]):
            if k:
                c = dict(case); c["dk"] = case["dk"][:i] + [""] + case["dk"][i + 1:]
                yield c
    for key in ("post", "pre"):
        evs = case[key]
        for i, e in enumerate(evs):
            if e[0] == "f" and e[2][0] != "v":
                if _cls(e[2]) != "p":
                    c = dict(case); c[key] = evs[:i] + [["f", e[1], [e[2][0], e[2][1], "p"]]] + evs[i + 1:]
                    yield c
                c = dict(case); c[key] = evs[:i] + [["f", e[1], ["v", e[2][1]]]] + evs[i + 1:]
                yield c


def search(rng, tier, disagreeing):
    """all cancellation points (single and double) and many firing orders of the disagreeing programs, both kinds"""
    import itertools
    if _HANGS[0] >= 10:
        return          # the driver loops for ever on many cases: the witnesses found so far say it all
    for case in disagreeing[:5]:
        fires = [e for e in case["pre"] + case["post"] if e[0] == "f"]
        if len(fires) > 12:
            continue          # a long run: its schedule is the point, there is nothing to permute
        orders = list(itertools.permutations(fires)) if len(fires) <= 4 else [tuple(rng.sample(fires, len(fires))) for _ in range(24)]
        for order in orders:
            for npre in range(len(order) + 1):
                pre, post = list(order[:npre]), list(order[npre:])
                for kind in (("gen", "coro") if not is_reentrant_case(case) else (case.get("kind", "gen"),)):
                    base = {"kind": kind, "prog": case["prog"], "specs": case["specs"], "pre": pre, "post": post}
                    for key in ("dk", "nil", "nobs", "dbg", "relay"):
                        if key in case:
                            base[key] = case[key]
                    yield base
                    for j in range(len(post) + 1):
                        c = dict(base); c["post"] = post[:j] + [["x"]] + post[j:]
                        yield c
                        for k in range(j, len(post) + 1):
                            c2 = dict(base); c2["post"] = post[:j] + [["x"]] + post[j:k] + [["x"]] + post[k:]
                            yield c2
